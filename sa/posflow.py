"""Position-threading facts for ``process(self, pos, data, ctx)`` methods of the parser combinators.

A syntax-directed walk tracks, for every local variable, the set of *origins* it
may hold:

  P0        the position parameter            P0+n / P0+*   parameter plus a known / unknown positive offset
  R<k>      position returned by child call k R<k>+n
  V<k>      value returned by child call k
  C:<text>  anything else (text of the defining expression)

Loops are walked twice (loop-carried origins); an ``except`` body starts from the
join of the environments before the ``try`` and after each statement of its body
(a raising child never completes its tuple assignment).
"""
import ast

from .model import FUNC_TYPES, U, call_attr, short, guard_texts


class Facts(object):
    def __init__(self):
        self.calls = []      # dict(k, callee, arg, node, in_loop, in_try, bound_pos, bound_val, discarded, returned_directly)
        self.returns = []    # dict(pos, val, node, in_handler, guards)
        self.raises = []     # dict(node, guards, in_handler)
        self.appends = []    # dict(target, val origins, node)
        self.stores = []     # writes into data / ctx


def _join(a, b):
    out = dict(a)
    for k, v in b.items():
        out[k] = set(out.get(k, set())) | set(v)
    return out


class Walker(object):
    def __init__(self, fn):
        self.fn = fn
        ps = [a.arg for a in fn.args.args]
        self.pos, self.data, self.ctx = ps[1], ps[2], ps[3]
        self.facts = Facts()
        self.callmap = {}     # id(call node) -> k
        env = {self.pos: set(["P0"])}
        self.block(fn.body, env, in_loop=False, in_try=False, in_handler=False)

    # -- expressions ----------------------------------------------------------
    def origins(self, e, env):
        if isinstance(e, ast.Name):
            return set(env.get(e.id, set(["C:" + e.id])))
        if isinstance(e, ast.BinOp) and isinstance(e.op, ast.Add):
            l = self.origins(e.left, env)
            if isinstance(e.right, ast.Constant) and isinstance(e.right.value, int):
                return set(_plus(o, e.right.value) for o in l)
            return set(_plus(o, "*") for o in l)
        if isinstance(e, ast.Call) and self.is_child_call(e):
            k = self.record_call(e, env, None, None, False)
            return set(["RV%d" % k])
        return set(["C:" + short(e, 60)])

    def is_child_call(self, e):
        return isinstance(e, ast.Call) and call_attr(e) == "process" and len(e.args) == 3 and U(e.args[1]) == self.data and U(e.args[2]) == self.ctx

    def record_call(self, call, env, bound_pos, bound_val, discarded, ctxflags=None):
        if id(call) in self.callmap:
            k = self.callmap[id(call)]
            rec = self.facts.calls[k]
            rec["arg"] |= self.origins(call.args[0], env)
            return k
        k = len(self.facts.calls)
        self.callmap[id(call)] = k
        self.facts.calls.append({"k": k, "callee": U(call.func.value), "arg": self.origins(call.args[0], env), "node": call, "bound_pos": bound_pos, "bound_val": bound_val,
                                 "discarded": discarded, "returned_directly": False, "in_loop": False, "in_try": False, "in_handler": False})
        return k

    def _merge(self, lst, rec, setkeys):
        for r in lst:
            if r["node"] is rec["node"]:
                for k in setkeys:
                    r[k] = set(r.get(k, set())) | set(rec.get(k, set()))
                for k in ("in_handler", "in_loop", "in_try"):
                    if k in rec:
                        r[k] = r.get(k, False) or rec[k]
                return
        lst.append(rec)

    # -- statements -----------------------------------------------------------
    def block(self, stmts, env, in_loop, in_try, in_handler):
        for st in stmts:
            env = self.stmt(st, env, in_loop, in_try, in_handler)
        return env

    def flags(self, k, in_loop, in_try, in_handler):
        c = self.facts.calls[k]
        c["in_loop"] = c["in_loop"] or in_loop
        c["in_try"] = c["in_try"] or in_try
        c["in_handler"] = c["in_handler"] or in_handler

    def stmt(self, st, env, in_loop, in_try, in_handler):
        env = dict(env)
        if isinstance(st, ast.Assign) and len(st.targets) == 1:
            t, v = st.targets[0], st.value
            if isinstance(t, ast.Tuple) and len(t.elts) == 2 and self.is_child_call(v):
                pn = t.elts[0].id if isinstance(t.elts[0], ast.Name) else None
                vn = t.elts[1].id if isinstance(t.elts[1], ast.Name) else None
                k = self.record_call(v, env, pn, vn, False)
                self.flags(k, in_loop, in_try, in_handler)
                if pn:
                    env[pn] = set(["R%d" % k])
                if vn:
                    env[vn] = set(["V%d" % k])
                return env
            if isinstance(t, ast.Tuple) and isinstance(v, (ast.Tuple,)) and len(t.elts) == len(v.elts):
                for a, b in zip(t.elts, v.elts):
                    if isinstance(a, ast.Name):
                        env[a.id] = self.origins(b, env)
                return env
            if isinstance(t, ast.Tuple):
                for a in t.elts:
                    if isinstance(a, ast.Name):
                        env[a.id] = set(["C:" + short(v, 50)])
                return env
            if isinstance(t, ast.Name):
                env[t.id] = self.origins(v, env)
                return env
            if isinstance(t, (ast.Subscript, ast.Attribute)):
                base = t.value
                while isinstance(base, (ast.Subscript, ast.Attribute)):
                    base = base.value
                if isinstance(base, ast.Name) and base.id in (self.data, self.ctx):
                    self._merge(self.facts.stores, {"node": st, "target": U(t), "in_handler": in_handler, "guards": guard_texts(st)}, ())
                return env
            return env
        if isinstance(st, ast.AugAssign) and isinstance(st.target, ast.Name):
            cur = env.get(st.target.id, set(["C:" + st.target.id]))
            if isinstance(st.op, ast.Add) and isinstance(st.value, ast.Constant) and isinstance(st.value.value, int):
                env[st.target.id] = set(_plus(o, st.value.value) for o in cur)
            else:
                env[st.target.id] = set(_plus(o, "*") for o in cur)
            return env
        if isinstance(st, ast.Expr):
            v = st.value
            if self.is_child_call(v):
                k = self.record_call(v, env, None, None, True)
                self.flags(k, in_loop, in_try, in_handler)
                return env
            if isinstance(v, ast.Call) and call_attr(v) == "append" and v.args:
                self._merge(self.facts.appends, {"target": U(v.func.value), "val": self.origins(v.args[0], env), "node": v}, ("val",))
                return env
            if isinstance(v, ast.Call) and isinstance(v.func, ast.Attribute):
                base = v.func.value
                if isinstance(base, ast.Name) and base.id in (self.data, self.ctx):
                    self._merge(self.facts.stores, {"node": st, "target": "%s.%s(...)" % (base.id, v.func.attr), "in_handler": in_handler, "guards": guard_texts(st), "call": v.func.attr}, ())
            return env
        if isinstance(st, ast.Return):
            v = st.value
            rec = {"node": st, "in_handler": in_handler, "guards": guard_texts(st), "in_loop": in_loop, "in_try": in_try}
            if v is not None and self.is_child_call(v):
                k = self.record_call(v, env, None, None, False)
                self.flags(k, in_loop, in_try, in_handler)
                self.facts.calls[k]["returned_directly"] = True
                rec["pos"], rec["val"], rec["valtext"] = set(["R%d" % k]), set(["V%d" % k]), "V%d" % k
            elif isinstance(v, ast.Tuple) and len(v.elts) == 2:
                rec["pos"] = self.origins(v.elts[0], env)
                rec["val"] = self.origins(v.elts[1], env)
                rec["valtext"] = U(v.elts[1])
            else:
                rec["pos"], rec["val"], rec["valtext"] = set(["C:" + short(v)]), set(), U(v)
            self._merge(self.facts.returns, rec, ("pos", "val"))
            return env
        if isinstance(st, ast.Raise):
            self._merge(self.facts.raises, {"node": st, "guards": guard_texts(st), "in_handler": in_handler, "in_loop": in_loop, "in_else": False}, ())
            return env
        if isinstance(st, ast.If):
            a = self.block(st.body, env, in_loop, in_try, in_handler)
            b = self.block(st.orelse, env, in_loop, in_try, in_handler)
            return _join(a, b)
        if isinstance(st, (ast.For, ast.While)):
            e1 = self.block(st.body, env, True, in_try, in_handler)
            head = _join(env, _widen_new(e1, env))
            e2 = self.block(st.body, head, True, in_try, in_handler)
            return _join(head, _widen_new(e2, head))
        if isinstance(st, ast.Try):
            pre = dict(env)
            hjoin = dict(pre)
            cur = dict(env)
            for s in st.body:
                cur = self.stmt(s, cur, in_loop, True, in_handler)
                hjoin = _join(hjoin, cur)
            # the handler of a raising child call sees the state *before* its tuple assignment completed:
            # exclude origins created by the raising call itself by starting from the join of prefixes
            hstart = dict(pre)
            curp = dict(pre)
            for s in st.body[:-1]:
                curp = self.stmt(s, curp, in_loop, True, in_handler)
                hstart = _join(hstart, curp)
            out = dict(cur)
            n0 = len(self.facts.raises)
            if st.orelse:
                out = self.block(st.orelse, cur, in_loop, in_try, in_handler)
                for s2 in st.orelse:
                    for r in self.facts.raises:
                        if any(r["node"] is n for n in ast.walk(s2)):
                            r["in_else"] = True
            for h in st.handlers:
                he = self.block(h.body, hstart, in_loop, in_try, True)
                out = _join(out, he)
            if st.finalbody:
                out = self.block(st.finalbody, out, in_loop, in_try, in_handler)
            return out
        if isinstance(st, ast.With):
            return self.block(st.body, env, in_loop, in_try, in_handler)
        return env


def _widen_new(new, base):
    """Origins of ``new`` not already in ``base``, with known offsets widened to '+*' (loop-carried growth)."""
    out = {}
    for k, v in new.items():
        b = base.get(k, set())
        w = set()
        for o in v:
            if o in b:
                w.add(o)
            elif "+" in o and not o.startswith("C:"):
                w.add(o.partition("+")[0] + "+*")
            else:
                w.add(o)
        out[k] = w
    return out


def _plus(o, n):
    if o.startswith("C:"):
        return o
    base, _, off = o.partition("+")
    if off == "" and n != "*":
        return "%s+%d" % (base, n)
    if off == "*" or n == "*":
        return "%s+*" % base
    return "%s+%d" % (base, int(off) + n)


def facts_of(fn):
    return Walker(fn).facts
