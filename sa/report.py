"""Verdict protocol: obligations, violations, known findings, evidence, replay."""
import hashlib
import json
import os
import re
import sys
import time

from .model import AnalysisError, U, loc_of, qual_of, short

VERIF = os.path.dirname(os.path.dirname(os.path.abspath(__file__)))
KNOWN_FILE = os.path.join(VERIF, "known_findings.txt")

COMMON_ASSUMPTIONS = [
    "Python is dynamic: monkey-patching, setattr with computed names and exec are invisible unless modelled (modelled: component-type decorators, SpecSetMeta registry points, serializer/deserializer registries).",
    "The rules decide the mechanism as written in the source of the current working tree; the standard library and third-party calls are assumed to behave as documented.",
    "Tests, docs and examples are not analysed; insights is never imported or executed.",
]

_FINDING_RE = re.compile(r'^finding:\s+property=(\S+)\s+key=("(?:[^"\\]|\\.)*")\s*(.*)$')


def load_known(path=KNOWN_FILE):
    known = {}
    if not os.path.isfile(path):
        return known
    with open(path) as fh:
        for line in fh:
            line = line.rstrip("\n")
            m = _FINDING_RE.match(line)
            if m:
                pid, key, desc = m.group(1), json.loads(m.group(2)), m.group(3)
                known[(pid, key)] = desc
    return known


class Finding(object):
    def __init__(self, rule, func, construct, msg, loc, path=None):
        self.rule = rule
        self.func = func
        self.construct = construct
        self.msg = msg
        self.loc = loc
        self.path = path

    @property
    def key(self):
        return "%s|%s|%s" % (self.rule, self.func, self.construct)

    def as_dict(self):
        d = {"rule": self.rule, "function": self.func, "construct": self.construct,
             "message": self.msg, "location": self.loc, "key": self.key}
        if self.path:
            d["path"] = self.path
        return d


class Check(object):
    """One run of one property's rules."""

    def __init__(self, pid, tier, repo, seed=0, quiet=False):
        self.pid = pid
        self.tier = tier
        self.repo = repo
        self.seed = seed
        self.quiet = quiet
        self.t0 = time.time()
        self.obligations = []       # dicts
        self.violations = []        # Finding
        self.errors = []            # (rule, reason)
        self.infos = []
        self.rules = {}             # rule -> {instances, floor, status, title}
        self.assumptions = list(COMMON_ASSUMPTIONS)
        self.undecided = []
        self.extra = {}
        self.current = None

    # ---- rule bookkeeping -------------------------------------------------
    def rule(self, rid, title, floor=1):
        self.current = rid
        self.rules.setdefault(rid, {"title": title, "instances": 0, "floor": floor, "status": "ok", "violations": 0})
        return rid

    def _site(self, node):
        if node is None:
            return "?", "?"
        return loc_of(node), qual_of(node)

    def ok(self, node, what, construct=None, rule=None):
        rid = rule or self.current
        loc, fn = self._site(node)
        c = short(construct if construct is not None else node)
        self.rules[rid]["instances"] += 1
        self.obligations.append({"rule": rid, "status": "discharged", "location": loc, "function": fn,
                                 "construct": c, "obligation": what})

    def bad(self, node, what, construct=None, rule=None, func=None, path=None):
        rid = rule or self.current
        loc, fn = self._site(node)
        if func:
            fn = func
        c = short(construct if construct is not None else node)
        self.rules[rid]["instances"] += 1
        self.rules[rid]["violations"] += 1
        self.rules[rid]["status"] = "violated"
        self.obligations.append({"rule": rid, "status": "VIOLATED", "location": loc, "function": fn,
                                 "construct": c, "obligation": what})
        self.violations.append(Finding(rid, fn, c, what, loc, path))

    def require(self, cond, node, what, construct=None, rule=None):
        if cond:
            self.ok(node, what, construct, rule)
        else:
            self.bad(node, what, construct, rule)
        return bool(cond)

    def info(self, node, what, construct=None, rule=None):
        rid = rule or self.current
        loc, fn = self._site(node)
        self.infos.append({"rule": rid, "location": loc, "function": fn,
                           "construct": short(construct if construct is not None else node) if (construct is not None or node is not None) else "",
                           "note": what})

    def error(self, reason, rule=None):
        rid = rule or self.current or "engine"
        if rid in self.rules:
            self.rules[rid]["status"] = "analysis-error"
        self.errors.append((rid, reason))

    def unknown(self, node, reason, rule=None):
        """A candidate construct in a form neither accepted nor known-bad."""
        loc, fn = self._site(node)
        self.error("unrecognised idiom at %s in %s: %s :: %s" % (loc, fn, short(node), reason), rule)

    def borrow(self, fn, old_id, new_id, title, *a, **kw):
        """Run a rule function of another property and re-label its results as ``new_id``."""
        self.guard(fn, *a, **kw)
        if old_id in self.rules:
            r = self.rules.pop(old_id)
            r["title"] = title
            if new_id in self.rules:
                for k in ("instances", "violations"):
                    self.rules[new_id][k] += r[k]
                if r["status"] != "ok":
                    self.rules[new_id]["status"] = r["status"]
            else:
                self.rules[new_id] = r
        for o in self.obligations:
            if o["rule"] == old_id:
                o["rule"] = new_id
        for v in self.violations:
            if v.rule == old_id:
                v.rule = new_id
        self.errors = [((new_id if rid == old_id else rid), reason) for rid, reason in self.errors]
        for i in self.infos:
            if i["rule"] == old_id:
                i["rule"] = new_id

    def guard(self, fn, *a, **kw):
        """Run one rule function; anchor problems become analysis errors."""
        before = self.current
        try:
            fn(self, *a, **kw)
        except AnalysisError as e:
            self.error(e.reason, e.rule if e.rule != "anchor" else self.current)
        except RecursionError as e:  # pragma: no cover
            self.error("recursion limit in %s" % fn.__name__)
        except Exception as e:
            import traceback
            tb = traceback.format_exc().strip().splitlines()
            self.error("internal error in %s: %r (%s)" % (fn.__name__, e, " | ".join(tb[-3:])))
        rid = self.current
        if rid and rid in self.rules:
            r = self.rules[rid]
        # floors for every rule touched by this function are checked in finish()
        self.current = before

    # ---- finish -----------------------------------------------------------
    def finish(self, evidence_path=None, write_evidence=True):
        known = load_known()
        # floors
        for rid, r in sorted(self.rules.items()):
            if r["status"] == "analysis-error":
                continue
            # the declared floor is the count confirmed by hand on the pinned tree; ordinary maintenance
            # (merged handlers, a removed call site) may lower it somewhat, a collapse means the rule went blind
            eff = max(1, int(r["floor"] * 0.7))
            if r["instances"] < eff:
                r["status"] = "analysis-error"
                self.errors.append((rid, "instance floor not met: %d < %d (70%% of the %d instances confirmed on the pinned tree; the rule would pass vacuously)" % (r["instances"], eff, r["floor"])))
        new, kf = [], []
        seen = set()
        for v in self.violations:
            if v.key in seen:
                continue
            seen.add(v.key)
            if (self.pid, v.key) in known:
                kf.append(v)
            else:
                new.append(v)
        lines = []
        for v in kf:
            lines.append("KNOWN-FINDING: property=%s %s at %s in %s: %s [%s]" % (self.pid, v.rule, v.loc, v.func, v.msg, v.construct))
        replay_paths = []
        for v in new:
            rp = self._write_replay(v)
            replay_paths.append(rp)
            lines.append("FINDING property=%s rule=%s at %s in %s\n    construct: %s\n    broken: %s%s" % (
                self.pid, v.rule, v.loc, v.func, v.construct, v.msg,
                ("\n    path: %s" % v.path) if v.path else ""))
        for rid, reason in self.errors:
            lines.append("ANALYSIS-ERROR property=%s rule=%s reason=%s" % (self.pid, rid, reason))
        if new:
            code = 1
            for rp in replay_paths[:1]:
                lines.append("VIOLATION property=%s replay=%s" % (self.pid, rp))
        elif self.errors:
            code = 2
        else:
            code = 0
        wall = time.time() - self.t0
        if write_evidence:
            self._write_evidence(evidence_path, wall, new, kf, code)
        if not self.quiet:
            for ln in lines:
                print(ln)
            n_ob = len(self.obligations)
            print("%s tier=%s: %d obligations over %d rules, %d violated (%d known), %d analysis errors, %d modules parsed, %.2fs -> exit %d" % (
                self.pid, self.tier, n_ob, len(self.rules), len(new) + len(kf), len(kf), len(self.errors), len(self.repo.loaded), wall, code))
        self.exit_code = code
        self.new_violations = new
        self.known_hits = kf
        return code

    def _write_replay(self, v):
        d = os.path.join(VERIF, "evidence", "replay", self.pid)
        try:
            os.makedirs(d, exist_ok=True)
            h = hashlib.sha1(v.key.encode("utf-8")).hexdigest()[:12]
            p = os.path.join(d, "%s-%s.json" % (v.rule.replace(".", "_"), h))
            with open(p, "w") as fh:
                json.dump({"property": self.pid, "root": self.repo.root, "tier": self.tier, "finding": v.as_dict()}, fh, indent=1)
            return p
        except OSError:
            return "(unwritable:%s)" % v.key

    def _write_evidence(self, path, wall, new, kf, code):
        path = path or os.path.join(VERIF, "evidence", "%s.json" % self.pid)
        distinct = set((o["rule"], o["function"], o["construct"]) for o in self.obligations)
        samples = []
        per_rule_seen = {}
        for o in self.obligations:
            c = per_rule_seen.get(o["rule"], 0)
            if c < 2:
                samples.append(o)
                per_rule_seen[o["rule"]] = c + 1
        fn_count = len(set(o["function"] for o in self.obligations))
        cov = {
            "explanation": "Static analysis of the source of %s (never imported or executed). Each obligation is one rule instance (a call site, handler, guard, table entry, class or path) found on this run and decided by the rule named; 'rules' gives per-rule instance counts against the hand-confirmed floor. %s" % (
                self.repo.root, self.extra.get("explanation", "")),
            "evaluations": len(self.obligations),
            "distinct_nontrivial": len(distinct),
            "rule": "one evaluation = one rule instance located in the current source (site, handler, table row, class, path, abstract state obligation); distinct = distinct (rule, qualified function, normalised construct) triples; an instance is non-trivial because it is a construct of the repository that the rule had to classify (a rule that finds fewer instances than its floor is an analysis error, not a pass)",
            "samples": samples[:60],
            "obligations": len(self.obligations),
            "discharged": sum(1 for o in self.obligations if o["status"] == "discharged"),
            "rules": dict((rid, {"title": r["title"], "instances": r["instances"], "floor": r["floor"], "status": r["status"]}) for rid, r in sorted(self.rules.items())),
            "modules_parsed": len(self.repo.loaded),
            "functions_with_obligations": fn_count,
            "new_violations": [v.as_dict() for v in new],
            "known_findings_hit": [v.as_dict() for v in kf],
            "analysis_errors": ["%s: %s" % e for e in self.errors],
            "info": self.infos[:200],
            "not_decided": self.undecided,
            "exit_code": code,
            "root": self.repo.root,
            "exhaustive": False,
        }
        for k, v in self.extra.items():
            if k != "explanation":
                cov[k] = v
        ev = {
            "property_id": self.pid,
            "tier": self.tier,
            "seed": int(self.seed),
            "level": "other",
            "coverage": cov,
            "assumptions": self.assumptions,
            "wall_s": round(wall, 3),
            "violations": len(new),
        }
        tmp = path + ".tmp"
        os.makedirs(os.path.dirname(path), exist_ok=True)
        with open(tmp, "w") as fh:
            json.dump(ev, fh, indent=1, sort_keys=True, default=str)
            fh.write("\n")
        os.replace(tmp, path)
