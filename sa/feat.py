"""Feature queries used by the helper-shaped rules: they ask *whether a construct with a given meaning exists
somewhere in the region of a function* instead of comparing the text of one pinned statement, so that extracting a
helper, renaming locals, replacing an accumulate loop by a comprehension or turning a wrapping ``if`` into an early
``continue`` does not change the answer."""
import ast

from . import alpha
from .model import FUNC_TYPES, U, call_attr, call_name, enclosing, enclosing_function, guard_texts, parent, walk_body
from .util import assigns_to


def region(mod, fn, depth=3):
    """``fn`` and the module-level functions / sibling methods it calls (transitively) that did not exist on the pinned tree."""
    pinned = alpha.table().get(mod.name, {})
    out, todo, seen = [], [(fn, 0)], set()
    while todo:
        f, d = todo.pop()
        if id(f) in seen:
            continue
        seen.add(id(f))
        out.append(f)
        if d >= depth:
            continue
        for n in ast.walk(f):
            if not isinstance(n, ast.Call):
                continue
            nm = call_name(n)
            cands = []
            if isinstance(n.func, ast.Name):
                cands.append(nm)
            elif isinstance(n.func, ast.Attribute) and U(n.func.value) in ("self", "cls"):
                q = getattr(fn, "_qual", "")
                if "." in q:
                    cands.append(q.rsplit(".", 1)[0] + "." + n.func.attr)
            for c in cands:
                if c and c not in pinned and mod.has(c):
                    g = mod.get(c)
                    if isinstance(g, FUNC_TYPES):
                        todo.append((g, d + 1))
    return out


def walk(reg):
    for f in reg:
        for n in ast.walk(f):
            yield n


def calls(reg, attr=None, name=None):
    out = []
    for n in walk(reg):
        if isinstance(n, ast.Call):
            if attr is not None and call_attr(n) not in ((attr,) if isinstance(attr, str) else attr):
                continue
            if name is not None and call_name(n) not in ((name,) if isinstance(name, str) else name):
                continue
            out.append(n)
    seen, res = set(), []
    for n in out:
        if id(n) not in seen:
            seen.add(id(n))
            res.append(n)
    res.sort(key=lambda n: (n.lineno, n.col_offset))
    return res


def names_in(expr):
    return set(n.id for n in ast.walk(expr) if isinstance(n, ast.Name))


def flows_from(expr, fn, pred, depth=6):
    """Does ``expr`` contain, directly or through the local assignments of ``fn`` that feed its names, a node satisfying ``pred``?"""
    seen = set()
    todo = [(expr, 0)]
    while todo:
        e, d = todo.pop()
        for n in ast.walk(e):
            if pred(n):
                return True
        if d >= depth or fn is None:
            continue
        for nm in names_in(e):
            if nm in seen:
                continue
            seen.add(nm)
            for a in assigns_to(fn, nm):
                v = getattr(a, "value", None)
                if v is not None:
                    todo.append((v, d + 1))
            for lp in walk_body(fn.body):
                if isinstance(lp, (ast.For, ast.comprehension)) and nm in names_in(lp.target):
                    todo.append((lp.iter, d + 1))
    return False


def loop_exits(lp, kinds=(ast.Break, ast.Return)):
    return [x for x in walk_body(lp.body) if isinstance(x, kinds)]


def paths(stmts, limit=4000):
    """Acyclic paths through a structured statement list (If / Try bodies / jumps; inner loops are taken zero or one time).
    Each path is (trail, end): trail = [('cond', text, polarity) | ('stmt', node)], end in fall/continue/break/return/raise."""
    from .model import _flatten_atom

    def seq(body):
        res = [([], "fall")]
        for st in body:
            nxt = []
            for trail, end in res:
                if end != "fall":
                    nxt.append((trail, end))
                    continue
                for t2, e2 in one(st):
                    nxt.append((trail + t2, e2))
            res = nxt
            if len(res) > limit:
                raise ValueError("too many paths")
        return res

    def conds(test, pol):
        out = []
        _flatten_atom(test, pol, out)
        return [("cond", U(e), p) for e, p in out]

    def one(st):
        if isinstance(st, ast.If):
            a = [(conds(st.test, True) + t, e) for t, e in seq(st.body)]
            b = [(conds(st.test, False) + t, e) for t, e in seq(st.orelse)]
            return a + b
        if isinstance(st, ast.Continue):
            return [([], "continue")]
        if isinstance(st, ast.Break):
            return [([], "break")]
        if isinstance(st, ast.Return):
            return [([("stmt", st)], "return")]
        if isinstance(st, ast.Raise):
            return [([("stmt", st)], "raise")]
        if isinstance(st, ast.Try):
            out = []
            for t, e in seq(st.body):
                if e == "fall":
                    for t2, e2 in seq(st.orelse):
                        out.append((t + t2, e2))
                else:
                    out.append((t, e))
            for h in st.handlers:
                for t, e in seq(h.body):
                    out.append(([("cond", "except %s" % (U(h.type) if h.type is not None else ""), True)] + t, e))
            if st.finalbody:
                out2 = []
                for t, e in out:
                    for t2, e2 in seq(st.finalbody):
                        out2.append((t + t2, e if e2 == "fall" else e2))
                out = out2
            return out
        if isinstance(st, (ast.For, ast.While)):
            out = [([], "fall")]
            for t, e in seq(st.body):
                out.append((t, "fall" if e in ("fall", "continue", "break") else e))
            return out
        if isinstance(st, (ast.With, ast.AsyncWith)):
            return [([("stmt", st)] + t, e) for t, e in seq(st.body)]
        return [([("stmt", st)], "fall")]
    return seq(stmts)


def str_templates(expr):
    """Canonical templates of a string-building expression: [(conditions, text)] where text has literal parts verbatim and
    every dynamic part as {<source text>}.  Understands +, str.format (positional / keyword / auto-numbered), % with a tuple,
    f-strings, and conditional expressions (one template per branch).  Returns None for an unsupported shape."""
    import string

    def esc(s):
        return s.replace("{", "{{").replace("}", "}}")

    def go(e):
        if isinstance(e, ast.Constant) and isinstance(e.value, str):
            return [((), esc(e.value))]
        if isinstance(e, ast.BinOp) and isinstance(e.op, ast.Add):
            l, r = go(e.left), go(e.right)
            if l is None or r is None:
                return None
            return [(c1 + c2, a + b) for c1, a in l for c2, b in r]
        if isinstance(e, ast.IfExp):
            a, b = go(e.body), go(e.orelse)
            if a is None or b is None:
                return None
            t = U(e.test)
            return [(((t, True),) + c, x) for c, x in a] + [(((t, False),) + c, x) for c, x in b]
        if isinstance(e, ast.JoinedStr):
            res = [((), "")]
            for v in e.values:
                if isinstance(v, ast.Constant):
                    sub = [((), esc(v.value))]
                elif isinstance(v, ast.FormattedValue) and v.conversion == -1 and v.format_spec is None:
                    sub = go(v.value)
                else:
                    return None
                if sub is None:
                    return None
                res = [(c1 + c2, a + b) for c1, a in res for c2, b in sub]
            return res
        if isinstance(e, ast.Call) and isinstance(e.func, ast.Attribute) and e.func.attr == "format" and isinstance(e.func.value, ast.Constant) and isinstance(e.func.value.value, str):
            if any(isinstance(a, ast.Starred) for a in e.args) or any(k.arg is None for k in e.keywords):
                return None
            kw = dict((k.arg, k.value) for k in e.keywords)
            res = [((), "")]
            auto = 0
            try:
                pieces = list(string.Formatter().parse(e.func.value.value))
            except ValueError:
                return None
            for lit, field, spec, conv in pieces:
                res = [(c, a + esc(lit)) for c, a in res]
                if field is None:
                    continue
                if spec or conv:
                    return None
                if field == "":
                    field = str(auto)
                    auto += 1
                if field.isdigit():
                    if int(field) >= len(e.args):
                        return None
                    arg = e.args[int(field)]
                elif field in kw:
                    arg = kw[field]
                else:
                    return None
                sub = go(arg)
                if sub is None:
                    return None
                res = [(c1 + c2, a + b) for c1, a in res for c2, b in sub]
            return res
        if isinstance(e, ast.BinOp) and isinstance(e.op, ast.Mod) and isinstance(e.left, ast.Constant) and isinstance(e.left.value, str):
            args = list(e.right.elts) if isinstance(e.right, ast.Tuple) else [e.right]
            parts = e.left.value.split("%s")
            if len(parts) != len(args) + 1 or "%" in "".join(parts).replace("%%", ""):
                return None
            res = [((), parts[0].replace("%%", "%"))]
            for a, lit in zip(args, parts[1:]):
                sub = go(a)
                if sub is None:
                    return None
                res = [(c1 + c2, x + y + lit.replace("%%", "%")) for c1, x in res for c2, y in sub]
            return res
        # dynamic part
        return [((), "{%s}" % U(e))]
    return go(expr)


def value_cases(fn, name, before=None, common=()):
    """The possible definitions of the local ``name`` (as reaching ``before``) as a set of (frozenset of extra guard atoms, value text).

    Understands a conditional expression (one case per branch), an assignment nested under conditions, and the
    'default, then conditional override' idiom (x = A; if c: x = B  ==  x = B if c else A for a single-atom c).
    ``common``: guard atoms shared with the use site, removed from every case.  Returns None when the shape is not understood."""
    from .model import _flatten_atom
    asg = [a for a in walk_body(fn.body) if isinstance(a, ast.Assign) and len(a.targets) == 1 and isinstance(a.targets[0], ast.Name) and a.targets[0].id == name
           and (before is None or a.lineno < before.lineno)]
    asg.sort(key=lambda a: (a.lineno, a.col_offset))
    if not asg:
        return None
    common = set(common)
    shared = None
    for a in asg:
        ga = set(guard_texts(a))
        shared = ga if shared is None else shared & ga
    common |= shared or set()

    def cases_of(a):
        g = frozenset(guard_texts(a) - common)
        v = a.value
        if isinstance(v, ast.IfExp):
            t, f = [], []
            _flatten_atom(v.test, True, t)
            _flatten_atom(v.test, False, f)
            return [(g | frozenset((U(e), p) for e, p in t), U(v.body)), (g | frozenset((U(e), p) for e, p in f), U(v.orelse))]
        return [(g, U(v))]
    out = []
    for i, a in enumerate(asg):
        cs = cases_of(a)
        if i == 0:
            out = cs
            continue
        # a later assignment overrides the earlier cases where its guard holds
        for g, v in cs:
            extra = g
            if len(extra) != 1:
                return None
            (t, p), = tuple(extra)
            new = []
            for g0, v0 in out:
                if (t, p) in g0:
                    continue                  # overridden entirely
                if (t, not p) in g0:
                    new.append((g0, v0))      # disjoint
                else:
                    new.append((g0 | frozenset([(t, not p)]), v0))
            new.append((g, v))
            out = new
    return set(out)


def regex_table_of(mod, it):
    """Name of the module-level table of pattern strings a loop iterates: the table itself, or a module-level list of
    re.compile(<element>) built from it by a comprehension (patterns compiled once at import)."""
    if isinstance(it, ast.Name):
        v = mod.top.get(it.id)
        if isinstance(v, (ast.ListComp, ast.GeneratorExp)) or (isinstance(v, ast.Call) and call_name(v) in ("list", "tuple") and v.args and isinstance(v.args[0], (ast.ListComp, ast.GeneratorExp))):
            lc = v if isinstance(v, (ast.ListComp, ast.GeneratorExp)) else v.args[0]
            g = lc.generators[0]
            if len(lc.generators) == 1 and not g.ifs and isinstance(lc.elt, ast.Call) and call_name(lc.elt) == "re.compile" and len(lc.elt.args) == 1 \
                    and not lc.elt.keywords and U(lc.elt.args[0]) == U(g.target) and isinstance(g.iter, ast.Name):
                return g.iter.id
        return it.id
    return None


def sub_calls(body):
    """Substitution calls in normal form: [(node, pattern expr, template expr, subject expr, count expr or None)] for
    re.sub(p, t, s[, count]) and <compiled>.sub(t, s[, count])."""
    out = []
    for n in walk_body(body):
        if not isinstance(n, ast.Call):
            continue
        kw = dict((k.arg, k.value) for k in n.keywords if k.arg)
        if call_name(n) == "re.sub" and len(n.args) >= 3:
            out.append((n, n.args[0], n.args[1], n.args[2], n.args[3] if len(n.args) > 3 else kw.get("count")))
        elif call_attr(n) == "sub" and isinstance(n.func, ast.Attribute) and call_name(n) != "re.sub" and len(n.args) >= 2 and U(n.func.value) != "re":
            out.append((n, n.func.value, n.args[0], n.args[1], n.args[2] if len(n.args) > 2 else kw.get("count")))
    out.sort(key=lambda t: (t[0].lineno, t[0].col_offset))
    return out


def filtered_copies(body):
    """Key/value copies in normal form: [(node, target text, iterable expr, set of filter atoms, key text, value text, key var, value var)] for

        for k, v in IT: if C: T[k] = v          T.update((k, v) for k, v in IT if C)          T.update({k: v for k, v in IT if C})"""
    from .model import _flatten_atom
    out = []
    for lp in [s for s in walk_body(body) if isinstance(s, ast.For)]:
        if not (isinstance(lp.target, ast.Tuple) and len(lp.target.elts) == 2):
            continue
        kv = [U(e) for e in lp.target.elts]
        st = [a for a in walk_body(lp.body) if isinstance(a, ast.Assign) and isinstance(a.targets[0], ast.Subscript)]
        if len(st) == 1 and not loop_exits(lp) and len([x for x in walk_body(lp.body) if isinstance(x, (ast.Assign, ast.AugAssign, ast.Expr))]) == 1:
            a = st[0]
            out.append((lp, U(a.targets[0].value), lp.iter, set(guard_texts(a, stop=lp)), U(a.targets[0].slice), U(a.value), kv[0], kv[1]))
    for c in [x for x in walk_body(body) if isinstance(x, ast.Call) and call_attr(x) == "update" and len(x.args) == 1 and not x.keywords]:
        comp = c.args[0]
        if isinstance(comp, (ast.GeneratorExp, ast.ListComp)) and isinstance(comp.elt, ast.Tuple) and len(comp.elt.elts) == 2:
            key, val = U(comp.elt.elts[0]), U(comp.elt.elts[1])
        elif isinstance(comp, ast.DictComp):
            key, val = U(comp.key), U(comp.value)
        else:
            continue
        if len(comp.generators) != 1 or not (isinstance(comp.generators[0].target, ast.Tuple) and len(comp.generators[0].target.elts) == 2):
            continue
        g = comp.generators[0]
        atoms = []
        for t in g.ifs:
            _flatten_atom(t, True, atoms)
        kv = [U(e) for e in g.target.elts]
        out.append((c, U(c.func.value), g.iter, set((U(e), p) for e, p in atoms) | set(guard_texts(c)), key, val, kv[0], kv[1]))
    return out


def expand_pure_helpers(mod, atoms):
    """Guard atoms with calls of one-line module-level helpers (def f(a, b): return <expr>) replaced by the expression they return."""
    from .normal import _Subst
    out = set()
    for t, p in atoms:
        try:
            e = ast.parse(t, mode="eval")
        except SyntaxError:
            out.add((t, p))
            continue
        changed = False
        for _ in range(3):
            hit = None
            for n in ast.walk(e):
                if isinstance(n, ast.Call) and isinstance(n.func, ast.Name) and not n.keywords and mod.has(n.func.id):
                    f = mod.get(n.func.id)
                    if not isinstance(f, FUNC_TYPES):
                        continue
                    body = [s for s in f.body if not (isinstance(s, ast.Expr) and isinstance(s.value, ast.Constant))]
                    ps = [a.arg for a in f.args.args]
                    if len(body) == 1 and isinstance(body[0], ast.Return) and body[0].value is not None and len(ps) == len(n.args) and not f.args.vararg and not f.args.kwarg:
                        hit = (n, f, ps, body[0].value)
                        break
            if hit is None:
                break
            n, f, ps, val = hit
            new = _Subst(dict(zip(ps, n.args))).visit(ast.parse(ast.unparse(val), mode="eval")).body
            src = ast.unparse(e).replace(ast.unparse(n), ast.unparse(new), 1)
            e = ast.parse(src, mode="eval")
            changed = True
        out.add((ast.unparse(e.body) if changed else t, p))
    return out


def resolve_const(mod, fn, expr, depth=4):
    """Follow a name to the constant it denotes: a local bound exactly once, a module-level constant, a class attribute read through
    cls / self / the class name, or an instance attribute assigned exactly once in __init__ (a value chosen once per object).
    Returns the defining expression (an ast node) or ``expr`` itself when it does not resolve to anything simpler."""
    from .model import enclosing
    seen = 0
    while seen < depth:
        seen += 1
        if isinstance(expr, ast.Name):
            ds = assigns_to(fn, expr.id) if fn is not None else []
            if len(ds) == 1 and isinstance(ds[0], ast.Assign) and len(ds[0].targets) == 1 and isinstance(ds[0].targets[0], ast.Name):
                expr = ds[0].value
                continue
            if not ds and mod.top.get(expr.id) is not None:
                nm = expr.id
                rebinds = [x for x in ast.walk(mod.tree) if isinstance(x, ast.Name) and x.id == nm and isinstance(x.ctx, (ast.Store, ast.Del))]
                if len(rebinds) == 1:
                    expr = mod.top.get(nm)
                    continue
            return expr
        if isinstance(expr, ast.Attribute) and isinstance(expr.value, ast.Name) and fn is not None:
            cls = enclosing(fn, ast.ClassDef)
            base = expr.value.id
            if cls is not None and base in ("self", "cls", cls.name):
                ca = [a for a in cls.body if isinstance(a, ast.Assign) and any(isinstance(t, ast.Name) and t.id == expr.attr for t in a.targets)]
                ia = [a for a in ast.walk(cls) if isinstance(a, ast.Assign) and any(U(t) == "self.%s" % expr.attr for t in a.targets)]
                if len(ca) == 1 and not ia:
                    expr = ca[0].value
                    continue
                if not ca and len(ia) == 1:
                    host = enclosing(ia[0], FUNC_TYPES)
                    if host is not None and host.name == "__init__" and not guard_texts(ia[0]):
                        expr = ia[0].value
                        fn = host
                        continue
            return expr
        return expr
    return expr


def quantifier_of(fn):
    """('all' | 'any', element text, iterable text, loop variable) for a function that returns a quantified test over one iterable:

        return all(P(x) for x in IT)                      for x in IT: if not P(x): return False   ... return True
        return any(P(x) for x in IT)                      for x in IT: if P(x): return True        ... return False      (or None)"""
    body = [s for s in fn.body if not (isinstance(s, ast.Expr) and isinstance(s.value, ast.Constant))]
    if len(body) == 1 and isinstance(body[0], ast.Return) and isinstance(body[0].value, ast.Call) and call_name(body[0].value) in ("all", "any") and len(body[0].value.args) == 1:
        g = body[0].value.args[0]
        if isinstance(g, (ast.GeneratorExp, ast.ListComp)) and len(g.generators) == 1 and not g.generators[0].ifs:
            return call_name(body[0].value), U(g.elt), U(g.generators[0].iter), U(g.generators[0].target)
        return None
    if len(body) == 2 and isinstance(body[0], ast.For) and isinstance(body[1], ast.Return) and not body[0].orelse and len(body[0].body) == 1 and isinstance(body[0].body[0], ast.If):
        lp, iff, last = body[0], body[0].body[0], body[1]
        if iff.orelse or len(iff.body) != 1 or not isinstance(iff.body[0], ast.Return):
            return None
        inner, final = U(iff.body[0].value), U(last.value)
        test = iff.test
        neg = isinstance(test, ast.UnaryOp) and isinstance(test.op, ast.Not)
        elt = U(test.operand) if neg else U(test)
        if neg and inner == "False" and final == "True":
            return "all", elt, U(lp.iter), U(lp.target)
        if not neg and inner == "True" and final == "False":
            return "any", elt, U(lp.iter), U(lp.target)
    return None


class NotConstant(Exception):
    pass


def fold_str_expr(e, env):
    """Constant folding of a pure string expression over given values of its free names (the program is not run: only literal operands and the
    str/list operations named here are folded).  Raises NotConstant for anything else."""
    STR_METHODS = ("lower", "upper", "strip", "lstrip", "rstrip", "split", "rsplit", "partition", "rpartition", "replace", "startswith", "endswith",
                   "removeprefix", "removesuffix", "title", "capitalize", "casefold", "swapcase", "find", "index", "join")

    def go(x):
        if isinstance(x, ast.Constant) and isinstance(x.value, (str, int, bool, type(None))):
            return x.value
        if isinstance(x, ast.Name):
            if x.id in env:
                return env[x.id]
            raise NotConstant(x.id)
        if isinstance(x, (ast.Tuple, ast.List)):
            return [go(i) for i in x.elts]
        if isinstance(x, ast.BinOp) and isinstance(x.op, (ast.Add, ast.Sub, ast.Mult)):
            a, b = go(x.left), go(x.right)
            try:
                return a + b if isinstance(x.op, ast.Add) else a - b if isinstance(x.op, ast.Sub) else a * b
            except Exception:
                raise NotConstant(U(x))
        if isinstance(x, ast.UnaryOp) and isinstance(x.op, ast.USub):
            return -go(x.operand)
        if isinstance(x, ast.Subscript):
            v = go(x.value)
            sl = x.slice
            try:
                if isinstance(sl, ast.Slice):
                    return v[(go(sl.lower) if sl.lower is not None else None):(go(sl.upper) if sl.upper is not None else None):(go(sl.step) if sl.step is not None else None)]
                return v[go(sl)]
            except NotConstant:
                raise
            except Exception:
                raise NotConstant("subscript fails: %s" % U(x))
        if isinstance(x, ast.Call) and isinstance(x.func, ast.Name) and x.func.id in ("len", "str") and len(x.args) == 1 and not x.keywords:
            v = go(x.args[0])
            return len(v) if x.func.id == "len" else str(v)
        if isinstance(x, ast.Call) and isinstance(x.func, ast.Attribute) and x.func.attr in STR_METHODS and not x.keywords:
            recv = go(x.func.value)
            if not isinstance(recv, str):
                raise NotConstant("receiver of .%s is not a string" % x.func.attr)
            if x.func.attr in ("removeprefix", "removesuffix") and not hasattr(recv, x.func.attr):
                a = go(x.args[0])
                if x.func.attr == "removeprefix":
                    return recv[len(a):] if recv.startswith(a) else recv
                return recv[:-len(a)] if a and recv.endswith(a) else recv
            try:
                r = getattr(recv, x.func.attr)(*[go(a) for a in x.args])
            except NotConstant:
                raise
            except Exception:
                raise NotConstant("str.%s fails" % x.func.attr)
            return list(r) if isinstance(r, tuple) else r
        if isinstance(x, ast.IfExp):
            return go(x.body) if go(x.test) else go(x.orelse)
        raise NotConstant(U(x)[:60])
    return go(e)


def worklist_walk(fn):
    """Recognise the iterative form of a graph walk:   work = [start] ; while work: cur = work.pop() ; ...
    Returns {'work', 'start', 'cur', 'loop', 'pushes': [(expr, guards)], 'skips': [guards of every continue]} or None.
    Guards are sets of (text, polarity) inside the loop body (canonical control form: 'if c: continue' has become 'if not c: rest')."""
    from .model import guard_texts, walk_body, call_attr
    from .util import find_calls
    for lp in [s_ for s_ in fn.body if isinstance(s_, ast.While)]:
        if not isinstance(lp.test, ast.Name) or lp.orelse:
            continue
        work = lp.test.id
        init = [a for a in fn.body if isinstance(a, ast.Assign) and len(a.targets) == 1 and U(a.targets[0]) == work]
        if len(init) != 1 or not lp.body:
            continue
        iv = init[0].value
        start = U(iv.elts[0]) if isinstance(iv, (ast.List, ast.Tuple)) and len(iv.elts) == 1 else U(iv.args[0]) if isinstance(iv, ast.Call) and U(iv.func) in ("list", "deque", "collections.deque") and len(iv.args) == 1 else None
        first = lp.body[0]
        if not (isinstance(first, ast.Assign) and isinstance(first.value, ast.Call) and call_attr(first.value) in ("pop", "popleft") and U(first.value.func.value) == work
                and len(first.value.args) <= 1 and isinstance(first.targets[0], ast.Name)):
            continue
        cur = first.targets[0].id
        pushes = []
        for x in find_calls(lp.body, attr=("extend", "append", "extendleft", "appendleft")):
            if U(x.func.value) == work and len(x.args) == 1:
                pushes.append((x.args[0], set(guard_texts(x, stop=lp)), x))
        skips = [set(guard_texts(x, stop=lp)) for x in walk_body(lp.body) if isinstance(x, (ast.Continue, ast.Break, ast.Return))]
        return {"work": work, "start": start, "cur": cur, "loop": lp, "pushes": pushes, "skips": skips}
    return None


MUTATORS = ("add", "append", "extend", "update", "insert", "pop", "remove", "discard", "clear", "setdefault", "popitem", "sort", "reverse", "appendleft", "extendleft")
MUTABLE_CTORS = ("set", "list", "dict", "OrderedDict", "defaultdict", "collections.defaultdict", "collections.OrderedDict", "deque", "collections.deque")


def class_level_mutables(cls):
    """Names bound in the class body to a mutable display / constructor call."""
    from .model import call_name
    out = {}
    for st in cls.body:
        if isinstance(st, ast.Assign) and len(st.targets) == 1 and isinstance(st.targets[0], ast.Name):
            v = st.value
            if isinstance(v, (ast.List, ast.Dict, ast.Set, ast.ListComp, ast.DictComp, ast.SetComp)) or (isinstance(v, ast.Call) and call_name(v) in MUTABLE_CTORS):
                out[st.targets[0].id] = st
    return out


def shared_default_mutations(cls, fn, names=None):
    """Statements of ``fn`` (a method of ``cls``) that modify, in place, a mutable object bound in the class body - reached as
    self.__class__.X / type(self).X / cls.X / <Class>.X, or through a local that is a plain alias of one of those (x = self.__class__.X; x += ...)."""
    shared = class_level_mutables(cls)
    if names is not None:
        shared = dict((k, v) for k, v in shared.items() if k in names)

    def is_shared(e, aliases):
        if isinstance(e, ast.Name):
            return e.id in aliases
        if isinstance(e, ast.Attribute) and U(e) in aliases:
            return True
        if isinstance(e, ast.Attribute) and e.attr in shared:
            b = U(e.value)
            return b in ("self.__class__", "type(self)", "cls", cls.name)
        return False
    aliases = set()
    for _ in range(2):
        for a in walk_body(fn.body):
            if isinstance(a, ast.Assign) and len(a.targets) == 1 and isinstance(a.targets[0], ast.Name) and is_shared(a.value, aliases):
                # the local must not be rebound to something private elsewhere
                others = [d for d in assigns_to(fn, a.targets[0].id) if d is not a and not isinstance(d, ast.AugAssign)]
                if not others:
                    aliases.add(a.targets[0].id)
            # self.X = <the shared object>: the instance attribute is the class-level object itself
            if isinstance(a, ast.Assign) and len(a.targets) == 1 and isinstance(a.targets[0], ast.Attribute) and U(a.targets[0].value) == "self" and is_shared(a.value, aliases):
                same = [d for d in walk_body(fn.body) if isinstance(d, ast.Assign) and d is not a and any(U(t) == U(a.targets[0]) for t in d.targets)]
                if not same:
                    aliases.add(U(a.targets[0]))
    bad = []
    for x in walk_body(fn.body):
        if isinstance(x, ast.AugAssign) and is_shared(x.target, aliases):
            bad.append(x)
        if isinstance(x, ast.Call) and isinstance(x.func, ast.Attribute) and x.func.attr in MUTATORS and is_shared(x.func.value, aliases):
            bad.append(x)
        if isinstance(x, ast.Subscript) and isinstance(x.ctx, (ast.Store, ast.Del)) and is_shared(x.value, aliases):
            bad.append(x)
    return bad


ONE_SHOT_CALLS = ("map", "filter", "zip", "iter", "reversed", "enumerate", "itertools.chain", "chain", "six.moves.map", "six.moves.filter", "six.moves.zip")


def module_level_one_shots(mod):
    """Module-level names bound to a one-shot iterator (map / filter / zip / generator expression on Python 3) and read inside a function: the first
    call drains them, every later call sees an empty sequence.  Returns [(defining statement, first use inside a function)]."""
    from .model import call_name, FUNC_TYPES as _FT
    out = []
    for st in mod.tree.body:
        if isinstance(st, ast.Assign) and len(st.targets) == 1 and isinstance(st.targets[0], ast.Name):
            v = st.value
            if isinstance(v, ast.GeneratorExp) or (isinstance(v, ast.Call) and call_name(v) in ONE_SHOT_CALLS):
                nm = st.targets[0].id
                uses = [x for f in ast.walk(mod.tree) if isinstance(f, _FT + (ast.Lambda,)) for x in ast.walk(f)
                        if isinstance(x, ast.Name) and x.id == nm and isinstance(x.ctx, ast.Load)]
                if uses:
                    out.append((st, uses[0]))
    return out


def check_no_module_level_one_shots(cx, mods, what):
    """Generic cross-reference rule (expected count zero; liveness by an embedded positive example that must match on every run)."""
    class _Lite(object):
        pass
    lite = _Lite()
    lite.tree = ast.parse("KEYS = filter(None, ['a'])\ndef f():\n    return [k for k in KEYS]\n")
    if len(module_level_one_shots(lite)) != 1:
        cx.error("the embedded positive example of the one-shot-iterator query no longer matches")
        return
    for m in mods:
        hits = module_level_one_shots(m)
        if hits:
            for st, use in hits:
                cx.bad(st, "%s: a module-level constant read by functions can be iterated again on every call (map / filter / zip objects and generator expressions are "
                           "empty after the first pass)" % what, construct=short_(st))
        else:
            cx.ok(m.tree.body[0] if m.tree.body else None, "%s: no module-level one-shot iterator is read inside a function of %s" % (what, m.name), construct=m.name)


def short_(n, k=90):
    from .model import short
    return short(n, k)
