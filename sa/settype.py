"""Set-type (hash-ordered) inference and classification of what an iteration over an
unordered expression feeds.

``Kinds(repo, mods)`` derives on every run:
  * attribute kinds from ``self.x = set(...)`` / ``defaultdict(set)`` in ``__init__`` bodies,
  * module-global kinds (``X = set()``, ``X = defaultdict(set)``),
  * function return kinds (all returns unordered => the call is unordered).
"""
import ast

from .model import FUNC_TYPES, U, call_attr, call_name, dotted, enclosing_function, parent, walk_body, walk_local, ancestors

SET_METHODS = ("union", "difference", "intersection", "symmetric_difference", "copy")
ORDER_FREE_REDUCERS = ("any", "all", "sum", "len", "max", "min", "sorted", "set", "frozenset", "dict", "Counter")
# note: ``dict(...)`` over a set yields an insertion order that follows the set; it is
# order-tainted, handled by the caller when the dict is later iterated into an ordered sink.


class Kinds(object):
    def __init__(self, repo, mods):
        self.repo = repo
        self.attr_set = set()        # attribute names holding a set
        self.attr_dict_of_set = set()
        self.glob_set = set()        # "mod:NAME"
        self.glob_dict_of_set = set()
        self.fn_set = set()          # simple function / method names returning a set
        for m in mods:
            for name, v in m.top.items():
                k = self._init_kind(v)
                if k == "set":
                    self.glob_set.add(name)
                elif k == "dict_of_set":
                    self.glob_dict_of_set.add(name)
            for q, c in m.classes():
                for st in c.body:
                    if isinstance(st, FUNC_TYPES) and st.name == "__init__":
                        for a in walk_body(st.body):
                            if isinstance(a, ast.Assign):
                                for t in a.targets:
                                    if isinstance(t, ast.Attribute) and isinstance(t.value, ast.Name) and t.value.id == "self":
                                        k = self._init_kind(a.value)
                                        if k == "set":
                                            self.attr_set.add(t.attr)
                                        elif k == "dict_of_set":
                                            self.attr_dict_of_set.add(t.attr)
        # attributes that are also assigned a list anywhere are ambiguous: drop (deps is list, dependencies is set)
        # function summaries: iterate to a fixed point
        fns = []
        for m in mods:
            for q, fn in m.functions():
                fns.append(fn)
        for _ in range(4):
            changed = False
            for fn in fns:
                if fn.name in self.fn_set:
                    continue
                rets = [r for r in walk_body(fn.body) if isinstance(r, ast.Return) and r.value is not None]
                if rets and all(self.unordered(r.value, fn) for r in rets):
                    self.fn_set.add(fn.name)
                    changed = True
            if not changed:
                break

    @staticmethod
    def _init_kind(v):
        if isinstance(v, (ast.Set, ast.SetComp)):
            return "set"
        if isinstance(v, ast.Call):
            n = call_name(v)
            if n in ("set", "frozenset"):
                return "set"
            if n in ("defaultdict", "collections.defaultdict") and v.args:
                a0 = v.args[0]
                if isinstance(a0, ast.Name) and a0.id in ("set", "frozenset"):
                    return "dict_of_set"
                if isinstance(a0, ast.Lambda) and isinstance(a0.body, ast.Call) and call_name(a0.body) == "defaultdict" and a0.body.args and U(a0.body.args[0]) == "set":
                    return "dict_of_dict_of_set"
        return None

    def unordered(self, e, fn=None, depth=0):
        """Is the iteration order of ``e`` hash-dependent?"""
        if depth > 6 or e is None:
            return False
        if isinstance(e, (ast.Set, ast.SetComp)):
            return True
        if isinstance(e, (ast.ListComp, ast.GeneratorExp)):
            return self.unordered(e.generators[0].iter, fn, depth + 1)
        if isinstance(e, ast.Call):
            n = call_name(e)
            if n in ("set", "frozenset"):
                return True
            if n in ("sorted", "list", "tuple", "reversed", "iter", "enumerate") and e.args:
                if n == "sorted":
                    # a key function need not be injective: ties keep the iteration order of the argument (sorted is stable)
                    if any(k.arg == "key" for k in e.keywords) and self.unordered(e.args[0], fn, depth + 1):
                        return True
                    return False
                return self.unordered(e.args[0], fn, depth + 1)
            a = call_attr(e)
            if isinstance(e.func, ast.Attribute):
                if a in SET_METHODS and self.unordered(e.func.value, fn, depth + 1):
                    return True
                if a in ("keys", "items", "values"):
                    return False   # dict views: insertion order
                if a == "get" and isinstance(e.func.value, (ast.Name, ast.Attribute)):
                    base = e.func.value
                    bn = base.id if isinstance(base, ast.Name) else base.attr
                    if bn in self.glob_dict_of_set or bn in self.attr_dict_of_set:
                        return True
                    if len(e.args) == 2 and self.unordered(e.args[1], fn, depth + 1):
                        return True
            if a in self.fn_set:
                return True
            return False
        if isinstance(e, ast.BinOp) and isinstance(e.op, (ast.Sub, ast.BitOr, ast.BitAnd, ast.BitXor)):
            return self.unordered(e.left, fn, depth + 1) or self.unordered(e.right, fn, depth + 1)
        if isinstance(e, ast.BoolOp):
            return any(self.unordered(v, fn, depth + 1) for v in e.values)
        if isinstance(e, ast.IfExp):
            return self.unordered(e.body, fn, depth + 1) or self.unordered(e.orelse, fn, depth + 1)
        if isinstance(e, ast.Attribute):
            if e.attr in self.attr_set:
                return True
            return False
        if isinstance(e, ast.Subscript):
            base = e.value
            bn = base.id if isinstance(base, ast.Name) else base.attr if isinstance(base, ast.Attribute) else None
            if bn in self.glob_dict_of_set or bn in self.attr_dict_of_set:
                return True
            return False
        if isinstance(e, ast.Name):
            if e.id in self.glob_set and (fn is None or e.id not in _locals(fn)):
                return True
            if fn is None:
                return False
            defs = _defs_of(fn, e.id)
            if not defs:
                return False
            kinds = []
            for d in defs:
                if d[0] == "assign":
                    kinds.append(self.unordered(d[1], fn, depth + 1))
                elif d[0] == "aug":
                    kinds.append(None)    # keeps kind
                elif d[0] == "loopvar":
                    # element of a dict-of-set's items(): (k, v) -> v is a set
                    kinds.append(d[1])
                else:
                    kinds.append(False)
            real = [k for k in kinds if k is not None]
            return bool(real) and all(real)
        return False


def _locals(fn):
    from .model import local_names
    return local_names(fn)


def _defs_of(fn, name):
    out = []
    for n in walk_body(fn.body):
        if isinstance(n, ast.Assign):
            for t in n.targets:
                if isinstance(t, ast.Name) and t.id == name:
                    out.append(("assign", n.value))
                elif isinstance(t, (ast.Tuple, ast.List)) and any(isinstance(x, ast.Name) and x.id == name for x in t.elts):
                    out.append(("other", None))
        elif isinstance(n, ast.AugAssign) and isinstance(n.target, ast.Name) and n.target.id == name:
            out.append(("aug", n.value))
        elif isinstance(n, (ast.For, ast.comprehension)):
            tg = n.target
            if isinstance(tg, ast.Name) and tg.id == name:
                out.append(("loopvar", False))
            elif isinstance(tg, ast.Tuple) and any(isinstance(x, ast.Name) and x.id == name for x in tg.elts):
                # for k, v in <dict of set>.items(): v is a set
                it = n.iter
                is_dos = False
                if isinstance(it, ast.Call) and call_attr(it) == "items" and len(tg.elts) == 2 and isinstance(tg.elts[1], ast.Name) and tg.elts[1].id == name:
                    base = it.func.value
                    bn = base.id if isinstance(base, ast.Name) else base.attr if isinstance(base, ast.Attribute) else None
                    is_dos = bn in ("observers", "TYPE_OBSERVERS", "DEPENDENTS", "DEPENDENCIES")
                out.append(("loopvar", is_dos))
    a = fn.args
    for x in a.posonlyargs + a.args + a.kwonlyargs:
        if x.arg == name:
            out.append(("param", None))
    return out


# --------------------------------------------------------------------------
# sink classification
# --------------------------------------------------------------------------

ORDERED_METHODS = ("append", "extend", "insert", "write", "writelines", "put", "send")
COMMUTATIVE_METHODS = ("add", "update", "discard", "remove", "setdefault", "debug", "info", "warning", "error")


class Iteration(object):
    def __init__(self, node, iterable, body, kind):
        self.node = node          # For / comprehension host
        self.iterable = iterable
        self.body = body          # list of nodes forming the body (stmts or [elt])
        self.kind = kind          # 'for' | 'listcomp' | 'genexp' | 'setcomp' | 'dictcomp'


def iterations(fn_or_node):
    """All loops/comprehensions inside the function (not nested defs)."""
    out = []
    root = fn_or_node
    it = walk_body(root.body) if isinstance(root, FUNC_TYPES) else walk_local(root)
    for n in it:
        if isinstance(n, (ast.For, ast.AsyncFor)):
            out.append(Iteration(n, n.iter, n.body, "for"))
        elif isinstance(n, (ast.ListComp, ast.GeneratorExp, ast.SetComp, ast.DictComp)):
            kind = {ast.ListComp: "listcomp", ast.GeneratorExp: "genexp", ast.SetComp: "setcomp", ast.DictComp: "dictcomp"}[type(n)]
            for g in n.generators:
                body = [n.elt] if hasattr(n, "elt") else [n.key, n.value]
                out.append(Iteration(n, g.iter, body, kind))
    return out


def loop_var_names(it):
    tg = it.node.target if it.kind == "for" else None
    names = set()
    if tg is None:
        for g in it.node.generators:
            if g.iter is it.iterable:
                tg = g.target
    for x in ast.walk(tg):
        if isinstance(x, ast.Name):
            names.add(x.id)
    return names


def classify_sinks(it, commutative_calls=()):
    """Return list of (node, 'ordered'|'commutative'|'first-match', text)."""
    sinks = []
    lv = loop_var_names(it)
    if it.kind == "for":
        for n in walk_body(it.body):
            if isinstance(n, (ast.Return, ast.Break)):
                sinks.append((n, "first-match", "early %s inside the loop" % type(n).__name__.lower()))
            elif isinstance(n, (ast.Yield, ast.YieldFrom)):
                sinks.append((n, "ordered", "yield"))
            elif isinstance(n, ast.Call) and isinstance(n.func, ast.Attribute):
                a = n.func.attr
                recv = n.func.value
                if a in ORDERED_METHODS:
                    # container[loop_var].append(x): per-key effect, commutative
                    if isinstance(recv, ast.Subscript) and any(isinstance(x, ast.Name) and x.id in lv for x in ast.walk(recv.slice)):
                        sinks.append((n, "commutative", "per-key %s" % a))
                    else:
                        sinks.append((n, "ordered", "%s.%s(...)" % (U(recv), a)))
                elif a in COMMUTATIVE_METHODS or a in commutative_calls:
                    sinks.append((n, "commutative", "%s.%s" % (U(recv), a)))
            elif isinstance(n, ast.Call) and isinstance(n.func, ast.Name) and n.func.id in commutative_calls:
                sinks.append((n, "commutative", n.func.id))
            elif isinstance(n, ast.AugAssign) and isinstance(n.op, ast.Add) and not isinstance(n.target, ast.Subscript):
                sinks.append((n, "ordered", "+= accumulation into %s" % U(n.target)))
    else:
        host = it.node
        par = parent(host)
        if it.kind in ("setcomp",):
            sinks.append((host, "commutative", "set comprehension"))
        elif it.kind == "dictcomp":
            sinks.append((host, "commutative", "dict keyed by element (order-tainted only)"))
        else:
            # list comprehension / generator: look at the consumer
            cons = par
            # a generator that is only the iterable of one for loop (directly, or through a local bound once and read once) is that loop
            loop = None
            if it.kind == "genexp" and isinstance(cons, ast.For) and cons.iter is host:
                loop = cons
            elif it.kind == "genexp" and isinstance(cons, ast.Assign) and cons.value is host and len(cons.targets) == 1 and isinstance(cons.targets[0], ast.Name):
                fn_ = enclosing_function(host)
                nm_ = cons.targets[0].id
                if fn_ is not None:
                    loads = [x for x in ast.walk(fn_) if isinstance(x, ast.Name) and x.id == nm_ and isinstance(x.ctx, ast.Load)]
                    stores = [x for x in ast.walk(fn_) if isinstance(x, ast.Name) and x.id == nm_ and isinstance(x.ctx, ast.Store)]
                    if len(loads) == 1 and len(stores) == 1 and isinstance(parent(loads[0]), ast.For) and parent(loads[0]).iter is loads[0]:
                        loop = parent(loads[0])
            if loop is not None and not getattr(it, "_via_loop", False):
                sub = Iteration(loop, loop.iter, loop.body, "for")
                sub._via_loop = True
                return classify_sinks(sub, commutative_calls)
            if isinstance(cons, ast.Call) and (call_name(cons) in ORDER_FREE_REDUCERS or call_attr(cons) in ("update", "intersection", "union", "difference", "issubset", "isdisjoint")):
                sinks.append((host, "commutative", "consumed by %s" % (call_name(cons) or call_attr(cons))))
            elif isinstance(cons, ast.Call) and call_attr(cons) == "join":
                sinks.append((host, "ordered", "str.join of the generator"))
            elif isinstance(cons, ast.BinOp) and isinstance(cons.op, ast.BitOr) or isinstance(cons, ast.AugAssign) and isinstance(cons.op, (ast.BitOr, ast.BitAnd, ast.Sub)):
                sinks.append((host, "commutative", "set algebra"))
            elif it.kind == "listcomp" and isinstance(cons, ast.Call) and cons.args and cons.args[0] is host and call_attr(cons) in ("extend",):
                # X.extend([... for x in S]) is the loop 'for x in S: X.append(...)': name the sink after its receiver, as for the loop
                sinks.append((host, "ordered", "list consumed by %s" % U(cons.func)))
            elif it.kind == "listcomp":
                sinks.append((host, "ordered", "list built from the iteration"))
            else:
                sinks.append((host, "ordered", "generator consumed by %s" % (U(cons.func) if isinstance(cons, ast.Call) else type(cons).__name__)))
    return sinks
