"""Alpha-normalisation of local variable names against the names used on the pinned tree.

Renaming a local variable never changes behaviour, but many rules compare the normalised text of a
construct (which contains local names) with the form confirmed on the pinned tree.  To keep such a
rename from being reported, every function of the analysed tree is compared with a *name table*
recorded from the pinned tree (`pinned/locals.json`: per function, its parameters and its locals with
the masked text of their first binding).  Locals whose first binding has the same masked shape are
renamed, in the analyser's view only, to the pinned name.  Any injective renaming of locals is
semantics preserving, so a wrong or missing match can only fail to help - it cannot hide a defect.
"""
import ast
import json
import os

from .model import FUNC_TYPES

HERE = os.path.dirname(os.path.dirname(os.path.abspath(__file__)))
TABLE = os.path.join(HERE, "pinned", "locals.json")
_table = None


def table():
    global _table
    if _table is None:
        try:
            with open(TABLE) as fh:
                _table = json.load(fh)
        except (OSError, ValueError):
            _table = {}
    return _table


def _own_nodes(fn):
    """Nodes of the function body, not descending into nested defs/classes (lambdas and comprehensions included)."""
    stack = list(reversed(fn.body))
    while stack:
        n = stack.pop()
        yield n
        if isinstance(n, FUNC_TYPES + (ast.ClassDef,)):
            continue        # a nested def/class binds its name here, its body is another scope
        for ch in reversed(list(ast.iter_child_nodes(n))):
            stack.append(ch)


def _params(fn):
    a = fn.args
    out = [x.arg for x in a.posonlyargs + a.args]
    if a.vararg:
        out.append(a.vararg.arg)
    out += [x.arg for x in a.kwonlyargs]
    if a.kwarg:
        out.append(a.kwarg.arg)
    return out


def _masked(node, names):
    """Text of ``node`` with every local name replaced by _L (done in place and restored; no copies)."""
    touched = []
    for n in ast.walk(node):
        if isinstance(n, ast.Name) and n.id in names:
            touched.append((n, n.id))
            n.id = "_L"
    try:
        return ast.unparse(node)[:160]
    except Exception:
        return "?"
    finally:
        for n, old in touched:
            n.id = old


def local_bindings(fn):
    """[(name, masked text of the first binding construct)] in source order, parameters excluded."""
    params = set(_params(fn))
    globs = set()
    for n in _own_nodes(fn):
        if isinstance(n, (ast.Global, ast.Nonlocal)):
            globs.update(n.names)
    found = {}
    order = []
    nodes = sorted([n for n in _own_nodes(fn) if hasattr(n, "lineno")], key=lambda n: (n.lineno, n.col_offset))
    locs = set()
    for n in nodes:
        if isinstance(n, ast.Name) and isinstance(n.ctx, ast.Store) and n.id not in params and n.id not in globs:
            locs.add(n.id)
        elif isinstance(n, ast.ExceptHandler) and n.name:
            locs.add(n.name)
    for st in fn.body:
        pass
    for n in nodes:
        name = None
        if isinstance(n, ast.Name) and isinstance(n.ctx, ast.Store) and n.id in locs:
            name = n.id
        elif isinstance(n, ast.ExceptHandler) and n.name in locs:
            name = n.name
        if name is None or name in found:
            continue
        # the binding construct: nearest enclosing statement / comprehension / handler
        host = n
        from .model import parent
        while host is not None and not isinstance(host, (ast.stmt, ast.comprehension, ast.ExceptHandler)):
            host = parent(host)
        if isinstance(host, (ast.For, ast.AsyncFor)):
            sig = "for " + _masked(host.target, locs | params) + " in " + _masked(host.iter, locs | params)
        elif isinstance(host, ast.comprehension):
            sig = "comp " + _masked(host.target, locs | params) + " in " + _masked(host.iter, locs | params)
        elif isinstance(host, ast.ExceptHandler):
            sig = "except " + (_masked(host.type, locs | params) if host.type is not None else "")
        elif isinstance(host, (ast.With, ast.AsyncWith)):
            sig = "with " + ", ".join(_masked(i.context_expr, locs | params) for i in host.items)
        elif host is not None:
            sig = _masked(host, locs | params)
        else:
            sig = "?"
        found[name] = sig
        order.append((name, sig))
    return order


def record(mod):
    """Name table of one parsed module (used by tools/pin_locals.py)."""
    out = {}
    for q, lst in mod.defs.items():
        fn = lst[-1]
        if isinstance(fn, FUNC_TYPES):
            out[q] = {"params": _params(fn), "locals": local_bindings(fn)}
    return out


class _Rename(ast.NodeVisitor):
    def __init__(self, mapping):
        self.mapping = mapping

    def run(self, fn):
        for n in _own_nodes(fn):
            if isinstance(n, ast.Name) and n.id in self.mapping:
                n.id = self.mapping[n.id]
            elif isinstance(n, ast.ExceptHandler) and n.name in self.mapping:
                n.name = self.mapping[n.name]
        # nested functions see the enclosing locals as free variables
        for n in ast.walk(fn):
            if n is not fn and isinstance(n, FUNC_TYPES):
                inner_bound = set(_params(n)) | set(x for x, _ in local_bindings(n))
                sub = dict((k, v) for k, v in self.mapping.items() if k not in inner_bound)
                if sub:
                    _Rename(sub).run_free(n)

    def run_free(self, fn):
        for n in _own_nodes(fn):
            if isinstance(n, ast.Name) and n.id in self.mapping:
                n.id = self.mapping[n.id]


def normalise(mod):
    """Rename locals of every function of ``mod`` to the names recorded for the pinned tree. Returns #renames."""
    tbl = table().get(mod.name)
    if not tbl:
        return 0
    count = 0
    for q, lst in mod.defs.items():
        fn = lst[-1]
        if not isinstance(fn, FUNC_TYPES) or q not in tbl or q == "__digest__":
            continue
        pin = tbl[q]
        cur = local_bindings(fn)
        if [n for n, _ in cur] == [n for n, _ in pin["locals"]]:
            continue
        cur_names = set(n for n, _ in cur) | set(_params(fn))
        pin_by_sig = {}
        for n, sig in pin["locals"]:
            pin_by_sig.setdefault(sig, []).append(n)
        cur_by_sig = {}
        for n, sig in cur:
            cur_by_sig.setdefault(sig, []).append(n)
        mapping = {}
        for sig, cnames in cur_by_sig.items():
            pnames = pin_by_sig.get(sig, [])
            if len(cnames) != len(pnames):
                continue
            for c, p in zip(cnames, pnames):
                if c != p:
                    mapping[c] = p
        # drop renames that would collide with a name still in use
        targets = set(mapping.values())
        keep = {}
        for c, p in mapping.items():
            if p in cur_names and p not in mapping:
                continue        # pinned name is used for something else in the current function
            keep[c] = p
        if len(set(keep.values())) != len(keep):
            continue
        if keep:
            _Rename(keep).run(fn)
            count += len(keep)
    return count
