"""Driver: ./check <ID> [--tier quick|thorough] [--root DIR] [--replay PATH] [--no-evidence]"""
import argparse
import importlib
import json
import os
import sys
import traceback

HERE = os.path.dirname(os.path.abspath(__file__))
sys.path.insert(0, os.path.dirname(HERE))

from sa.model import Repo, AnalysisError  # noqa: E402
from sa.report import Check  # noqa: E402

ALL = ["C%02d" % i for i in range(1, 21)]


def run_property(pid, tier, root, seed=0, quiet=False, evidence=True, evidence_path=None, selftest=True):
    repo = Repo(root)
    cx = Check(pid, tier, repo, seed=seed, quiet=quiet)
    try:
        if not os.path.isdir(os.path.join(root, "insights")):
            raise AnalysisError("engine", "no insights/ package under %s" % root)
        mod = importlib.import_module("sa.rules.%s" % pid.lower())
        mod.run(cx)
        if tier == "thorough" and selftest and os.environ.get("VERIF_NO_SELFTEST") != "1":
            from sa import selftest as st
            st.run_for_property(cx)
    except AnalysisError as e:
        cx.error(e.reason, e.rule)
    except Exception as e:
        tb = traceback.format_exc().strip().splitlines()
        cx.error("internal error: %r (%s)" % (e, " | ".join(tb[-4:])), "engine")
    code = cx.finish(evidence_path=evidence_path, write_evidence=evidence)
    return code, cx


def main(argv=None):
    ap = argparse.ArgumentParser()
    ap.add_argument("pid")
    ap.add_argument("--tier", default=os.environ.get("VERIF_TIER", "quick"), choices=["quick", "thorough"])
    ap.add_argument("--root", default=os.environ.get("VERIF_ROOT", "/repo"))
    ap.add_argument("--replay")
    ap.add_argument("--no-evidence", action="store_true")
    ap.add_argument("--evidence-path")
    ap.add_argument("--quiet", action="store_true")
    a = ap.parse_args(argv)
    try:
        seed = int(os.environ.get("VERIF_SEED", "0") or 0)
    except ValueError:
        seed = 0
    pid = a.pid.upper()
    if a.replay:
        with open(a.replay) as fh:
            rp = json.load(fh)
        pid = rp["property"]
        code, cx = run_property(pid, rp.get("tier", "quick"), a.root, seed, quiet=True, evidence=False, selftest=False)
        want = rp["finding"]["key"]
        hit = [v for v in cx.violations if v.key == want]
        if hit:
            v = hit[0]
            print("REPRODUCED property=%s rule=%s at %s in %s\n    construct: %s\n    broken: %s" % (pid, v.rule, v.loc, v.func, v.construct, v.msg))
            print("VIOLATION property=%s replay=%s" % (pid, a.replay))
            return 1
        print("NOT-REPRODUCED property=%s key=%s (the construct no longer violates the rule on %s)" % (pid, want, a.root))
        return 0
    if pid not in ALL:
        print("ANALYSIS-ERROR property=%s rule=engine reason=unknown property id" % pid)
        return 2
    code, _ = run_property(pid, a.tier, a.root, seed, quiet=a.quiet, evidence=not a.no_evidence, evidence_path=a.evidence_path)
    return code


if __name__ == "__main__":
    try:
        rc = main()
    except SystemExit:
        raise
    except BaseException as e:  # never let a traceback look like a violation
        print("ANALYSIS-ERROR property=? rule=engine reason=%r" % (e,))
        traceback.print_exc()
        rc = 2
    sys.stdout.flush()
    sys.exit(rc)
