"""C04 - evaluation results do not depend on scheduling (necessary structural conditions)."""
import ast

from ..model import (AnalysisError, FUNC_TYPES, U, call_attr, call_name, dotted, enclosing, enclosing_function, guard_texts,
                     short, walk_body, walk_local, ancestors, parent)
from ..util import params, find_calls, assigns_to, trace, stmt_of, has_exit, syn_dominates
from ..settype import Kinds, iterations, classify_sinks
from .c01 import _is_component_type

DR = "insights.core.dr"
PL = "insights.core.plugins"
SF = "insights.core.spec_factory"

FACTORIES = ["simple_file", "glob_file", "first_file", "listdir", "listglob", "simple_command", "command_with_args",
             "foreach_execute", "foreach_collect", "container_execute", "container_collect", "head", "first_of"]


def broker_reads(fn, b):
    """(key expr, node) for every component-keyed read of the broker parameter ``b``."""
    out = []
    for x in walk_body(fn.body):
        key = None
        if isinstance(x, ast.Subscript) and isinstance(x.value, ast.Name) and x.value.id == b and isinstance(x.ctx, ast.Load):
            key = x.slice
        elif isinstance(x, ast.Call) and isinstance(x.func, ast.Attribute) and isinstance(x.func.value, ast.Name) and x.func.value.id == b and x.func.attr == "get" and x.args:
            key = x.args[0]
        elif isinstance(x, ast.Compare) and len(x.ops) == 1 and isinstance(x.ops[0], (ast.In, ast.NotIn)) and isinstance(x.comparators[0], ast.Name) and x.comparators[0].id == b:
            key = x.left
        elif isinstance(x, ast.Call) and call_name(x) in ("_get_context", "dr.first_of", "first_of") and len(x.args) == 2 and isinstance(x.args[1], ast.Name) and x.args[1].id == b:
            key = x.args[0]
        if key is not None:
            out.append((key, x))
    return out


def declared_ids(repo, deco):
    """Resolved ids of everything a ``@datasource(...)`` registration declares."""
    declared = set()

    def add(e):
        if isinstance(e, (ast.List, ast.Tuple)):
            for x in e.elts:
                add(x)
        elif isinstance(e, ast.Starred):
            add(e.value)
        else:
            declared.add(repo.resolved_id(e))
            r = repo.resolve(e)
            if r[0] == "const" and isinstance(r[3], (ast.List, ast.Tuple)):
                for x in r[3].elts:
                    declared.add(repo.resolved_id(x))
    for a in deco.args:
        add(a)
    for k in deco.keywords:
        if k.arg in ("optional", "requires", "context"):
            add(k.value)
    return declared


def r1_declared_used(cx, mods):
    cx.rule("C04.R1", "shipped datasources and factories read the broker only at declared dependencies", floor=90 if cx.tier == "thorough" else 20)
    repo = cx.repo
    n_ds = 0
    for m in mods:
        for q, fn in m.functions():
            decos = [d for d in fn.decorator_list if isinstance(d, ast.Call) and (call_attr(d) == "datasource" or call_name(d) == "datasource"
                                                                                 or str(repo.resolved_id(d.func)).endswith("insights.core.plugins:datasource"))]
            if not decos:
                continue
            n_ds += 1
            declared = declared_ids(repo, decos[0])
            ps = params(fn)
            if not ps:
                continue
            b = ps[0]
            reads = broker_reads(fn, b)
            if not reads:
                cx.ok(fn, "datasource reads no component-keyed broker entry", construct="@%s def %s" % (short(decos[0], 80), q))
            for key, node in reads:
                if isinstance(key, ast.Constant):
                    continue   # string keys ('cleaner', 'client_config', ...) are pre-seeded values
                rid = repo.resolved_id(key)
                ok = rid in declared
                if not ok and isinstance(key, ast.Name):
                    # loop variable over a declared list
                    for a in ancestors(key):
                        if isinstance(a, ast.For) and isinstance(a.target, ast.Name) and a.target.id == key.id:
                            ok = repo.resolved_id(a.iter) in declared
                            break
                        if isinstance(a, FUNC_TYPES):
                            break
                cx.require(ok, node, "broker read at '%s' (%s) is a declared dependency of @%s" % (U(key), rid, short(decos[0], 100)),
                           construct="%s in %s" % (short(node), q))
    cx.extra["datasource_functions"] = n_ds
    # factories
    sf = repo.module(SF)
    for name in FACTORIES:
        if not sf.has(name):
            cx.error("factory class %s vanished from spec_factory" % name)
            continue
        c = sf.cls(name)
        cc, call = repo.lookup_method(c, "__call__")
        ic, init = repo.lookup_method(c, "__init__")
        if call is None or init is None:
            cx.unknown(c, "factory without __call__/__init__")
            continue
        regs = []
        for kc in repo.mro(c):
            init = [st for st in kc.body if isinstance(st, FUNC_TYPES) and st.name == "__init__"]
            if not init:
                continue
            init = init[0]
            regs = [x for x in find_calls(init.body) if isinstance(x.func, ast.Call) and call_attr(x.func) == "datasource" and x.args and U(x.args[0]) == "self"]
            if regs or not any(U(x.func).startswith("super(") for x in find_calls(init.body, attr="__init__")):
                break
        if len(regs) != 1:
            cx.unknown(init, "cannot find the datasource(...)(self) registration")
            continue
        reg = regs[0].func
        # normalise: parameter p stored as self.p
        alias = {}
        for a in walk_body(init.body):
            if isinstance(a, ast.Assign) and len(a.targets) == 1 and isinstance(a.targets[0], ast.Attribute) and U(a.targets[0].value) == "self":
                v = a.value
                if isinstance(v, ast.BoolOp):
                    v = v.values[0]
                if isinstance(v, ast.Name):
                    alias[v.id] = "self." + a.targets[0].attr
        decl = set()
        for a in reg.args:
            t = U(a.value) if isinstance(a, ast.Starred) else U(a)
            decl.add(alias.get(t, t))
        b = params(call)[1]
        for key, node in broker_reads(call, b):
            if isinstance(key, ast.Constant):
                continue
            t = U(key)
            ok = t in decl
            if not ok and isinstance(key, ast.Name):
                for a in ancestors(key):
                    if isinstance(a, ast.For) and isinstance(a.target, ast.Name) and a.target.id == key.id:
                        ok = U(a.iter) in decl
                        break
            cx.require(ok, node, "factory %s reads the broker at '%s', which it passes to its datasource(...) registration (%s)" % (name, t, sorted(decl)),
                       construct="%s in %s.__call__" % (short(node), name))


ENGINE_FUNCS = [(DR, "ComponentType.invoke"), (DR, "ComponentType.get_missing_dependencies"), (DR, "ComponentType.process"),
                (PL, "PluginType.invoke"), (PL, "datasource.invoke"), (PL, "parser.invoke"), (PL, "rule.process")]


def r2_engine_reads(cx):
    cx.rule("C04.R2", "the engine reads the broker only at declared dependencies", floor=12)
    for mn, q in ENGINE_FUNCS:
        m = cx.repo.module(mn)
        fn = m.func(q, "C04.R2")
        b = params(fn)[1]
        for n in walk_body(fn.body):
            if not (isinstance(n, ast.Name) and n.id == b and isinstance(n.ctx, ast.Load)):
                continue
            p = parent(n)
            ok, why = False, ""
            # passing the broker along
            if isinstance(p, ast.Call) and n in p.args:
                cn = U(p.func)
                if cn in ("self.invoke", "self.get_missing_dependencies", "self.component") or cn.startswith("super(") and cn.endswith(".invoke"):
                    ok, why = True, "broker passed on to %s" % cn
                elif isinstance(p.func, ast.Attribute) and p.func.attr in ("intersection", "isdisjoint") and "set(" in U(p.func.value):
                    g = _loop_iter_of(p.func.value, fn)
                    ok, why = g == "self.at_least_one", "group test over self.at_least_one"
            elif isinstance(p, ast.Attribute) and p.value is n:
                if p.attr in ("add_exception", "store_skips"):
                    ok, why = True, "bookkeeping (%s)" % p.attr
                elif p.attr == "get":
                    call = parent(p)
                    if isinstance(call, ast.Call) and call.args:
                        it = _loop_iter_of(call.args[0], fn)
                        ok, why = it == "self.deps", "results.get(d) for d in self.deps"
            elif isinstance(p, ast.Subscript) and p.value is n:
                ok, why = U(p.slice) == "self.requires[0]", "value of the first required dependency"
            elif isinstance(p, ast.Compare) and p.comparators and p.comparators[0] is n:
                l = p.left
                it = _loop_iter_of(l, fn)
                if it is not None and it.isidentifier():
                    # member of a group that is itself an element of a declared list: for group in self.at_least_one ... d in group
                    outer_it = _loop_iter_of(ast.Name(id=it, ctx=ast.Load()), fn, at=l)
                    if outer_it == "self.at_least_one":
                        it = "self.deps"
                if it in ("self.requires", "self.deps"):
                    ok, why = True, "membership test of a declared dependency"
                elif it is not None and "IGNORE" in it:
                    ok, why = True, "ignore check over IGNORE[self.component]"
                elif U(l) == "HostContext" and q == "datasource.invoke":
                    ok, why = True, "timeout switch (listed exemption: HostContext presence only arms the alarm)"
            cx.require(ok, p, ("%s: %s" % (q, why)) if ok else "%s reads the broker only at self.deps/requires/at_least_one/IGNORE keys" % q,
                       construct=short(stmt_of(n) if not isinstance(p, ast.Compare) else p))


def _loop_iter_of(e, fn, at=None):
    """Text of the iterable whose loop/comprehension variable ``e`` is (searching the loops enclosing ``e``, or ``at`` for a synthetic name)."""
    names = [x.id for x in ast.walk(e) if isinstance(x, ast.Name)]
    for a in ancestors(at if at is not None else e):
        gens = []
        if isinstance(a, (ast.ListComp, ast.GeneratorExp, ast.SetComp, ast.DictComp)):
            gens = [(g.target, g.iter) for g in a.generators]
        elif isinstance(a, ast.For):
            gens = [(a.target, a.iter)]
        for tg, it in gens:
            tn = [x.id for x in ast.walk(tg) if isinstance(x, ast.Name)]
            if any(n in tn for n in names):
                return U(it)
        if isinstance(a, FUNC_TYPES):
            break
    return None


def r3_ordered_picks(cx, kinds):
    cx.rule("C04.R3", "first-match selections iterate ordered lists", floor=4)
    sf = cx.repo.module(SF)
    dr = cx.repo.module(DR)
    targets = [(sf, "RegistryPoint.__call__"), (sf, "first_of.__call__"), (dr, "first_of")]
    for m, q in targets:
        fn = m.func(q, "C04.R3")
        loops = [s for s in walk_body(fn.body) if isinstance(s, ast.For) and has_exit(s.body, (ast.Return, ast.Break))]
        if not loops:
            # next(<generator over the implementations>, default) is the same first match
            class _L(object):
                pass
            for x in [c for c in find_calls(fn.body, name="next") if c.args and isinstance(c.args[0], ast.GeneratorExp) and len(c.args[0].generators) == 1]:
                l_ = _L()
                l_.iter, l_.target, l_.lineno, l_.col_offset = x.args[0].generators[0].iter, x.args[0].generators[0].target, x.lineno, x.col_offset
                l_._node = x
                loops.append(l_)
        if not loops:
            cx.unknown(fn, "no first-match loop found in %s" % q)
            continue
        for lp in loops:
            it = trace(lp.iter, fn) if isinstance(lp.iter, ast.Name) else lp.iter
            lp = getattr(lp, "_node", lp)
            base = it
            if isinstance(it, ast.Call) and call_name(it) in ("reversed", "list", "iter"):
                base = it.args[0]
            if isinstance(base, ast.Name):
                base = trace(base, fn)
            if isinstance(base, ast.Subscript) and isinstance(base.slice, ast.Slice):
                base = base.value
            if kinds.unordered(base, fn):
                cx.bad(lp, "first-match loop iterates an ordered list (the iterable is a set: the pick depends on hash order)", construct="first match over %s" % U(it))
                continue
            bt = U(base)
            ok = bt.endswith(".deps") or bt in ("self.deps",) or (q == "first_of" and bt == params(fn)[0])
            if ok:
                cx.ok(lp, "first-match loop iterates the ordered deps list", construct="first match over %s" % U(it))
            elif bt.endswith(".dependencies") or "get_dependencies" in bt:
                cx.bad(lp, "first-match loop iterates an ordered list (dependencies is a set)", construct="first match over %s" % U(it))
            else:
                cx.unknown(lp, "iterable of a first-match loop is neither the deps list nor a known set")
    # call sites of dr.first_of pass lists
    for x in find_calls(sf.tree.body and sf.func("_get_context").body, attr="first_of"):
        g = guard_texts(x)
        cx.require(("isinstance(%s, list)" % U(x.args[0]), True) in g, x, "dr.first_of is handed a list (guarded by isinstance(..., list))")


def r4_subgraphs(cx):
    cx.rule("C04.R4", "connected-component decomposition neither loses nor duplicates components (shape)", floor=8)
    m = cx.repo.module(DR)
    fn = m.func("get_subgraphs", "C04.R4")
    whiles = [s for s in walk_body(fn.body) if isinstance(s, ast.While)]
    if len(whiles) < 2:
        cx.unknown(fn, "expected an outer 'while keys' and an inner 'while frontier' loop")
        return
    outer = [w for w in whiles if enclosing(w, ast.While) is None][0]
    inner = [w for w in whiles if enclosing(w, ast.While) is outer]
    if not inner:
        cx.unknown(fn, "no inner frontier loop")
        return
    inner = inner[0]
    keys = U(outer.test)
    frontier = U(inner.test)
    graph = params(fn)[0]
    # seed: frontier.add(keys.pop(0))
    seeds = [c for c in find_calls(outer.body, attr="add") if U(c.func.value) == frontier and enclosing(c, ast.While) is outer]
    cx.require(len(seeds) == 1 and U(seeds[0].args[0]).startswith("%s.pop(" % keys), outer, "each sub-graph is seeded with one still unprocessed key",
               construct=short(seeds[0]) if seeds else "(no seed)")
    pops = [a for a in walk_body(inner.body) if isinstance(a, ast.Assign) and U(a.value) == "%s.pop()" % frontier]
    if not pops:
        cx.unknown(inner, "no 'component = frontier.pop()'")
        return
    comp = U(pops[0].targets[0])
    seen_add = [c for c in find_calls(inner.body, attr="add") if c.args and U(c.args[0]) == comp]
    if not seen_add:
        cx.bad(inner, "every popped component is added to 'seen'", construct="(no seen.add(component))")
        return
    seen = U(seen_add[0].func.value)
    cx.require(not guard_texts(seen_add[0], stop=inner), seen_add[0], "every popped component is added to the sub-graph, unconditionally")
    augs = [a for a in walk_body(inner.body) if isinstance(a, ast.AugAssign) and U(a.target) == frontier]
    # frontier.update(X) is frontier |= set(X)
    for st_ in [x for x in walk_body(inner.body) if isinstance(x, ast.Expr) and isinstance(x.value, ast.Call) and call_attr(x.value) == "update" and U(x.value.func.value) == frontier and len(x.value.args) == 1]:
        pseudo = ast.AugAssign(target=st_.value.func.value, op=ast.BitOr(), value=st_.value.args[0])
        ast.copy_location(pseudo, st_)
        pseudo._parent = getattr(st_, "_parent", None)
        for fld in ("_mod",):
            if hasattr(st_, fld):
                setattr(pseudo, fld, getattr(st_, fld))
        pseudo._as_update = st_
        augs.append(pseudo)
    augs.sort(key=lambda a: (a.lineno, a.col_offset))

    def _g(a):
        return guard_texts(getattr(a, "_as_update", a), stop=inner)
    for role in ("get_dependencies", "get_dependents"):
        hit = [a for a in augs if isinstance(a.op, ast.BitOr) and ("%s(%s)" % (role, comp)) in U(a.value)]
        ok = bool(hit) and ("in %s" % graph) in U(hit[0].value) and not _g(hit[0])
        cx.require(ok, hit[0] if hit else inner, "the frontier is extended with every %s of the component that belongs to the graph" % role.replace("get_", ""),
                   construct=short(hit[0]) if hit else "(no frontier |= ... %s(%s))" % (role, comp))
    sub = [a for a in augs if isinstance(a.op, ast.Sub) and U(a.value) == seen]
    cx.require(bool(sub) and all(syn_dominates(getattr(a, "_as_update", a), sub[0]) for a in augs if a is not sub[0]), sub[0] if sub else inner,
               "already seen components are removed from the frontier after it was extended (termination, no duplication)",
               construct=short(sub[0]) if sub else "(no frontier -= seen)")
    ys = [y for y in walk_body(outer.body) if isinstance(y, ast.Yield)]
    ok = len(ys) == 1 and enclosing(ys[0], ast.While) is outer and ("for s in %s" % seen) in U(ys[0].value).replace("for %s in" % "s", "for s in") or (len(ys) == 1 and (" in %s" % seen) in U(ys[0].value))
    cx.require(ok and syn_dominates(inner, ys[0]), ys[0] if ys else outer, "exactly one sub-graph is yielded per outer iteration, built from all of 'seen', after the frontier is exhausted",
               construct=short(ys[0]) if ys else "(no yield)")
    rem = [c for c in find_calls(outer.body, attr="remove") if U(c.func.value) == keys]
    ok = False
    removal = None       # the statement after which no member of 'seen' is pending any more
    if rem:
        lp = enclosing(rem[0], ast.For)
        ok = lp is not None and U(lp.iter) == seen and U(rem[0].args[0]) == U(lp.target) and (not ys or syn_dominates(stmt_of(ys[0]), lp))
        removal = lp
    else:
        # filter form: keys = [k for k in keys if k not in seen]   (also keys[:] = ..., or a difference on an ordered rebuild)
        for a in [x for x in outer.body if isinstance(x, ast.Assign) and U(x.targets[0]) in (keys, "%s[:]" % keys) and isinstance(x.value, ast.ListComp)]:
            lc = a.value
            g = lc.generators[0]
            if len(lc.generators) == 1 and U(g.iter) == keys and U(lc.elt) == U(g.target) and [U(i) for i in g.ifs] == ["%s not in %s" % (U(g.target), seen)] \
                    and (not ys or syn_dominates(stmt_of(ys[0]), a)):
                ok = True
                removal = a
    cx.require(ok, rem[0] if rem else (removal if removal is not None else outer), "every member of the yielded sub-graph is removed from the pending keys (no component appears in two sub-graphs)",
               construct=short(rem[0]) if rem else (short(removal) if removal is not None else "(no keys.remove)"))
    clr = [c for c in find_calls(outer.body, attr="clear") if U(c.func.value) == seen]
    ok = bool(clr) and removal is not None and syn_dominates(removal, clr[0])
    cx.require(ok, clr[0] if clr else outer, "'seen' is cleared only after its members were removed from the pending keys", construct=short(clr[0]) if clr else "(no seen.clear())")


def r5_sibling_drivers(cx):
    cx.rule("C04.R5", "single-pass, incremental and pooled drivers evaluate each sub-graph through dr.run with its own broker", floor=5)
    m = cx.repo.module(DR)
    gi = m.func("generate_incremental", "C04.R5")
    loops = [s for s in walk_body(gi.body) if isinstance(s, ast.For)]
    ok = False
    if loops:
        lp = loops[0]
        ys = [y for y in walk_body(lp.body) if isinstance(y, ast.Yield)]
        ok = isinstance(lp.iter, ast.Call) and call_attr(lp.iter) == "get_subgraphs" and len(ys) == 1 and isinstance(ys[0].value, ast.Tuple) \
            and U(ys[0].value.elts[0]) == U(lp.target) and not guard_texts(ys[0], stop=lp) and not has_exit(lp.body)
        # the sub-graph is yielded as get_subgraphs produced it: not rebound (filtered, rebuilt) inside the loop
        ok = ok and isinstance(lp.target, ast.Name) and not assigns_to(lp.body, lp.target.id) \
            and not [x for x in find_calls(lp.body) if call_attr(x) in ("pop", "clear", "update", "popitem", "setdefault") and U(x.func.value) == lp.target.id] \
            and not [x for x in walk_body(lp.body) if isinstance(x, (ast.Delete, ast.Assign)) and any(isinstance(t, ast.Subscript) and U(t.value) == lp.target.id for t in (x.targets))]
        if ok:
            gsrc = trace(lp.iter.args[0], gi) if lp.iter.args else None
            ok = lp.iter.args and U(lp.iter.args[0]) == "components"
    cx.require(ok, gi, "generate_incremental yields every sub-graph of the requested components exactly once", construct=short(loops[0]) if loops else "def generate_incremental")
    ri = m.func("run_incremental", "C04.R5")
    loops = [s for s in walk_body(ri.body) if isinstance(s, ast.For)]
    ok = False
    if loops:
        lp = loops[0]
        tg = [U(e) for e in lp.target.elts] if isinstance(lp.target, ast.Tuple) else []
        ys = [y for y in walk_body(lp.body) if isinstance(y, ast.Yield)]
        ok = call_attr(lp.iter) == "generate_incremental" and len(tg) == 2 and len(ys) == 1 and isinstance(ys[0].value, ast.Call) and call_name(ys[0].value) == "run" \
            and U(ys[0].value.args[0]) == tg[0] and (U(ys[0].value.keywords[0].value) if ys[0].value.keywords else (U(ys[0].value.args[1]) if len(ys[0].value.args) > 1 else "")) == tg[1] \
            and not has_exit(lp.body) and not guard_texts(ys[0], stop=lp)
    cx.require(ok, ri, "run_incremental runs every yielded sub-graph with the yielded broker", construct=short(loops[0]) if loops else "def run_incremental")
    ra = m.func("run_all", "C04.R5")
    subs = find_calls(ra.body, attr="submit")
    ok = False
    if subs:
        lp = enclosing(subs[0], ast.For)
        if lp is not None and isinstance(lp.target, ast.Tuple):
            tg = [U(e) for e in lp.target.elts]
            ok = call_attr(lp.iter) == "generate_incremental" and [U(a) for a in subs[0].args] == ["run"] + tg and not has_exit(lp.body) and not guard_texts(subs[0], stop=lp)
        comp = enclosing(subs[0], (ast.ListComp,))
        if lp is None and comp is not None and comp.elt is subs[0] and len(comp.generators) == 1 and isinstance(comp.generators[0].target, ast.Tuple):
            # eager list comprehension: every pair is submitted before any result is awaited, as in the loop form
            g = comp.generators[0]
            tg = [U(e) for e in g.target.elts]
            ok = call_attr(g.iter) == "generate_incremental" and [U(a) for a in subs[0].args] == ["run"] + tg and not g.ifs and not subs[0].keywords
    cx.require(ok, subs[0] if subs else ra, "the pooled arm submits exactly run(graph, broker) for every yielded pair", construct=short(subs[0]) if subs else "(no pool.submit)")
    # results of all futures are awaited
    res = [c for c in find_calls(ra.body, attr="result")]
    cx.require(bool(res) and isinstance(parent(res[0]), ast.ListComp), res[0] if res else ra, "every future is awaited (f.result() for every submitted sub-graph)",
               construct=short(parent(res[0])) if res else "(no f.result())")
    ser = [c for c in find_calls(ra.body, attr="run_incremental")]
    ok = bool(ser) and isinstance(parent(ser[0]), ast.Call) and call_name(parent(ser[0])) == "list"
    cx.require(ok, ser[0] if ser else ra, "the serial arm exhausts run_incremental", construct=short(parent(ser[0])) if ser else "(no run_incremental call)")
    # the two arms exclude each other: once a sub-graph was handed to the pool, no path of the same call (a fallback after a failed submit, a retry)
    # evaluates the components serially as well - the submitted sub-graphs are neither cancelled nor awaited and would be attempted twice
    if subs and ser:
        from ..cfg import CFG
        g = CFG(ra)
        a, b = g.stmt_node_containing(subs[0]), g.stmt_node_containing(ser[0])
        if a is None or b is None:
            cx.unknown(ra, "cannot place the pooled submission / the serial evaluation in the flow graph of run_all")
        else:
            cx.require(b not in g.reachable(a), ser[0], "no path of run_all both submits sub-graphs to the pool and evaluates serially (also not after an exception)",
                       construct="%s ... %s" % (short(subs[0], 40), short(ser[0], 50)))


STRICT = [(DR, "run_components"), (DR, "ComponentType.invoke"), (DR, "ComponentType.process"), (DR, "ComponentType.get_missing_dependencies"),
          (DR, "ComponentType.__init__"), (DR, "ComponentType.add_dependency"),
          (PL, "PluginType.invoke"), (PL, "datasource.invoke"), (PL, "parser.invoke"), (PL, "rule.process"),
          (SF, "RegistryPoint.__call__"), (SF, "first_of.__call__"), (DR, "first_of"), (DR, "Broker.fire_observers"),
          (DR, "Broker.add_exception"), (DR, "Broker.__init__")]

# reviewed exceptions inside the strict region: (function, sink text prefix) -> reason
STRICT_EXEMPT = {
    ("run_components", "BLACKLISTED_SPECS.append"): "global report list of deny-listed spec names; not part of the compared broker state",
    ("run_components", "generator consumed by BLACKLISTED_SPECS.extend"): "global report list of deny-listed spec names; not part of the compared broker state",
    ("run_components", "list consumed by BLACKLISTED_SPECS.extend"): "global report list of deny-listed spec names; not part of the compared broker state",
    ("Broker.fire_observers", "call"): "observers in a set are called in hash order; observers are required to be independent of each other",
}


def r5b_late_dependency(cx):
    """Single-pass evaluation orders by the group graph COMPONENTS[group], the incremental drivers rebuild their sub-graphs from DEPENDENCIES /
    DEPENDENTS: a dependency attached after registration must reach all of them or the drivers disagree."""
    cx.rule("C04.R5", "single-pass, incremental and pooled drivers evaluate each sub-graph through dr.run with its own broker", floor=5)
    m = cx.repo.module(DR)
    fn = m.func("ComponentType.add_dependency", "C04.R5")
    dep = params(fn)[1]
    adds = [x for x in find_calls(fn.body, attr="add") if [U(a) for a in x.args] == [dep] and not guard_texts(x)]
    recv = [U(x.func.value) for x in adds]

    def _res(t):
        # COMPONENTS[group][...] with group = self.group
        for a in assigns_to(fn, "group"):
            t = t.replace("[group]", "[%s]" % U(a.value))
        return t
    recv = [_res(t) for t in recv]
    dependents = [x for x in find_calls(fn.body, name="add_dependent") if [U(a) for a in x.args] == [dep, "self.component"] and not guard_texts(x)]
    ok = ("self.dependencies" in recv or "DEPENDENCIES[self.component]" in recv) and "COMPONENTS[self.group][self.component]" in recv and len(dependents) == 1
    cx.require(ok, fn, "a dependency attached after registration is recorded in the component's dependency set, in the dependents table and in the group graph (all three feed a driver)",
               construct="adds to %s; add_dependent calls: %d" % (sorted(recv), len(dependents)))


def r6_set_iteration(cx, kinds, mods):
    cx.rule("C04.R6", "no hash-ordered iteration feeds an ordered result in the order-critical core", floor=10)
    comm = ("add_dependent", "add_ignore", "add_exception", "add_observer", "set_enabled")
    strict_names = set()
    for mn, q in STRICT:
        m = cx.repo.module(mn)
        fn = m.func(q, "C04.R6")
        strict_names.add((mn, q))
        its = iterations(fn)
        if not its:
            cx.ok(fn, "no iteration in %s" % q, construct="def %s" % q)
        for it in its:
            un = kinds.unordered(it.iterable, fn)
            if not un:
                cx.ok(it.node, "iteration in %s is over an ordered expression" % q, construct="%s over %s" % (it.kind, short(it.iterable, 80)))
                continue
            sinks = classify_sinks(it, comm)
            bad = [s for s in sinks if s[1] in ("ordered", "first-match")]
            real_bad = []
            for s in bad:
                if any(k[0] == q and s[2].startswith(k[1]) for k in STRICT_EXEMPT):
                    cx.info(s[0], "exempt ordered sink under set iteration: %s" % [v for k, v in STRICT_EXEMPT.items() if k[0] == q][0])
                    continue
                real_bad.append(s)
            if real_bad:
                for s in real_bad:
                    cx.bad(s[0], "%s iterates the unordered expression '%s' into an ordered sink (%s): the result depends on the hash seed" % (q, short(it.iterable, 60), s[2]),
                           construct="%s over %s -> %s" % (it.kind, short(it.iterable, 60), s[2]))
            else:
                cx.ok(it.node, "iteration over an unordered expression in %s feeds only commutative sinks" % q,
                      construct="%s over %s -> %s" % (it.kind, short(it.iterable, 60), ", ".join(sorted(set(s[2] for s in sinks))) or "no sink"))
    # inventory outside the strict region (INFO only)
    inv = 0
    for m in mods:
        for q, fn in m.functions():
            if (m.name, q) in strict_names:
                continue
            for it in iterations(fn):
                if kinds.unordered(it.iterable, fn):
                    sinks = classify_sinks(it, comm)
                    if any(s[1] in ("ordered", "first-match") for s in sinks):
                        inv += 1
                        cx.info(it.node, "G4 inventory: unordered iteration with ordered sink outside the strict region (%s)" % ", ".join(sorted(set(s[2] for s in sinks if s[1] != "commutative"))),
                                construct="%s over %s" % (it.kind, short(it.iterable, 60)))
    cx.extra["set_iteration_inventory_outside_strict_region"] = inv


def run(cx):
    repo = cx.repo
    cx.extra["explanation"] = ("C04: declared-superset-of-used sweep over every @datasource function and factory, engine reads of the broker, ordered first-match picks, "
                               "shape of get_subgraphs, agreement of the three drivers, set-type lint (hash-ordered iteration into ordered sinks) over the order-critical core.")
    cx.undecided = ["confluence itself (same final broker for every linear extension / partition / pool size)",
                    "thread-safety of sharing one broker across pool workers"]
    anchor = [repo.module(DR), repo.module(PL), repo.module(SF), repo.module("insights.contrib.toposort"), repo.module("insights.core.filters"),
              repo.module("insights"), repo.module("insights.core.evaluators")]
    if cx.tier == "thorough":
        mods = repo.all_modules()
        ds_mods = mods
    else:
        mods = anchor
        ds_mods = anchor + [repo.module(n) for n in repo.module_names("insights.specs.datasources")] + [repo.module("insights.ocp")] + \
            [repo.module(n) for n in repo.module_names("insights.specs") if n.count(".") == 2]
        seen = set()
        ds_mods = [m for m in ds_mods if not (m.name in seen or seen.add(m.name))]
    kinds = Kinds(repo, [repo.module(DR), repo.module(PL), repo.module(SF), repo.module("insights.core.filters")])
    cx.guard(r1_declared_used, ds_mods)
    cx.guard(r2_engine_reads)
    cx.guard(r3_ordered_picks, kinds)
    cx.guard(r4_subgraphs)
    cx.guard(r5_sibling_drivers)
    cx.guard(r5b_late_dependency)
    from . import c01
    cx.borrow(c01.r5_order_provenance, "C01.R5", "C04.R5", "single-pass, incremental and pooled drivers evaluate each sub-graph through dr.run with its own broker", mods)
    cx.borrow(c01.r5b_graph_as_requested, "C01.R5", "C04.R5", "single-pass, incremental and pooled drivers evaluate each sub-graph through dr.run with its own broker")
    # who attributes an exception to which registry point must not depend on which driver asked first (memo with an incomplete key: C03.R3)
    from . import c03
    cx.borrow(c03.r3b_registry_points_not_memoised_partially, "C03.R3", "C04.R5", "single-pass, incremental and pooled drivers evaluate each sub-graph through dr.run with its own broker")
    # what keeps the sub-graphs disjoint at run time is the 'member of this graph' conjunct of the execution guard (toposort also lists dependencies
    # that are not keys of the graph): without it a shared outside dependency is evaluated once per sub-graph.  C01.R1 / C02.R5 re-checked.
    from . import c02
    cx.borrow(c01.r1_run_guard, "C01.R1", "C04.R5", "single-pass, incremental and pooled drivers evaluate each sub-graph through dr.run with its own broker")
    cx.borrow(c02.r5b_nothing_else_suppresses, "C02.R5b", "C04.R5", "single-pass, incremental and pooled drivers evaluate each sub-graph through dr.run with its own broker")
    # recorded failures are part of the compared state: what is recorded against a registry point must not depend on which of its failing
    # implementations ran first (C03.R7 re-checked: the mirror loop records unconditionally)
    cx.borrow(c03.r7_registry_mirror, "C03.R7", "C04.R5", "single-pass, incremental and pooled drivers evaluate each sub-graph through dr.run with its own broker")
    cx.guard(r6_set_iteration, kinds, mods)
