"""C20 - configuration-tree queries return exactly the matching nodes (structural clauses)."""
import ast

from ..model import (AnalysisError, FUNC_TYPES, U, call_attr, call_name, dotted, enclosing, enclosing_function, guard_texts, guards_ex, short, walk_body, parent, const_str, kwarg)
from .. import feat
from ..util import params, find_calls, stmt_of, has_exit, syn_dominates, assigns_to
from ..cfg import handler_names, is_catch_all
from ..settype import Kinds, iterations, classify_sinks

QB = "insights.parsr.query.boolean"
QI = "insights.parsr.query"


def _chain(fn):
    """[(test text, body stmts)] of the if/elif chain of the nested ``expr`` function, plus the else body."""
    inner = [n for n in fn.body if isinstance(n, FUNC_TYPES) and n.name == "expr"]
    if not inner:
        return None, None, None
    f = inner[0]
    from ..model import terminates
    out = []

    def links(body):
        """Walk 'if c: <terminating>' links in sequence, elif chains and else bodies that continue the chain; returns the final else part."""
        body = [s_ for s_ in body if not (isinstance(s_, ast.Expr) and isinstance(s_.value, ast.Constant))]
        i = 0
        while i < len(body):
            st = body[i]
            if not isinstance(st, ast.If):
                return body[i:]
            node = st
            while True:
                out.append((U(node.test), node.body))
                if len(node.orelse) == 1 and isinstance(node.orelse[0], ast.If):
                    node = node.orelse[0]
                    continue
                break
            if node.orelse:
                if body[i + 1:]:
                    return node.orelse + body[i + 1:] if False else node.orelse
                return links(node.orelse) if isinstance(node.orelse[0], ast.If) else node.orelse
            if not terminates(node.body):
                return []
            i += 1
        return []
    els = links(f.body)
    return f, out, els


def _ret_text(body):
    rets = [r for r in body if isinstance(r, ast.Return)]
    return U(rets[-1].value) if rets else None


JOIN = "({'%s'.join((expr(p) for p in b.exprs))})"
NOT = "(not {expr(b.query)})"


def _ret_tmpl(body):
    """Canonical template of the (unconditional) string returned by a branch, or the list of (conditions, template) when it depends on a test."""
    rets = [r for r in body if isinstance(r, ast.Return)]
    if not rets:
        return None
    t = feat.str_templates(rets[-1].value)
    if t is None:
        return None
    if len(t) == 1 and not t[0][0]:
        return t[0][1]
    return t


def _test_connective(repo, cls):
    """'all' / 'any' / 'not' used by <cls>.test (looked up through the MRO)."""
    kc, fn = repo.lookup_method(cls, "test")
    if fn is None:
        return None
    # all(...) / any(...) over self.exprs, as an expression or as the written-out short-circuit loop
    q_ = feat.quantifier_of(fn)
    if q_ is not None:
        kind, elt, it, tv = q_
        vp = params(fn)[1] if len(params(fn)) > 1 else "value"
        if it == "self.exprs" and elt == "%s.test(%s)" % (tv, vp):
            return kind
        return None
    rets = [r for r in walk_body(fn.body) if isinstance(r, ast.Return)]
    if len(rets) != 1:
        return None
    v = rets[0].value
    if isinstance(v, ast.Call) and call_name(v) in ("all", "any"):
        g = v.args[0]
        if isinstance(g, ast.GeneratorExp) and U(g.elt) == "q.test(value)" and U(g.generators[0].iter) == "self.exprs" and not g.generators[0].ifs:
            return call_name(v)
    if isinstance(v, ast.UnaryOp) and isinstance(v.op, ast.Not) and U(v.operand) == "self.query.test(value)":
        return "not"
    return None


def r1_agreement(cx, mods):
    cx.rule("C20.R1", "interpreted test() and compiled to_pyfunc() use the same connective for the same class", floor=14)
    qb = cx.repo.module(QB)
    qi = cx.repo.module(QI)
    conn = {"all": " and ", "any": " or "}
    # --- Boolean.to_pyfunc
    fn = qb.func("Boolean.to_pyfunc", "C20.R1")
    f, chain, els = _chain(fn)
    if f is None:
        cx.unknown(fn, "no nested expr() generator")
        return
    tbl = dict((t, b) for t, b in chain)
    for cname in ("All", "Any"):
        key = "isinstance(b, %s)" % cname
        c = _test_connective(cx.repo, qb.cls(cname))
        got = _ret_tmpl(tbl[key]) if key in tbl else None
        cx.require(c in conn and got == JOIN % conn[c], f, "%s: test() uses %s(...) and the generator joins the sub-expressions with '%s'" % (cname, c, conn.get(c, "?").strip()), construct="%s -> %s" % (key, got))
    key = "isinstance(b, Not)"
    c = _test_connective(cx.repo, qb.cls("Not"))
    got = _ret_tmpl(tbl[key]) if key in tbl else None
    cx.require(c == "not" and got == NOT, f, "Not: test() negates and the generator emits 'not'", construct="%s -> %s" % (key, got))
    cx.require(_ret_text(tbl.get("b is TRUE", [])) == "' True '" and _ret_text(tbl.get("b is FALSE", [])) == "' False '", f, "the constants compile to the Python constants", construct="TRUE -> %s, FALSE -> %s" % (_ret_text(tbl.get("b is TRUE", [])), _ret_text(tbl.get("b is FALSE", []))))
    tt = qb.func("Boolean.test", "C20.R1")
    ft = qb.func("FALSE.test", "C20.R1")
    cx.require(_ret_text(tt.body) == "True" and _ret_text(ft.body) == "False", tt, "interpreted TRUE/FALSE return the same constants", construct="Boolean.test -> %s; FALSE.test -> %s" % (_ret_text(tt.body), _ret_text(ft.body)))
    pb = tbl.get("isinstance(b, Predicate)")
    ok = False
    if pb:
        env = dict((U(a.targets[0]), U(a.value)) for a in pb if isinstance(a, ast.Assign))
        rets = []
        for r in ast.walk(ast.Module(body=pb, type_ignores=[])):
            if isinstance(r, ast.Return):
                g = set(guard_texts(r, stop=f))
                for c, t in feat.str_templates(r.value) or [((), None)]:
                    rets.append((g | set(c), t))
        plain = [t for g, t in rets if not any("CaselessPredicate" in x for x, p in g if p)]
        caseless = [t for g, t in rets if any("CaselessPredicate" in x for x, p in g if p)]
        ok = env.get("env[func]") == "b.func" and env.get("env[args]") == "b.args" and plain == ["{func}(value, *{args})"] and caseless == ["{func}(value.lower(), *{args})"]
    cx.require(ok, f, "a leaf compiles to func(value, *args) with the predicate's own func/args (value lower-cased for the caseless leaf)", construct="Predicate branch of expr()")
    pt = qb.func("Predicate.test", "C20.R1")
    calls = [x for x in find_calls(pt.body) if U(x.func) == "self.func"]
    cx.require(len(calls) == 1 and U(calls[0]) == "self.func(value, *self.args)", pt, "the interpreted leaf calls func(value, *args)", construct=short(calls[0]) if calls else "?")
    cp = qb.func("CaselessPredicate.test", "C20.R1")
    low = [x for x in find_calls(cp.body, attr="lower")]
    cx.require(len(low) == 1 and U(low[0]) == "%s.lower()" % params(cp)[1], cp, "the interpreted caseless leaf lower-cases the value", construct=short(stmt_of(low[0])) if low else "?")
    cx.require(bool(els) and isinstance(els[-1], ast.Raise), f, "an unknown Boolean subclass is an error, not silently compiled", construct="else: %s" % (short(els[-1]) if els else None))
    # order: All/Any/Not before Predicate (none of them is a Predicate), constants first
    order = [t for t, b in chain]
    cx.require(order == ["b is TRUE", "b is FALSE", "isinstance(b, All)", "isinstance(b, Any)", "isinstance(b, Not)", "isinstance(b, Predicate)"], f, "dispatch order of the generator", construct="%s" % order)
    # exhaustiveness over Boolean subclasses
    handled = set(["TRUE", "FALSE", "All", "Any", "Not", "Predicate"])
    for m in mods:
        for q, c in m.classes():
            try:
                if cx.repo.is_subclass(c, QB + ":Boolean") and q != "Boolean":
                    anc = [k.name for k in cx.repo.mro(c)]
                    cx.require(bool(set(anc) & handled), c, "Boolean subclass %s is covered by a branch of the generator" % q, construct="%s mro %s" % (q, anc[:4]))
            except Exception:
                pass
    # --- _EntryQuery.to_pyfunc
    fn2 = qi.func("_EntryQuery.to_pyfunc", "C20.R1")
    f2, chain2, els2 = _chain(fn2)
    if f2 is None:
        cx.unknown(fn2, "no nested expr() generator")
        return
    tbl2 = dict((t, b) for t, b in chain2)
    for cname, base in (("_AllEntryQuery", "All"), ("_AnyEntryQuery", "Any")):
        key = "isinstance(b, %s)" % cname
        c = _test_connective(cx.repo, qi.cls(cname))
        got = _ret_tmpl(tbl2[key]) if key in tbl2 else None
        cx.require(c in conn and got == JOIN % conn[c], f2, "%s: inherited test() uses %s(...) and the entry-query generator joins with '%s'" % (cname, c, conn.get(c, "?").strip()), construct="%s -> %s" % (key, got))
    key = "isinstance(b, _NotEntryQuery)"
    c = _test_connective(cx.repo, qi.cls("_NotEntryQuery"))
    got = _ret_tmpl(tbl2[key]) if key in tbl2 else None
    cx.require(c == "not" and got == NOT, f2, "_NotEntryQuery: test() negates and the generator emits 'not'", construct="%s -> %s" % (key, got))
    env2 = dict((U(a.targets[0]), U(a.value)) for a in els2 if isinstance(a, ast.Assign))
    cx.require(env2.get("env[func]") == "b.test" and _ret_tmpl(els2) == "{func}(value)", f2, "every other entry query compiles to a call of its own test()", construct="else: env[func] = b.test; return func + '(value)'")
    # bases of the entry-query connectives
    for cname, base in (("_AllEntryQuery", "All"), ("_AnyEntryQuery", "Any"), ("_NotEntryQuery", "Not")):
        c = qi.cls(cname)
        cx.require([U(b) for b in c.bases] == ["_EntryQuery", base], c, "%s combines _EntryQuery with %s" % (cname, base), construct="class %s(%s)" % (cname, ", ".join(U(b) for b in c.bases)))
    for opname, cls in (("__and__", "All"), ("__or__", "Any"), ("__invert__", "Not")):
        o = qb.func("Boolean.%s" % opname, "C20.R1")
        cx.require((_ret_text(o.body) or "").startswith(cls + "("), o, "operator %s builds %s" % (opname, cls), construct=_ret_text(o.body))
    for opname, cls in (("__and__", "_AllEntryQuery"), ("__or__", "_AnyEntryQuery"), ("__invert__", "_NotEntryQuery")):
        o = qi.func("_EntryQuery.%s" % opname, "C20.R1")
        cx.require((_ret_text(o.body) or "").startswith(cls + "("), o, "entry-query operator %s builds %s" % (opname, cls), construct=_ret_text(o.body))


def r2_raising(cx):
    cx.rule("C20.R2", "a raising predicate counts as not matching", floor=5)
    qb = cx.repo.module(QB)
    qi = cx.repo.module(QI)
    sites = [(qb, "Predicate.test", "self.func"), (qi, "_desugar_name.predicate", "q"), (qi, "_desugar_attr.predicate", "q")]
    for m, q, callee in sites:
        fn = m.func(q, "C20.R2")
        calls = [x for x in find_calls(fn.body) if U(x.func) == callee]
        if not calls:
            cx.bad(fn, "%s calls the user supplied callable" % q, construct="(no %s(...) call)" % callee)
            continue
        for x in calls:
            tr = enclosing(x, ast.Try)
            ok = tr is not None and any(stmt_of(x) is s for s in tr.body)
            if ok:
                ca = [h for h in tr.handlers if h.type is None or is_catch_all(h)]
                ok = bool(ca) and _ret_text(ca[0].body) == "False"
            cx.require(ok, x, "%s: the user callable runs inside a try whose catch-all returns False" % q, construct=short(tr, 110) if tr is not None else short(x))
    for m, q in ((qb, "Boolean.to_pyfunc"), (qi, "_EntryQuery.to_pyfunc")):
        fn = m.func(q, "C20.R2")
        tmpl = [n.value for n in ast.walk(fn) if isinstance(n, ast.Constant) and isinstance(n.value, str) and "def predicate(value)" in n.value]
        ok = len(tmpl) == 1
        if ok:
            try:
                t = ast.parse(tmpl[0].replace("{body}", "BODY").strip())
                pf = t.body[0]
                tr = pf.body[0]
                ok = isinstance(tr, ast.Try) and U(tr.body[0]) == "return BODY" and len(tr.handlers) == 1 and is_catch_all(tr.handlers[0]) and _ret_text(tr.handlers[0].body) == "False" and len(pf.body) == 1
            except SyntaxError:
                ok = False
        cx.require(ok, fn, "%s: the whole generated body runs inside try/except Exception -> False" % q, construct="generated template of %s" % q)
        ex = [x for x in find_calls(fn.body) if call_name(x) in ("six.exec_", "exec")]
        rets = [r for r in fn.body if isinstance(r, ast.Return)]
        cx.require(len(ex) == 1 and bool(rets) and U(rets[-1].value) == "env['predicate']", fn, "%s returns the generated function" % q, construct="six.exec_(func, env, env); return env['predicate']")


def _pairs(fn):
    """(target text, value node) of every simple or tuple-to-tuple assignment directly in the body of ``fn``."""
    out = []
    for a in walk_body(fn.body):
        if isinstance(a, ast.Assign) and len(a.targets) == 1:
            t = a.targets[0]
            if isinstance(t, ast.Tuple) and isinstance(a.value, ast.Tuple) and len(t.elts) == len(a.value.elts):
                out.extend((U(x), v, a) for x, v in zip(t.elts, a.value.elts))
            else:
                out.append((U(t), a.value, a))
    return out


def _match_shape(f):
    """Names playing the roles in compile_queries.match: (first query, remaining queries, this level's matches) or None."""
    ps = params(f)
    if len(ps) != 2:
        return None
    qs, nodes = ps
    pr = _pairs(f)
    first = [t for t, v, a in pr if U(v) == "%s[0]" % qs]
    rest = [t for t, v, a in pr if U(v) == "%s[1:]" % qs]
    if len(first) != 1 or len(rest) != 1:
        return None
    res = [(t, v, a) for t, v, a in pr if isinstance(v, ast.ListComp) and len(v.generators) == 1 and U(v.generators[0].iter) == nodes]
    if len(res) != 1:
        return None
    return first[0], rest[0], res[0]


def _match_iterative(f):
    """The level-by-level walk written as a loop (same meaning as the tail recursion):
        q = qs[0]; res = [n for n in nodes if q(n)]
        for q in qs[1:]:  [if not res: break]  gc = list(chain.from_iterable(n.children for n in res)); res = [n for n in gc if q(n)]
        return res
    Returns a description, or None."""
    ps = params(f)
    if len(ps) != 2:
        return None
    qs, nodes = ps
    body = [b for b in f.body if not (isinstance(b, ast.Expr) and isinstance(b.value, ast.Constant))]
    if len(body) != 4 or not (isinstance(body[0], ast.Assign) and isinstance(body[1], ast.Assign) and isinstance(body[2], ast.For) and isinstance(body[3], ast.Return)):
        return None
    a0, a1, lp, ret = body

    def level(lc, src, q):
        return isinstance(lc, ast.ListComp) and len(lc.generators) == 1 and not lc.generators[0].is_async and U(lc.generators[0].iter) == src \
            and U(lc.elt) == U(lc.generators[0].target) and [U(i) for i in lc.generators[0].ifs] == ["%s(%s)" % (q, U(lc.generators[0].target))]
    if not (isinstance(a0.targets[0], ast.Name) and U(a0.value) == "%s[0]" % qs):
        return None
    q0 = a0.targets[0].id
    if not (isinstance(a1.targets[0], ast.Name) and level(a1.value, nodes, q0)):
        return None
    res = a1.targets[0].id
    if U(ret.value) != res or lp.orelse or U(lp.iter) != "%s[1:]" % qs or not isinstance(lp.target, ast.Name):
        return None
    qv = lp.target.id
    lb = list(lp.body)
    if lb and isinstance(lb[0], ast.If) and not lb[0].orelse and len(lb[0].body) == 1 and isinstance(lb[0].body[0], ast.Break) and U(lb[0].test) == "not %s" % res:
        lb = lb[1:]
    children = "list(chain.from_iterable((n.children for n in %s)))" % res
    import re as _re2
    norm = lambda t: _re2.sub(r"\(\((\w+)\.children for \1 in ", "((n.children for n in ", t)
    if len(lb) == 2 and isinstance(lb[0], ast.Assign) and isinstance(lb[0].targets[0], ast.Name) and norm(U(lb[0].value)) == children \
            and isinstance(lb[1], ast.Assign) and U(lb[1].targets[0]) == res and level(lb[1].value, lb[0].targets[0].id, qv):
        return "for %s in %s[1:]: %s = [n for n in children(%s) if %s(n)]" % (qv, qs, res, res, qv)
    if len(lb) == 1 and isinstance(lb[0], ast.Assign) and U(lb[0].targets[0]) == res and isinstance(lb[0].value, ast.ListComp) and len(lb[0].value.generators) == 1 \
            and norm(U(lb[0].value.generators[0].iter)) in (children, children[5:-1]) and level(lb[0].value, U(lb[0].value.generators[0].iter), qv):
        return "for %s in %s[1:]: %s = [n for n in children(%s) if %s(n)]" % (qv, qs, res, res, qv)
    return None


def r3_order(cx):
    cx.rule("C20.R3", "results are built in document order; roots are de-duplicated keeping the first occurrence", floor=6)
    qi = cx.repo.module(QI)
    kinds = Kinds(cx.repo, [qi])
    for q in ("compile_queries", "_flatten", "select"):
        fn = qi.func(q, "C20.R3")
        targets = [fn] + [n for n in ast.walk(fn) if isinstance(n, FUNC_TYPES) and n is not fn]
        for f in targets:
            for it in iterations(f):
                if kinds.unordered(it.iterable, f):
                    sinks = classify_sinks(it)
                    bad = [s for s in sinks if s[1] != "commutative"]
                    cx.require(not bad, it.node, "%s never builds a result from a hash-ordered iteration" % q, construct="%s over %s" % (it.kind, short(it.iterable, 60)))
                else:
                    cx.ok(it.node, "%s iterates an ordered expression" % q, construct="%s over %s" % (it.kind, short(it.iterable, 70)))
    cq = qi.func("compile_queries", "C20.R3")
    mt = [n for n in cq.body if isinstance(n, FUNC_TYPES) and n.name == "match"]
    ok = False
    if mt:
        sh = _match_shape(mt[0])
        if sh is not None:
            q0, rest, (rname, lc, _a) = sh
            g = lc.generators[0]
            ok = U(lc.elt) == U(g.target) and [U(i) for i in g.ifs] == ["%s(%s)" % (q0, U(g.target))] and not g.is_async
        elif _match_iterative(mt[0]) is not None:
            ok = True
    cx.require(ok, mt[0] if mt else cq, "a level keeps exactly the nodes satisfying the query, in input order", construct="res = [n for n in nodes if q(n)]")
    fl = qi.func("_flatten", "C20.R3")
    inner = [n for n in fl.body if isinstance(n, FUNC_TYPES)]
    nodes_p = params(fl)[0]
    ok, ok2, what = False, False, "(no recursive helper)"
    rets = [r for r in fl.body if isinstance(r, ast.Return)]
    if inner:
        f_ = inner[0]
        ys = [y for y in walk_body(f_.body) if isinstance(y, ast.Yield)]
        lp = [s_ for s_ in f_.body if isinstance(s_, ast.For)]
        if ys:
            # generator form: yield the node, then everything its children yield, in order
            ok = len(ys) == 2 and U(ys[0].value) == params(f_)[0] and bool(lp) and U(lp[0].iter) == "chain.from_iterable((%s(c) for c in %s.children))" % (f_.name, params(f_)[0]) and ys[0].lineno < lp[0].lineno
            ok2 = bool(rets) and U(rets[0].value) == "list(chain.from_iterable((%s(n) for n in %s)))" % (f_.name, nodes_p)
            what = "yield n; for i in chain.from_iterable(inner(c) for c in n.children): yield i"
        elif lp and len(lp) == 1 and len(params(f_)) == 1 and U(lp[0].iter) == "%s.children" % params(f_)[0]:
            # accumulating form, one node per call: def inner(n): flat.append(n); for c in n.children: inner(c)    ...    for n in nodes: inner(n)
            l0 = lp[0]
            np_ = params(f_)[0]
            stmts = [s_ for s_ in f_.body if not (isinstance(s_, ast.Expr) and isinstance(s_.value, ast.Constant))]
            aps = [x for x in find_calls(f_.body, attr="append") if [U(a) for a in x.args] == [np_]]
            rec = [x for x in find_calls(f_.body) if isinstance(x.func, ast.Name) and x.func.id == f_.name]
            ok = len(stmts) == 2 and len(aps) == 1 and stmt_of(aps[0]) is stmts[0] and isinstance(stmts[0], ast.Expr) and stmts[1] is l0 and len(rec) == 1 and len(l0.body) == 1 \
                and isinstance(l0.body[0], ast.Expr) and l0.body[0].value is rec[0] and [U(a) for a in rec[0].args] == [U(l0.target)] and not rec[0].keywords and not l0.orelse
            acc = U(aps[0].func.value) if aps else "?"
            accdef = [a for a in fl.body if isinstance(a, ast.Assign) and U(a.targets[0]) == acc and U(a.value) in ("[]", "list()")]
            tl = [s_ for s_ in fl.body if isinstance(s_, ast.For)]
            ok2 = len(accdef) == 1 and len(assigns_to(fl, acc)) == 1 and len(tl) == 1 and U(tl[0].iter) == nodes_p and len(tl[0].body) == 1 and not tl[0].orelse \
                and U(tl[0].body[0]) == "%s(%s)" % (f_.name, U(tl[0].target)) and bool(rets) and U(rets[0].value) == acc and tl[0].lineno < rets[0].lineno
            what = "def inner(n): flat.append(n); for c in n.children: inner(c)   /   for n in nodes: inner(n)"
        elif lp and len(lp) == 1 and len(params(f_)) == 1:
            # accumulating form: for n in level: flat.append(n); walk(n.children)   (append before the recursive call = pre-order)
            l0 = lp[0]
            tv = U(l0.target)
            aps = [x for x in find_calls(l0.body, attr="append") if [U(a) for a in x.args] == [tv]]
            rec = [x for x in find_calls(l0.body) if isinstance(x.func, ast.Name) and x.func.id == f_.name]
            ok = U(l0.iter) == params(f_)[0] and len(aps) == 1 and len(rec) == 1 and [U(a) for a in rec[0].args] == ["%s.children" % tv] and aps[0].lineno < rec[0].lineno \
                and not guard_texts(aps[0], stop=l0) and not guard_texts(rec[0], stop=l0) and not has_exit(l0.body)
            acc = U(aps[0].func.value) if aps else "?"
            accdef = [a for a in fl.body if isinstance(a, ast.Assign) and U(a.targets[0]) == acc and U(a.value) in ("[]", "list()")]
            top = [x for x in find_calls([s_ for s_ in fl.body if not isinstance(s_, FUNC_TYPES)]) if isinstance(x.func, ast.Name) and x.func.id == f_.name]
            ok2 = len(accdef) == 1 and len(top) == 1 and [U(a) for a in top[0].args] == [nodes_p] and bool(rets) and U(rets[0].value) == acc and top[0].lineno < rets[0].lineno
            what = "for n in level: flat.append(n); walk(n.children)"
    if not inner:
        # explicit stack: stack = list(reversed(nodes)); while stack: n = stack.pop(); flat.append(n); stack.extend(reversed(n.children)); return flat
        wl = [s_ for s_ in fl.body if isinstance(s_, ast.While)]
        if len(wl) == 1 and isinstance(wl[0].test, ast.Name) and not wl[0].orelse:
            stk = wl[0].test.id
            sd = [a for a in fl.body if isinstance(a, ast.Assign) and U(a.targets[0]) == stk]
            b_ = wl[0].body
            pops = [a for a in b_ if isinstance(a, ast.Assign) and U(a.value) == "%s.pop()" % stk]
            if len(sd) == 1 and U(sd[0].value) in ("list(reversed(%s))" % nodes_p, "%s[::-1]" % nodes_p) and len(pops) == 1 and b_[0] is pops[0]:
                nv = U(pops[0].targets[0])
                aps = [x for x in find_calls(b_, attr="append") if [U(a) for a in x.args] == [nv]]
                exts = [x for x in find_calls(b_, attr="extend") if U(x.func.value) == stk]
                okb = len(aps) == 1 and len(exts) == 1 and [U(a) for a in exts[0].args] in (["reversed(%s.children)" % nv], ["%s.children[::-1]" % nv]) \
                    and not guard_texts(aps[0], stop=wl[0]) and not guard_texts(exts[0], stop=wl[0]) and not has_exit(b_) and len(b_) == 3
                if okb:
                    acc = U(aps[0].func.value)
                    accdef = [a for a in fl.body if isinstance(a, ast.Assign) and U(a.targets[0]) == acc and U(a.value) in ("[]", "list()")]
                    ok = True
                    ok2 = len(accdef) == 1 and bool(rets) and U(rets[0].value) == acc
                    what = "while stack: n = stack.pop(); flat.append(n); stack.extend(reversed(n.children))"
    cx.require(ok, inner[0] if inner else fl, "deep search flattens in document (pre-)order: a node, then its children recursively", construct=what)
    cx.require(ok2, rets[0] if rets else fl, "every given node is flattened, in order", construct=short(rets[0]) if rets else "?")
    sl = qi.func("select", "C20.R3")
    lp = [s for s in sl.body if isinstance(s, ast.For)]
    ok = False
    if lp:
        ap = [x for x in find_calls(lp[0].body, attr="append")]
        ad = [x for x in find_calls(lp[0].body, attr="add")]
        rt = [a for a in walk_body(lp[0].body) if isinstance(a, ast.Assign) and U(a.targets[0]) == "root"]
        ok = U(lp[0].iter) == "results" and len(ap) == 1 and len(ad) == 1 and U(ap[0].args[0]) == "root" and U(ad[0].args[0]) == "root" and bool(rt) and U(rt[0].value) == "%s.root" % U(lp[0].target) \
            and set(guard_texts(ap[0], stop=lp[0])) == set([("root in seen", False)]) and not has_exit(lp[0].body)
    cx.require(ok, lp[0] if lp else sl, "roots: each result's root is appended the first time it is seen, in result order (the set is only a membership test)", construct=short(lp[0], 140) if lp else "?")
    rs = [a for a in walk_body(sl.body) if isinstance(a, ast.Assign) and U(a.targets[0]) == "results"]
    okd = len(rs) == 1 and U(rs[0].value) == "query(_flatten(nodes)) if deep else query(nodes)"
    if not okd and len(rs) == 1 and isinstance(rs[0].value, ast.Call) and call_name(rs[0].value) == "query" and len(rs[0].value.args) == 1 and isinstance(rs[0].value.args[0], ast.Name):
        # if deep: nodes = _flatten(nodes); results = query(nodes)
        nm = rs[0].value.args[0].id
        cases = feat.value_cases(sl, nm, rs[0]) if hasattr(feat, "value_cases") else None
        reb = [a for a in walk_body(sl.body) if isinstance(a, ast.Assign) and U(a.targets[0]) == nm]
        okd = len(reb) == 1 and U(reb[0].value) == "_flatten(%s)" % nm and set(guard_texts(reb[0])) == set([("deep", True)]) and reb[0].lineno < rs[0].lineno and not guard_texts(rs[0]) and nm in params(sl)
    cx.require(okd, rs[0] if rs else sl, "deep search queries the flattened tree, otherwise the given nodes", construct=short(rs[0]) if rs else "?")


def r4_levels(cx):
    cx.rule("C20.R4", "query i applies to the children of the matches of query i-1; a tuple query conjoins name and any-attribute tests", floor=5)
    qi = cx.repo.module(QI)
    cq = qi.func("compile_queries", "C20.R4")
    mt = [n for n in cq.body if isinstance(n, FUNC_TYPES) and n.name == "match"]
    if not mt:
        cx.unknown(cq, "no match() helper")
        return
    f = mt[0]
    sh = _match_shape(f)
    itv = _match_iterative(f) if sh is None else None
    cx.require(sh is not None or itv is not None, f, "match takes the first query and keeps the rest for the next level", construct=itv or "q = qs[0]; qs = qs[1:]")
    if sh is None and itv is not None:
        cx.ok(f, "the next query runs on the children of this level's matches (only while queries and matches remain)", construct=itv)
        cx.ok(f, "the last level's matches are the result", construct="return res")
    if sh is None and itv is None:
        return
    if sh is not None:
        _r4_recursive(cx, f, sh)
    _r4_rest(cx, qi, cq)


def _r4_recursive(cx, f, sh):
    q0, rest, (rname, lc, resdef) = sh
    rec = [r for r in walk_body(f.body) if isinstance(r, ast.Return) and isinstance(r.value, ast.Call) and call_name(r.value) == "match"]
    ok = len(rec) == 1 and len(rec[0].value.args) == 2 and U(rec[0].value.args[0]) == rest
    if ok:
        gexpr = rec[0].value.args[1]
        if isinstance(gexpr, ast.Name):
            gd = [v for t, v, a in _pairs(f) if t == gexpr.id]
            gexpr = gd[0] if len(gd) == 1 else gexpr
        def _children_of(e, src):
            # all children of the nodes of src, in order:  list(chain.from_iterable(n.children for n in src))  or  [c for n in src for c in n.children]
            if U(e).replace(" ", "") == ("list(chain.from_iterable((n.children for n in %s)))" % src).replace(" ", ""):
                return True
            if isinstance(e, ast.Call) and call_name(e) == "list" and len(e.args) == 1 and isinstance(e.args[0], ast.Call) and call_name(e.args[0]) in ("chain.from_iterable", "itertools.chain.from_iterable") \
                    and isinstance(e.args[0].args[0], ast.GeneratorExp):
                g = e.args[0].args[0]
                return len(g.generators) == 1 and not g.generators[0].ifs and U(g.generators[0].iter) == src and U(g.elt) == "%s.children" % U(g.generators[0].target)
            if isinstance(e, ast.ListComp) and len(e.generators) == 2 and not e.generators[0].ifs and not e.generators[1].ifs:
                g0, g1 = e.generators
                return U(g0.iter) == src and U(g1.iter) == "%s.children" % U(g0.target) and U(e.elt) == U(g1.target)
            return False
        ok = _children_of(gexpr, rname) and set(guard_texts(rec[0])) == set([(rest, True), (rname, True)]) and resdef.lineno < rec[0].lineno
    cx.require(ok, rec[0] if rec else f, "the next query runs on the children of this level's matches (only while queries and matches remain)", construct="gc = children of res; return match(qs, gc)")
    last = [r for r in walk_body(f.body) if isinstance(r, ast.Return) and r not in rec]
    cx.require(bool(last) and all(U(r.value) == rname for r in last), last[-1] if last else f, "the last level's matches are the result", construct="return res")


def _r4_rest(cx, qi, cq):
    qs = [a for a in cq.body if isinstance(a, ast.Assign) and U(a.targets[0]) == "queries"]
    cx.require(len(qs) == 1 and U(qs[0].value) == "[_desugar(q) for q in queries]", qs[0] if qs else cq, "every query is desugared, in order", construct=short(qs[0]) if qs else "?")
    ds = qi.func("_desugar", "C20.R4")
    lam = [n for n in walk_body(ds.body) if isinstance(n, ast.Lambda) and "name_query" in U(n)]
    conj = [U(n.body) for n in lam]
    for n in ast.walk(ds):
        if isinstance(n, FUNC_TYPES) and n is not ds and len(params(n)) == 1:
            rr = [r for r in walk_body(n.body) if isinstance(r, ast.Return)]
            if len(rr) == 1 and "name_query" in U(rr[0].value):
                conj.append(U(rr[0].value).replace("(%s)" % params(n)[0], "(e)"))
    aqd = [U(v) for t, v, a in _pairs(ds) if t == "aq"]
    cx.require(conj == ["name_query(e) and aq(e)"] and aqd == ["attrs_query.to_pyfunc()"], lam[0] if lam else ds, "a tuple query matches iff the name test AND the attribute test hold", construct="%s" % conj)
    nq = dict((U(a.targets[0]), U(a.value)) for a in walk_body(ds.body) if isinstance(a, ast.Assign))
    cx.require(nq.get("name_query") == "_desugar_name(q[0])" and nq.get("attrs_query") == "_desugar_attrs(q[1:])", ds, "first element is the name query, the rest attribute queries", construct="%s" % nq)
    da = qi.func("_desugar_attrs", "C20.R4")
    lam = [n for n in walk_body(da.body) if isinstance(n, ast.Lambda)]
    ok = len(lam) == 1 and U(lam[0].body) == "any((p(v) for p in attr_queries))" and "_AnyAttrQuery(" in U(parent(lam[0]))
    cx.require(ok, lam[0] if lam else da, "several attribute queries: any attribute satisfying any of them", construct=short(parent(lam[0])) if lam else "?")
    for cname, fnname in (("_AnyAttrQuery", "any"), ("_AllAttrQuery", "all"), ("ChildQuery", "any")):
        t = qi.func("%s.test" % cname, "C20.R4")
        q_ = feat.quantifier_of(t)
        ep = params(t)[1]
        over = "%s.attrs" % ep if cname != "ChildQuery" else "%s.children" % ep
        ok = q_ is not None and q_[0] == fnname and q_[2] == over and q_[1] == "self.expr(%s)" % q_[3]
        cx.require(ok, t, "%s.test quantifies with %s over %s" % (cname, fnname, over), construct="%s" % (q_,) if q_ else (_ret_text(t.body) or "?"))
    dn = qi.func("_desugar_name", "C20.R4")
    lams = [U(n.body) for n in walk_body(dn.body) if isinstance(n, ast.Lambda)]
    cx.require("e._name == q" in lams and "f(e._name)" in lams, dn, "a plain name matches by equality, a Boolean by its compiled function on the name", construct="%s" % lams)


MUTATORS = ("append", "extend", "insert", "pop", "remove", "clear", "update", "setdefault", "sort", "reverse", "add", "discard", "popitem")


def r5_persistent_expressions(cx, mods):
    """A query expression is a value: building 'base & r' must not change what 'base' means.  Constructors of Boolean combinators (and the helpers they call)
    may fill their own fresh containers but never modify an operand or anything reached from one."""
    cx.rule("C20.R5", "building a combined query never modifies its operands", floor=3)
    qb = cx.repo.module(QB)
    qi = cx.repo.module(QI)
    n = 0
    for m in (qb, qi):
        for q, c in m.classes():
            try:
                if not cx.repo.is_subclass(c, QB + ":Boolean"):
                    continue
            except Exception:
                continue
            inits = [st for st in c.body if isinstance(st, FUNC_TYPES) and st.name in ("__init__", "__and__", "__or__", "__invert__")]
            for init in inits:
                reg = [init]
                # module-level helpers called from the constructor (whatever their age)
                for cl in [x for x in ast.walk(init) if isinstance(x, ast.Call) and isinstance(x.func, ast.Name) and m.has(x.func.id) and isinstance(m.get(x.func.id), FUNC_TYPES)]:
                    reg.append(m.get(cl.func.id))
                for f in reg:
                    n += 1
                    fresh = set()
                    for a in walk_body(f.body):
                        if isinstance(a, ast.Assign) and len(a.targets) == 1 and isinstance(a.targets[0], ast.Name):
                            v = a.value
                            if isinstance(v, (ast.List, ast.Dict, ast.Set, ast.ListComp, ast.DictComp, ast.SetComp)) or (isinstance(v, ast.Call) and call_name(v) in ("list", "dict", "set", "sorted", "tuple")):
                                fresh.add(a.targets[0].id)
                            else:
                                fresh.discard(a.targets[0].id)
                    bad = []
                    for x in walk_body(f.body):
                        base = None
                        if isinstance(x, ast.Call) and isinstance(x.func, ast.Attribute) and x.func.attr in MUTATORS:
                            base = x.func.value
                        elif isinstance(x, (ast.Subscript, ast.Attribute)) and isinstance(x.ctx, (ast.Store, ast.Del)):
                            base = x.value
                        if base is None:
                            continue
                        root = base
                        while isinstance(root, (ast.Attribute, ast.Subscript)):
                            root = root.value
                        if isinstance(root, ast.Name) and (root.id in ("self", "env") or (root.id in fresh and root is base)):
                            continue
                        bad.append(x)
                    cx.require(not bad, bad[0] if bad else f, "%s (reached from %s.%s) modifies only the new object's own state or containers it has just created" % (f.name, q, init.name),
                               construct=short(bad[0]) if bad else "def %s" % f.name)
    if n < 3:
        cx.error("expected constructors of All/Any/Not, found %d" % n)


def r6_one_compiler(cx):
    """Bracket look-ups, upto() and child_query() must mean what select()/find() mean: every entry point turns the user's query into a predicate
    through the one compiler (_desugar), unconditionally; and no name/value is ever matched by object identity (equal strings need not be identical:
    trees restored from a pickle or built by hand carry un-interned names)."""
    cx.rule("C20.R6", "every look-up compiles its query through _desugar; names and values are never matched by identity", floor=5)
    qi = cx.repo.module(QI)
    for q in ("Entry.__getitem__", "Result.__getitem__", "Entry.upto"):
        fn = qi.func(q, "C20.R6")
        qp = params(fn)[1]
        # the callable applied to nodes
        applied = sorted(set(x.func.id for x in ast.walk(fn) if isinstance(x, ast.Call) and isinstance(x.func, ast.Name) and len(x.args) == 1 and not x.keywords
                             and (x.func.id == qp or assigns_to(fn, x.func.id)) and x.func.id not in ("_desugar",)))
        if not applied:
            cx.bad(fn, "%s filters nodes with the compiled query" % q, construct="(no predicate applied to a node)")
            continue
        for pv in applied:
            ds = assigns_to(fn, pv)
            ok = bool(ds) and all(isinstance(d, ast.Assign) and isinstance(d.value, ast.Call) and call_name(d.value) == "_desugar" and [U(a) for a in d.value.args] == [qp] and not d.value.keywords
                                  and not [g for g in guards_ex(d) if g[2] == "nest"] for d in ds)
            cx.require(ok, ds[0] if ds else fn, "%s: the predicate applied to the nodes is _desugar(%s) on every path (the same compiler select()/find() use)" % (q, qp),
                       construct="; ".join(short(d, 100) for d in ds) if ds else "%s(...) applied without compiling" % pv)
    cq = qi.func("child_query", "C20.R6")
    ds = [x for x in find_calls(cq.body, name="_desugar")]
    cx.require(len(ds) == 1 and not [g for g in guards_ex(ds[0]) if g[2] == "nest"], ds[0] if ds else cq, "child_query compiles its query through _desugar", construct=short(stmt_of(ds[0]), 100) if ds else "(none)")
    n = 0
    for m in (qi, cx.repo.module(QB)):
        for c in [x for x in ast.walk(m.tree) if isinstance(x, ast.Compare)]:
            ops = [c.left] + list(c.comparators)
            for i, op in enumerate(c.ops):
                if not isinstance(op, (ast.Is, ast.IsNot)):
                    continue
                a, b = ops[i], ops[i + 1]

                def singleton(e):
                    return (isinstance(e, ast.Constant) and (e.value is None or e.value is True or e.value is False or e.value is Ellipsis)) or (isinstance(e, ast.Name) and e.id in ("NotImplemented", "None"))

                def type_side(e):
                    return isinstance(e, ast.Call) and call_name(e) == "type" and len(e.args) == 1

                def node_side(e):
                    # identity of tree nodes (self / parent / root links) is object identity by design
                    return isinstance(e, ast.Name) and e.id in ("self",)
                def sentinel(e):
                    # a module-level object created once (TRUE = TruePredicate()) or imported as such: identity is its meaning
                    if not isinstance(e, ast.Name):
                        return False
                    v = m.top.get(e.id)
                    if v is not None:
                        return isinstance(v, ast.Call) and not any(isinstance(x, ast.Name) and isinstance(x.ctx, ast.Store) and x.id == e.id for f_ in ast.walk(m.tree) if isinstance(f_, FUNC_TYPES) for x in ast.walk(f_))
                    return e.id in m.imports and e.id.isupper()
                n += 1
                ok = singleton(a) or singleton(b) or type_side(a) or type_side(b) or node_side(a) or node_side(b) or sentinel(a) or sentinel(b)
                cx.require(ok, c, "identity comparison only against a singleton, between types, or between tree nodes themselves", construct=short(c, 90))
    if n < 3:
        cx.error("expected identity comparisons (is None ...) in the query modules, found %d" % n)


ONE_SHOT = ("map", "filter", "zip", "iter", "reversed", "enumerate", "itertools.chain", "chain", "itertools.imap", "itertools.ifilter", "six.moves.map", "six.moves.filter", "six.moves.zip")


def _one_shot(e):
    return isinstance(e, ast.GeneratorExp) or (isinstance(e, ast.Call) and call_name(e) in ONE_SHOT)


def r7_predicates_reusable(cx):
    """A compiled query is applied to every node of a level: whatever its closure captured must survive the first application.  A one-shot iterator
    (map / filter / zip / generator expression on Python 3) captured by a predicate is empty from the second node on."""
    cx.rule("C20.R7", "no predicate closure captures a one-shot iterator; where() routes Boolean name queries through the compiler", floor=3)
    n = 0
    for m in (cx.repo.module(QI), cx.repo.module(QB)):
        for fn in [f for f in ast.walk(m.tree) if isinstance(f, FUNC_TYPES)]:
            inner = [g for g in ast.walk(fn) if g is not fn and isinstance(g, FUNC_TYPES + (ast.Lambda,))]
            if not inner:
                continue
            n += 1
            bad = None
            for a in [x for x in walk_body(fn.body) if isinstance(x, ast.Assign) and _one_shot(x.value)]:
                for t in a.targets:
                    if not isinstance(t, ast.Name):
                        continue
                    for g in inner:
                        bound = set(ar.arg for ar in g.args.args) if hasattr(g, "args") else set()
                        if t.id not in bound and any(isinstance(x, ast.Name) and x.id == t.id and isinstance(x.ctx, ast.Load) for x in ast.walk(g.body if isinstance(g, ast.Lambda) else ast.Module(body=g.body, type_ignores=[]))):
                            bad = bad or a
            if bad is not None:
                cx.bad(bad, "%s: what a predicate closure captures can be iterated again for every node" % fn.name, construct=short(bad, 90))
            else:
                cx.ok(fn, "%s: no closure captures a one-shot iterator" % fn.name, construct="def %s" % fn.name)
    # where(): a Boolean in the name position is a *name query* (compiled, applied to the children's names).  Boolean objects are callable, so the
    # branch that treats a callable as a predicate of the node itself must come after the Boolean test.
    qi = cx.repo.module(QI)
    bool_callable = False
    bm = cx.repo.module(QB)
    for c in [x for x in bm.tree.body if isinstance(x, ast.ClassDef) and x.name == "Boolean"]:
        bool_callable = any(isinstance(f, FUNC_TYPES) and f.name == "__call__" for f in c.body)
    for q in ("Entry.where", "Result.where"):
        fn = qi.func(q, "C20.R7")
        region = feat.region(qi, fn)
        direct = []
        for f in region:
            ps = params(f)
            for g in [x for x in ast.walk(f) if isinstance(x, FUNC_TYPES + (ast.Lambda,)) and x is not f]:
                for c in [x for x in ast.walk(g) if isinstance(x, ast.Call) and isinstance(x.func, ast.Name) and x.func.id in ps]:
                    direct.append((f, g, c))
        if not direct:
            cx.ok(fn, "%s applies no user callable directly" % q, construct="def where")
            continue
        for f, g, c in direct:
            nm = c.func.id
            host = g if isinstance(g, FUNC_TYPES) else stmt_of(g)
            gs = guard_texts(host)
            ok = (not bool_callable) or ("isinstance(%s, Boolean)" % nm, False) in gs
            cx.require(ok, c, "%s: %s is applied to the node itself only when it is not a Boolean name query (Boolean objects are callable: the Boolean test comes first)" % (q, nm),
                       construct="%s under %s" % (short(c, 40), sorted(t for t, p_ in gs if "isinstance" in t or "callable" in t)))


def run(cx):
    repo = cx.repo
    cx.extra["explanation"] = ("C20: reconstruction of the code template of both to_pyfunc generators per class and agreement with the connective used by the class's test(); exhaustive dispatch over "
                               "Boolean subclasses; catch-all -> False around every user callable and around the generated body; set-type lint and shape rules for document order, roots de-dup and level semantics.")
    cx.undecided = ["exact node sets for all trees/queries", "INFO: negation of a *raising* predicate differs between interpreted (True) and compiled (False) form; the property restricts agreement to non-raising predicates",
                    "INFO: compiled caseless leaves call value.lower() unguarded while the interpreted form guards with isinstance(str)", "INFO: an empty All()/Any() compiles to '()' (falsy) but interprets as all([])/any([])"]
    anchor = [repo.module(QB), repo.module(QI)]
    mods = repo.all_modules() if cx.tier == "thorough" else anchor
    cx.guard(r1_agreement, mods)
    cx.guard(r2_raising)
    cx.guard(r3_order)
    cx.guard(r4_levels)
    cx.guard(r5_persistent_expressions, mods)
    cx.guard(r6_one_compiler)
    cx.guard(r7_predicates_reusable)
