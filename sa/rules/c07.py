"""C07 - filtered specs keep exactly the lines that match a registered filter."""
import ast

from ..model import (AnalysisError, FUNC_TYPES, U, call_attr, call_name, dotted, enclosing, enclosing_function, guard_texts, guards_ex,
                     short, walk_body, walk_local, ancestors, parent, const_str, kwarg)
from .. import feat
from . import cleaner_shape as shape
from ..util import params, find_calls, assigns_to, trace, stmt_of, has_exit, syn_dominates, line_loop, some_truthy
from ..cfg import handler_names, is_catch_all
from . import c06

FL = "insights.core.filters"
SF = "insights.core.spec_factory"
CF = "insights.cleaner.filters"
DICT_MUTATORS = ("update", "pop", "clear", "setdefault", "popitem", "__setitem__", "__delitem__")


def _writes_global(fn, name):
    """Statements in ``fn`` (not nested defs) that mutate the module-level dict ``name``."""
    out = []
    for n in walk_body(fn.body):
        if isinstance(n, (ast.Assign, ast.AugAssign, ast.Delete)):
            tg = n.targets if not isinstance(n, ast.AugAssign) else [n.target]
            for t in tg:
                if isinstance(t, ast.Subscript) and U(t.value) == name:
                    out.append(n)
        elif isinstance(n, ast.Call) and isinstance(n.func, ast.Attribute) and n.func.attr in DICT_MUTATORS:
            base = n.func.value
            if U(base) == name or (isinstance(base, ast.Subscript) and U(base.value) == name):
                out.append(n)
    return out


def r1_cache(cx, mods):
    cx.rule("C07.R1", "every writer of FILTERS invalidates the whole memo of effective filters", floor=3)
    m = cx.repo.module(FL)
    gf = m.func("get_filters", "C07.R1")
    # the memo and its read-set
    memo_fill = [a for a in walk_body(gf.body) if isinstance(a, ast.Assign) and any(isinstance(t, ast.Subscript) and U(t.value) == "_CACHE" for t in a.targets)]
    if not memo_fill:
        cx.info(gf, "get_filters no longer memoises in _CACHE: nothing to invalidate")
        cx.ok(gf, "no memo: look-ups always recompute", construct="def get_filters (no _CACHE store)")
        return
    inner = [n for n in gf.body if isinstance(n, FUNC_TYPES)]
    recursive = bool(inner) and any(call_name(c) == inner[0].name for c in find_calls(inner[0].body)) and any("get_dependents" in U(c) for c in find_calls(inner[0].body))
    cx.require(recursive, memo_fill[0], "memo value = FILTERS of the component and, recursively, of all its dependents (read-set is transitive)",
               construct=short(memo_fill[0]))
    writers = []
    for q, fn in m.functions():
        ws = _writes_global(fn, "FILTERS")
        if ws:
            writers.append((q, fn, ws))
    if not writers:
        cx.error("no writer of FILTERS found in insights.core.filters")
    for q, fn, ws in writers:
        inv = []
        partial = []
        for n in walk_body(fn.body):
            if isinstance(n, ast.Call) and U(n.func) == "_CACHE.clear":
                inv.append(n)
            elif isinstance(n, ast.Assign) and any(U(t) == "_CACHE" for t in n.targets) and any(isinstance(g, ast.Global) and "_CACHE" in g.names for g in walk_body(fn.body)):
                inv.append(n)
            elif isinstance(n, ast.Delete) and any(isinstance(t, ast.Subscript) and U(t.value) == "_CACHE" for t in n.targets):
                partial.append(n)
            elif isinstance(n, ast.Call) and U(n.func) in ("_CACHE.pop",):
                partial.append(n)
        full = [n for n in inv if not guard_texts(n) and enclosing(n, (ast.For, ast.While, ast.Try)) is None]
        if full:
            cx.ok(full[0], "writer %s of FILTERS clears the whole memo unconditionally" % q, construct="%s: %s" % (q, short(full[0])))
        elif inv:
            cx.bad(inv[0], "writer %s of FILTERS clears the memo only conditionally" % q, construct="%s: %s" % (q, short(stmt_of(inv[0]))))
        elif partial:
            cx.bad(partial[0], "writer %s of FILTERS drops only one memo entry: the memo of every datasource this component depends on (its registry point's implementations) stays stale" % q,
                   construct="%s: %s" % (q, short(stmt_of(partial[0]))))
        else:
            cx.bad(ws[0], "writer %s of FILTERS does not invalidate the memo of effective filters at all" % q, construct="%s: %s" % (q, short(stmt_of(ws[0]) if not isinstance(ws[0], ast.stmt) else ws[0])))
    # writers in other modules
    for mm in mods:
        if mm.name == FL:
            continue
        for n in ast.walk(mm.tree):
            hit = False
            if isinstance(n, (ast.Assign, ast.Delete)):
                for t in n.targets:
                    if isinstance(t, ast.Subscript) and U(t.value) in ("filters.FILTERS", "insights.core.filters.FILTERS"):
                        hit = True
            if isinstance(n, ast.Call) and isinstance(n.func, ast.Attribute) and n.func.attr in DICT_MUTATORS and "filters.FILTERS" in U(n.func.value):
                hit = True
            if hit:
                cx.bad(n, "FILTERS is written outside insights.core.filters without going through add_filter/loads (memo not invalidated)")


def r1b_loads_keys(cx):
    """'registered so far ... no matter in which order registrations and look-ups happened': a filters file read before the module defining a spec was
    imported must still attach its filters to that spec.  loads() therefore resolves every name with the *importing* resolver dr.get_component; a
    look-up among already loaded components parks the filters under a string key that get_filters never consults."""
    cx.rule("C07.R1", "every writer of FILTERS invalidates the whole memo of effective filters", floor=2)
    m = cx.repo.module(FL)
    fn = m.func("loads", "C07.R1")
    stores = [a for a in walk_body(fn.body) if isinstance(a, ast.Assign) and isinstance(a.targets[0], ast.Subscript) and U(a.targets[0].value) == "FILTERS"]
    if not stores:
        cx.bad(fn, "loads stores the loaded filters into FILTERS", construct="(no store into FILTERS)")
        return
    for a in stores:
        key = a.targets[0].slice
        res = [c for c in ast.walk(trace(key, fn) if isinstance(key, ast.Name) else key) if isinstance(c, ast.Call)]
        names = [call_name(c) for c in res]
        ok = any(n in ("dr.get_component", "get_component") for n in names)
        cx.require(ok, a, "loads keys FILTERS by the component that dr.get_component(name) returns (importing its module if need be)", construct=short(a, 90))


STOP_CONDITIONS = set(["hasattr(c, 'filterable') and c.filterable is False", "not ENABLED", "not plugins.is_datasource(c)"])


def r2_union_walk(cx):
    cx.rule("C07.R2", "the effective filter set is the union over the component and all its dependents; registration reaches every filterable datasource", floor=7)
    m = cx.repo.module(FL)
    gf = m.func("get_filters", "C07.R2")
    inner = [n for n in gf.body if isinstance(n, FUNC_TYPES)]
    if not inner:
        cx.unknown(gf, "get_filters has no inner walk function")
        return
    inner = inner[0]
    c = params(inner)[0]
    acc = params(inner)[1] if len(params(inner)) > 1 else "filters"
    # stop conditions: every early "return filters" before the merge; a disjunction counts as one stop per disjunct
    stops = [s for s in inner.body if isinstance(s, ast.If) and s.body and isinstance(s.body[-1], ast.Return)]

    def _norm(e):
        t = U(e)
        if c != "c":
            import re as _re
            t = _re.sub(r"\b%s\b" % _re.escape(c), "c", t)
        return t
    for s in stops:
        disj = s.test.values if isinstance(s.test, ast.BoolOp) and isinstance(s.test.op, ast.Or) else [s.test]
        for dj in disj:
            t = _norm(dj)
            if t in STOP_CONDITIONS:
                cx.ok(s, "stop condition of the walk is one of the three documented ones", construct="if %s: return" % t)
            elif " in seen" in t or " in visited" in t:
                cx.ok(s, "cycle guard", construct="if %s: return" % t)
            else:
                cx.bad(s, "the walk over dependents stops only for non-filterable, disabled or non-datasource components; an extra stop condition drops registered filters from the union",
                       construct="if %s: return" % t)
    upd = [x for x in find_calls(inner.body, attr="update") if U(x.func.value) == acc and x.args and U(x.args[0]) == "FILTERS[%s]" % c]
    if not upd:
        cx.bad(inner, "the component's own filters are added to the result", construct="(no filters.update(FILTERS[c]))")
    for x in upd:
        g = set((U(e), p) for e, p, o in guards_ex(x) if o == "nest")
        cx.require(g <= set([("%s in FILTERS" % c, True)]), x, "own filters are merged whenever the component has any (no further condition)")
    loops = [s for s in inner.body if isinstance(s, ast.For) and "get_dependents(%s)" % c in U(s.iter)]
    if not loops:
        cx.bad(inner, "the walk recurses over dr.get_dependents(c)", construct="(no loop over get_dependents)")
    for lp in loops:
        rec = [x for x in find_calls(lp.body) if call_name(x) == inner.name and x.args and U(x.args[0]) == U(lp.target)]
        merged = [x for x in find_calls(lp.body, attr="update") if U(x.func.value) == acc]
        ok = bool(rec) and not has_exit(lp.body) and not guard_texts(rec[0], stop=lp) and (bool(merged) or any(U(a) == acc for a in rec[0].args[1:]))
        cx.require(ok, lp, "every dependent is walked and merged, without filter or early exit", construct="for %s in %s: %s" % (U(lp.target), U(lp.iter), short(lp.body[0], 80)))
    # the memo is returned as a set of keys / dict
    # add_filter
    af = m.func("add_filter", "C07.R2")
    gdd = [n for n in af.body if isinstance(n, FUNC_TYPES) and n.name == "get_dependency_datasources"]
    if not gdd:
        cx.unknown(af, "add_filter has no get_dependency_datasources helper")
    else:
        g = gdd[0]
        p = params(g)[0]
        loops = [s for s in walk_body(g.body) if isinstance(s, ast.For)]
        ok = bool(loops) and "get_dependencies(%s)" % p in U(loops[0].iter) and not has_exit(loops[0].body) and any(call_name(x) == g.name for x in find_calls(loops[0].body)) \
            and not any(guard_texts(x, stop=loops[0]) for x in find_calls(loops[0].body) if call_name(x) == g.name)
        what = short(loops[0], 120) if loops else "def get_dependency_datasources"
        if not ok:
            # iterative form: work list seeded with the component; a datasource is collected, anything else pushes all its dependencies;
            # the only thing that may be skipped is a node already visited
            wl = feat.worklist_walk(g)
            if wl is not None and wl["start"] == p:
                cur = wl["cur"]
                seen_ok = lambda gs: all(t.startswith("%s in " % cur) or t.startswith("%s not in " % cur) for t, pol in gs if t != "plugins.is_datasource(%s)" % cur)
                push = [pp for pp in wl["pushes"] if U(pp[0]).endswith("get_dependencies(%s)" % cur)]
                adds = [x for x in find_calls(wl["loop"].body, attr="add") if [U(a) for a in x.args] == [cur] and ("plugins.is_datasource(%s)" % cur, True) in set(guard_texts(x, stop=wl["loop"]))]
                ok = len(push) == 1 and len(wl["pushes"]) == 1 and ("plugins.is_datasource(%s)" % cur, False) in push[0][1] and seen_ok(push[0][1]) \
                    and len(adds) == 1 and seen_ok(set(guard_texts(adds[0], stop=wl["loop"]))) and all(seen_ok(sk) and sk for sk in wl["skips"]) \
                    and not [r_ for r_ in walk_body(wl["loop"].body) if isinstance(r_, (ast.Break, ast.Return))]
                rets = [r_ for r_ in g.body if isinstance(r_, ast.Return)]
                ok = ok and len(rets) == 1 and bool(adds) and U(rets[0].value) == U(adds[0].func.value)
                what = "while %s: %s = %s.pop(); datasource -> collected, else push get_dependencies(%s)" % (wl["work"], cur, wl["work"], cur)
        cx.require(ok, g, "a filter on a parser/combiner is propagated down every dependency path to the first datasources", construct=what)
    inn = [n for n in af.body if isinstance(n, FUNC_TYPES) and n.name == "inner"]
    reg_calls = [x for x in find_calls(af.body) if call_name(x) == "inner"]
    loop_calls = [x for x in reg_calls if enclosing(x, ast.For) is not None]
    ok = False
    if loop_calls:
        lp = enclosing(loop_calls[0], ast.For)
        src = trace(lp.iter, af)
        ok = isinstance(src, ast.ListComp) and U(src.elt) == U(src.generators[0].target) and [U(i) for i in src.generators[0].ifs] == ["dr.get_delegate(%s).filterable" % U(src.generators[0].target)] \
            and not has_exit(lp.body) and U(loop_calls[0].args[0]) == U(lp.target)
    cx.require(ok, loop_calls[0] if loop_calls else af, "the filter is registered on every filterable dependency datasource", construct=short(enclosing(loop_calls[0], ast.For), 120) if loop_calls else "(no loop)")
    if inn:
        fn = inn[0]
        comp = params(fn)[0]
        st = [x for x in find_calls(fn.body, attr="update") if U(x.func.value) == "FILTERS[%s]" % comp]
        pd = [a for a in walk_body(fn.body) if isinstance(a, ast.Assign) and isinstance(a.value, ast.Call) and call_name(a.value) == "dict" and a.value.args and isinstance(a.value.args[0], (ast.GeneratorExp, ast.ListComp))
              and not a.value.args[0].generators[0].ifs]
        pd += [a for a in walk_body(fn.body) if isinstance(a, ast.Assign) and isinstance(a.value, ast.Call) and call_name(a.value) == "dict.fromkeys" and len(a.value.args) == 2]
        ok = len(st) == 1 and bool(pd) and not [1 for e, p_, o in guards_ex(st[0]) if o != 'exit-raise']
        cx.require(ok, st[0] if st else fn, "every given pattern is stored under FILTERS[component] (merged with the existing ones)", construct=short(st[0]) if st else "(no FILTERS[comp].update)")
        # 'no matching line is dropped unless a filter's match budget is used up ... no matter in which order registrations happened': a filter string
        # registered twice keeps the LARGER budget (None = unlimited): the value stored must come out of a max() over the old and the new budget
        if st:
            nested = dict((f_.name, f_) for f_ in ast.walk(af) if isinstance(f_, FUNC_TYPES) and f_ is not af)
            todo, seen_, uses_max = [st[0]], set(), False
            while todo:
                e_ = todo.pop()
                for c_ in [x for x in ast.walk(e_) if isinstance(x, ast.Call)]:
                    nm_ = call_name(c_)
                    if nm_ == "max":
                        uses_max = True
                    if nm_ in nested and nm_ not in seen_:
                        seen_.add(nm_)
                        todo.append(nested[nm_])
                for n_ in [x for x in ast.walk(e_) if isinstance(x, ast.Name) and isinstance(x.ctx, ast.Load)]:
                    for d_ in assigns_to(fn, n_.id):
                        if id(d_) not in seen_ and getattr(d_, "value", None) is not None:
                            seen_.add(id(d_))
                            todo.append(d_.value)
            cx.require(uses_max, st[0], "a filter registered again keeps the larger of the two match budgets (max over old and new), whichever came first", construct=short(st[0], 90))


def r3_prefilter(cx):
    cx.rule("C07.R3", "the host-side pre-filter is a fixed-string grep whose pattern argument cannot be parsed as an option; all matching is substring containment", floor=6)
    sf = cx.repo.module(SF)
    for cname in ("TextFileProvider", "CommandOutputProvider"):
        fn = sf.func("%s.create_args" % cname, "C07.R3")
        lists = [n for n in walk_body(fn.body) if isinstance(n, ast.List) and n.elts and const_str(n.elts[0]) == "grep"]
        if not lists:
            # the argv may be built by a shared method: self.<m>(<targets>) returning  <constant prefix> + [<patterns>] + list(<targets>).  Its value is
            # folded into one list display (constants from module constants, the helper's single-assignment locals substituted, *targets from the call)
            cls_ = sf.get(cname) if sf.has(cname) else None
            for c_ in [x for x in find_calls(fn.body) if isinstance(x.func, ast.Attribute) and U(x.func.value) == "self" and cls_ is not None]:
                k_, meth = cx.repo.lookup_method(cls_, c_.func.attr)
                if meth is None or not meth.args.vararg or meth.args.kwarg or len(meth.args.args) != 1 or c_.keywords:
                    continue
                rets_ = [r_ for r_ in walk_body(meth.body) if isinstance(r_, ast.Return)]
                if len(rets_) != 1:
                    continue
                elts, okf = [], True

                def _flat(e_):
                    global_ok = True
                    if isinstance(e_, ast.BinOp) and isinstance(e_.op, ast.Add):
                        return _flat(e_.left) and _flat(e_.right)
                    if isinstance(e_, ast.Call) and call_name(e_) in ("list", "tuple") and len(e_.args) == 1:
                        return _flat(e_.args[0])
                    if isinstance(e_, ast.Name) and e_.id == meth.args.vararg.arg:
                        elts.extend(c_.args)
                        return True
                    if isinstance(e_, ast.Name):
                        v_ = feat.resolve_const(sf, meth, e_)
                        return v_ is not e_ and _flat(v_)
                    if isinstance(e_, (ast.List, ast.Tuple)):
                        for x_ in e_.elts:
                            if isinstance(x_, ast.Name):
                                x_ = feat.resolve_const(sf, meth, x_)
                            elts.append(x_)
                        return True
                    return False
                if _flat(rets_[0].value) and elts and const_str(elts[0]) == "grep":
                    lst_ = ast.List(elts=elts, ctx=ast.Load())
                    ast.copy_location(lst_, c_)
                    lists.append(lst_)
        if not lists:
            cx.bad(fn, "%s.create_args builds a grep pre-filter" % cname, construct="(no ['grep', ...] argv)")
            continue
        for lst in lists:
            consts = [const_str(e) for e in lst.elts]
            cx.require("-F" in consts and not any(c in ("-E", "-P", "-G", "-e=") for c in consts if c), lst,
                       "grep runs with -F (fixed strings: regex metacharacters in filters are literal)", construct=short(lst, 140))
            # the pre-filter may only drop lines no filter matches: every option that limits or inverts the selection (-m/--max-count, -v, -x, -w, -i, -c, -l, -o ...)
            # changes which matching lines survive (grep -m keeps the FIRST matches, the budgets are spent from the bottom)
            opts = [c for c in consts if c and c.startswith("-") and c != "--"]
            dyn_opts = [e for i_, e in enumerate(lst.elts[1:], 1) if consts[i_] is None and not (isinstance(e, ast.Call) and call_attr(e) == "join") and U(e) != "self.path"]
            cx.require(set(opts) <= set(["-F", "-e"]) and not dyn_opts, lst, "grep gets no option besides -F and -e (nothing that limits, inverts or reshapes the selection)",
                       construct="options %s%s" % (opts, " + computed arguments %s" % [short(e, 40) for e in dyn_opts] if dyn_opts else ""))
            pat_idx = [i for i, e in enumerate(lst.elts) if isinstance(e, ast.Call) and call_attr(e) == "join" and "self._filters" in U(e)]
            if not pat_idx:
                cx.unknown(lst, "cannot find the joined pattern argument")
                continue
            i = pat_idx[0]
            protected = (i > 0 and consts[i - 1] == "-e") or "--" in consts[:i]
            cx.require(protected, lst, "the pattern list is passed with -e (or after --), so a filter starting with '-' is not parsed as an option",
                       construct=short(lst, 140))
            pe = lst.elts[i]
            cx.require(const_str(pe.func.value) == "\n" and "self._filters" in U(pe.args[0]), lst, "all registered filter strings are passed, newline separated",
                       construct=short(pe, 100))
    # substring containment everywhere, no regular expressions
    sites = [(cx.repo.module(CF), "AllowFilter.parse_line"), (cx.repo.module(CF), "AllowFilter.filter_content"), (sf, "find.__call__"), (cx.repo.module(FL), "apply_filters")]
    for m, q in sites:
        fn = m.func(q, "C07.R3")
        cmps = [n for n in walk_body(fn.body) if isinstance(n, ast.Compare) and len(n.ops) == 1 and isinstance(n.ops[0], (ast.In, ast.NotIn)) and
                not (isinstance(parent(n), ast.comprehension))]
        cmps = [n for n in cmps if any(k in U(n.left) for k in ("a_key", "p", "f", "key"))]
        uses_re = [x for x in find_calls(fn.body) if (call_name(x) or "").startswith("re.") or call_attr(x) in ("search", "match", "fullmatch", "findall")]
        cx.require(bool(cmps) and not uses_re, fn, "%s matches by substring containment (no regular expression)" % q,
                   construct="%s: %s" % (q, short(cmps[0]) if cmps else short(uses_re[0]) if uses_re else "(no containment test)"))


def r4_refusal(cx, classes):
    cx.rule("C07.R4", "a filterable spec without filters is refused on a host on every provider constructor path", floor=10)
    sf = cx.repo.module(SF)
    for c in classes:
        if c.name in ("ContentProvider", "DatasourceProvider"):
            continue
        ok, why, node = c06.init_chain_calls_validate(cx, c)
        cx.require(ok, node, "constructing %s always runs validate(): %s" % (c.name, why), construct="%s: %s" % (c.name, why))
    host = ("isinstance(self.ctx, HostContext)", True)
    for cname in ("FileProvider", "CommandOutputProvider"):
        fn = sf.func("%s.validate" % cname, "C07.R4")
        raises = [r for r in walk_body(fn.body) if isinstance(r, ast.Raise) and r.exc is not None and "NoFilterException" in U(r.exc)]
        if not raises:
            cx.bad(fn, "%s.validate refuses a filterable spec without filters (NoFilterException)" % cname, construct="(no raise NoFilterException)")
        for r in raises:
            g = guards_ex(r)
            atoms = set((U(e), p) for e, p, o in g if o in ("nest", "exit-return", "exit-jump"))
            want = set([host, ("self._filterable", True), ("self._filters", False)])
            harmful = [(U(e), p, o) for e, p, o in g if (U(e), p) not in want and o != "exit-raise"]
            cx.require(want <= atoms and not harmful, r, "under HostContext, 'filterable and no filters' alone leads to NoFilterException",
                       construct="raise NoFilterException guarded by %s" % sorted((U(e), p) for e, p, o in g if o != "exit-raise"))


    c06.filterable_provenance(cx, sf, "C07.R4")


def r5_never_swallowed(cx, mods):
    cx.rule("C07.R5", "NoFilterException raised while building a provider is never swallowed by a factory", floor=7)
    sf = cx.repo.module(SF)
    for q, c in sf.classes():
        call = [st for st in c.body if isinstance(st, FUNC_TYPES) and st.name == "__call__"]
        if not call:
            continue
        for tr in [n for n in walk_body(call[0].body) if isinstance(n, ast.Try)]:
            ctor = [x for x in find_calls(tr.body) if U(x.func) == "self.kind" or (isinstance(x.func, ast.Name) and x.func.id.endswith("Provider"))]
            if not ctor:
                continue
            broad = [i for i, h in enumerate(tr.handlers) if h.type is None or set(handler_names(h)) & set(["Exception", "BaseException"])]
            if not broad:
                cx.ok(tr, "%s.__call__: no broad handler around provider construction" % q, construct="try: %s" % short(ctor[0], 60))
                continue
            nf = [i for i, h in enumerate(tr.handlers) if "NoFilterException" in handler_names(h)]
            ok = bool(nf) and nf[0] < broad[0]
            if ok:
                h = tr.handlers[nf[0]]
                ok = any(isinstance(s, ast.Raise) and (s.exc is None or U(s.exc) == h.name) for s in h.body) and not any(isinstance(s, (ast.Return, ast.Continue, ast.Break, ast.Pass)) for s in h.body)
            cx.require(ok, tr, "%s.__call__ re-raises NoFilterException before its broad handler (otherwise the refusal is silently turned into 'no content')" % q,
                       construct="%s.__call__: handlers %s" % (q, [",".join(handler_names(h)) for h in tr.handlers]))


def r6_gating(cx):
    cx.rule("C07.R6", "pre-filter on the host, post-filter during analysis, allow-list passed iff filterable", floor=5)
    sf = cx.repo.module(SF)
    host = "isinstance(self.ctx, HostContext)"
    ld = sf.func("TextFileProvider.load", "C07.R6")
    fc = [x for x in find_calls(ld.body, attr="filter_content")]
    if not fc:
        cx.bad(ld, "TextFileProvider.load post-filters content during analysis (AllowFilter.filter_content)", construct="(no filter_content call)")
    for x in fc:
        g = guard_texts(x)
        ok = g - set([("args", False)]) == set([(host, False), ("self._filters", True)]) and U(x.args[1]) == "self._filters"      # 'if args: return <command output>' comes first
        cx.require(ok, x, "post-filtering runs exactly when not on a host and filters exist (no further switch), with the provider's filter table",
                   construct="filter_content guarded by %s" % sorted(g))
        a = stmt_of(x)
        cx.require(isinstance(a, ast.Assign) and U(a.targets[0]) == U(x.args[0]), a, "the filtered result replaces the content that is returned")
    ca = sf.func("TextFileProvider.create_args", "C07.R6")
    ap = [x for x in find_calls(ca.body, attr="append")]
    for x in ap:
        g = guard_texts(x)
        cx.require((host, True) in g and ("self._filters", True) in g, x, "file pre-filtering runs exactly on a host with filters", construct="args.append([...grep...]) guarded by %s" % sorted(g))
    cc = sf.func("CommandOutputProvider.create_args", "C07.R6")
    ap = [x for x in find_calls(cc.body, attr="append")]
    for x in ap:
        g = guard_texts(x)
        cx.require(g == set([("self.split", True), ("self._filters", True)]), x, "command pre-filtering runs whenever output is split into lines and filters exist",
                   construct="command.append([...grep...]) guarded by %s" % sorted(g))
    cl = sf.func("ContentProvider._clean_content", "C07.R6")
    call = [x for x in find_calls(cl.body, attr="clean_content")]
    ok, cases = False, None
    if call and kwarg(call[0], "allowlist") is not None:
        av = kwarg(call[0], "allowlist")
        want = set([(frozenset([("self._filterable", True)]), "self._filters"), (frozenset([("self._filterable", False)]), "None")])
        if isinstance(av, ast.Name):
            cases = feat.value_cases(cl, av.id, before=call[0], common=guard_texts(call[0]))
        elif isinstance(av, ast.IfExp):
            cases = set([(frozenset([(U(av.test), True)]), U(av.body)), (frozenset([(U(av.test), False)]), U(av.orelse))])
        ok = cases == want
    cx.require(ok, call[0] if call else cl, "the cleaner receives the provider's filters as allow-list iff the spec is filterable",
               construct="allowlist cases: %s" % (sorted((sorted(g), v) for g, v in cases) if cases else None))


def r7_copy_before_mutation(cx, mods):
    cx.rule("C07.R7", "budget bookkeeping never writes back into the shared (memoised) filter table", floor=4)
    cf = cx.repo.module(CF)
    fc = cf.func("AllowFilter.filter_content", "C07.R7")
    al = params(fc)[1]
    muts = [n for n in walk_body(fc.body) if (isinstance(n, ast.AugAssign) and isinstance(n.target, ast.Subscript) and U(n.target.value) == al) or
            (isinstance(n, ast.Call) and isinstance(n.func, ast.Attribute) and U(n.func.value) == al and n.func.attr in DICT_MUTATORS)]
    cp = [a for a in fc.body if isinstance(a, ast.Assign) and U(a.targets[0]) == al and U(a.value) in ("dict(%s)" % al, "%s.copy()" % al, "dict(%s.items())" % al)]
    if muts:
        cx.require(bool(cp) and all(syn_dominates(cp[0], mu) for mu in muts), muts[0], "filter_content decrements budgets on a private copy of the filter table",
                   construct="%s ... %s" % (short(cp[0]) if cp else "(no copy)", short(muts[0])))
    else:
        cx.ok(fc, "filter_content does not mutate the filter table", construct="def filter_content")
    cm = cx.repo.module("insights.cleaner")
    cc = cm.func("Cleaner.clean_content", "C07.R7")
    passes = [n for n in walk_body(cc.body) if isinstance(n, ast.Dict) and any(const_str(k) == "allowlist" for k in n.keys if k is not None)]
    ok = bool(passes)
    for d in passes:
        v = [vv for k, vv in zip(d.keys, d.values) if const_str(k) == "allowlist"][0]
        ok = ok and U(v) in ("dict(allowlist)", "allowlist.copy()")
    cx.require(ok, passes[0] if passes else cc, "clean_content hands the allow-list parser a private copy (its parse_line decrements and pops budgets)",
               construct=short(passes[0]) if passes else "(allowlist not passed as kwargs dict)")
    # nobody mutates self._filters in place; get_filters returns the memo itself with with_matches=True
    sf = cx.repo.module(SF)
    bad = []
    for n in ast.walk(sf.tree):
        if isinstance(n, (ast.AugAssign, ast.Assign, ast.Delete)):
            tg = n.targets if not isinstance(n, ast.AugAssign) else [n.target]
            for t in tg:
                if isinstance(t, ast.Subscript) and U(t.value).endswith("._filters"):
                    bad.append(n)
        if isinstance(n, ast.Call) and isinstance(n.func, ast.Attribute) and n.func.attr in DICT_MUTATORS and U(n.func.value).endswith("._filters"):
            bad.append(n)
    cx.require(not bad, bad[0] if bad else sf.tree.body[0], "no provider mutates its _filters table in place (it is the memoised dict returned by get_filters)",
               construct=short(bad[0]) if bad else "no in-place mutation of ._filters in spec_factory")
    # parse_line mutates only what it is given through kwargs
    pl = cf.func("AllowFilter.parse_line", "C07.R7")
    src = [a for a in walk_body(pl.body) if isinstance(a, ast.Assign) and U(a.targets[0]) == "allowlist"]
    cx.require(len(src) == 1 and U(src[0].value).startswith("kwargs.get('allowlist'"), src[0] if src else pl, "parse_line works on the allow-list handed in by clean_content",
               construct=short(src[0]) if src else "(none)")


def r8_bottom_up(cx):
    cx.rule("C07.R8", "post-filter scans bottom-up, keeps at most one copy of each line, and restores the original order", floor=3)
    cf = cx.repo.module(CF)
    fc = cf.func("AllowFilter.filter_content", "C07.R8")
    lines = params(fc)[0]
    loops = [s for s in fc.body if isinstance(s, ast.For)]
    if not loops:
        cx.unknown(fc, "no line loop")
        return
    lp = loops[0]
    order, cur = line_loop(lp, lines)
    apps = [x for x in find_calls(lp.body, attr="append")]
    ok_app = len(apps) == 1 and cur is not None and U(apps[0].args[0]) == cur
    cx.require(ok_app, apps[0] if apps else lp, "a kept line is the original line, appended once", construct=short(apps[0]) if apps else "(no append)")
    if apps:
        inner = enclosing(apps[0], ast.For)
        one = inner is lp or any(isinstance(s, ast.Break) and syn_dominates(stmt_of(apps[0]), s) for s in walk_body(inner.body))
        cx.require(one, apps[0], "at most one append per input line (the key loop is left after the first matching key)")
        g = guard_texts(apps[0], stop=lp)
        cx.require(cur is not None and any((" in %s" % cur) in t and p for t, p in g), apps[0], "a line is kept only if it contains a filter string")
    revs = [x for x in find_calls(fc.body, attr="reverse")]
    rets = [r for r in fc.body if isinstance(r, ast.Return)]
    if order == "desc":
        ok = len(revs) == 1 and enclosing(revs[0], (ast.For, ast.If)) is None and bool(rets) and U(rets[0].value) == U(revs[0].func.value) and syn_dominates(stmt_of(revs[0]), rets[0])
        if not ok and bool(rets) and apps:
            ok = not revs and U(rets[0].value) in ("%s[::-1]" % U(apps[0].func.value), "list(reversed(%s))" % U(apps[0].func.value))
        cx.require(ok, revs[0] if revs else fc, "lines are scanned bottom-up (the last matches use the budget first) and the result is reversed exactly once before it is returned",
                   construct="for %s in %s ... reverse once; return" % (U(lp.target), U(lp.iter)))
    elif order == "asc":
        cx.bad(lp, "lines are scanned bottom-up so that the last line matching each filter is always within the budget", construct="for %s in %s" % (U(lp.target), U(lp.iter)))
    else:
        cx.unknown(lp, "iteration order of the line loop not recognised")


def r8b_cleaner_bottom_up(cx):
    """The host-side allow-list stage (AllowFilter.parse_line) consumes budgets in the order
    Cleaner.clean_content feeds it lines: that must be bottom-up as well."""
    cx.rule("C07.R8", "post-filter scans bottom-up, keeps at most one copy of each line, and restores the original order", floor=3)
    cm = cx.repo.module("insights.cleaner")
    cc = cm.func("Cleaner.clean_content", "C07.R8")
    lines = params(cc)[1]
    shape.ensure_line_loop(cc, lines)
    loops = [s for s in cc.body if isinstance(s, ast.For) and line_loop(s, lines)[0] is not None]
    if not loops:
        cx.unknown(cc, "no loop over the lines in clean_content")
        return
    order, cur = line_loop(loops[0], lines)
    cx.require(order == "desc", loops[0],
               "clean_content feeds lines to the allow-list stage bottom-up (the last line matching each filter is within the budget)",
               construct="for %s in %s" % (U(loops[0].target), U(loops[0].iter)))


def run(cx):
    repo = cx.repo
    cx.extra["explanation"] = ("C07: effect/read-set analysis of the filter memo (every FILTERS writer must clear it), union walk and registration propagation, argv rule for the grep pre-filter, "
                               "refusal without filters on every constructor path, NoFilterException never swallowed (sibling agreement over factories), context gating, copy-before-mutation of budgets, bottom-up scan shape.")
    cx.undecided = ["sub-sequence / last-match / budget semantics of filter_content and AllowFilter.parse_line for all contents (value level)"]
    anchor = [repo.module(FL), repo.module(SF), repo.module(CF), repo.module("insights.cleaner")]
    mods = repo.all_modules() if cx.tier == "thorough" else anchor
    classes = c06.provider_classes(cx, mods)
    cx.guard(r1_cache, mods)
    cx.guard(r1b_loads_keys)
    cx.current = cx.rule("C07.R2", "the effective filter set is the union over the component and all its dependents; registration reaches every filterable datasource", floor=7)
    cx.guard(feat.check_no_module_level_one_shots, [repo.module(FL), repo.module(SF), repo.module(CF)], "filter tables and helpers")
    cx.guard(r2_union_walk)
    cx.guard(r3_prefilter)
    cx.guard(r4_refusal, classes)
    cx.guard(r5_never_swallowed, mods)
    cx.guard(r6_gating)
    cx.guard(r7_copy_before_mutation, mods)
    cx.guard(r8_bottom_up)
    cx.guard(r8b_cleaner_bottom_up)
