"""C19 - parser combinators implement ordered-choice PEG semantics (position-threading protocol)."""
import ast

from ..model import (AnalysisError, FUNC_TYPES, U, call_attr, call_name, dotted, enclosing, enclosing_function, guard_texts, short, walk_body, parent, const_str, kwarg)
from ..cfg import CFG
from ..util import params, find_calls, stmt_of, has_exit, syn_dominates, assigns_to
from ..posflow import facts_of
from .. import feat

PS = "insights.parsr"
CORE = ["Sequence", "Lift", "Choice", "Many", "Until", "FollowedBy", "NotFollowedBy", "KeepLeft", "KeepRight", "Opt", "Map",
        "Char", "InSet", "AnyChar", "String", "Literal", "EOF", "Wrapper", "Forward"]
CTX_OK = ("set", "line", "col")


def _fmt(s):
    return "{" + ", ".join(sorted(s)) + "}"


def chk(cx, ok, node, what, construct):
    cx.require(ok, node, what, construct=construct)


def r1_threading(cx):
    cx.rule("C19.R1", "position-threading protocol of every core combinator", floor=45)
    m = cx.repo.module(PS)
    F = {}
    for name in CORE:
        fn = m.func("%s.process" % name, "C19.R1")
        F[name] = (fn, facts_of(fn))

    # ---- Sequence / Lift -------------------------------------------------------
    for name in ("Sequence", "Lift"):
        fn, f = F[name]
        c = f.calls
        ok = len(c) == 1 and c[0]["in_loop"] and not c[0]["in_try"]
        chk(cx, ok, fn, "%s calls its children in one loop, outside any try (a failing child fails the whole %s)" % (name, name.lower()), "%d child call sites" % len(c))
        if not ok:
            continue
        lp = enclosing(c[0]["node"], ast.For)
        chk(cx, lp is not None and U(lp.iter) == "self.children" and not has_exit(lp.body), lp or fn, "%s visits the children in list order, all of them" % name, "for %s in %s" % (U(lp.target), U(lp.iter)) if lp else "?")
        chk(cx, c[0]["arg"] == set(["P0", "R0"]), c[0]["node"], "%s: each child starts where the previous one stopped (first at the parameter position)" % name, "child position argument origins %s" % _fmt(c[0]["arg"]))
        ap = [a for a in f.appends if a["val"] == set(["V0"])]
        chk(cx, len(ap) >= 1 and enclosing(ap[0]["node"], ast.For) is lp, c[0]["node"], "%s keeps every child's value in order" % name, "results.append(res)")
        rets = f.returns
        okr = len(rets) >= 1 and all(r["pos"] <= set(["P0", "R0"]) and "R0" in r["pos"] for r in rets)
        chk(cx, okr, rets[0]["node"] if rets else fn, "%s returns the position after the last child" % name, "return position origins %s" % [_fmt(r["pos"]) for r in rets])
        if name == "Sequence":
            chk(cx, len(rets) == 1 and rets[0]["valtext"] == ap[0]["target"] if ap else False, rets[0]["node"] if rets else fn, "Sequence returns the list of values", "return value %s" % (rets[0]["valtext"] if rets else "?"))
        else:
            chk(cx, len(rets) == 1 and rets[0]["valtext"] == "self.func(*%s)" % ap[0]["target"] if ap else False, rets[0]["node"] if rets else fn, "Lift returns func(*values) in child order", "return value %s" % (rets[0]["valtext"] if rets else "?"))

    # ---- Choice ----------------------------------------------------------------
    fn, f = F["Choice"]
    c = f.calls
    ok = len(c) == 1 and c[0]["in_loop"] and c[0]["in_try"] and c[0]["returned_directly"]
    chk(cx, ok, fn, "Choice tries each alternative inside a try and returns the first success as is", "%d call sites; returned directly=%s" % (len(c), c[0]["returned_directly"] if c else None))
    if ok:
        chk(cx, c[0]["arg"] == set(["P0"]), c[0]["node"], "every alternative starts at the *parameter* position (a failed alternative leaves no trace on the next one)", "alternative position argument origins %s" % _fmt(c[0]["arg"]))
        lp = enclosing(c[0]["node"], ast.For)
        chk(cx, lp is not None and U(lp.iter) == "self.children", lp or fn, "alternatives are tried in list order", "for %s in %s" % (U(lp.target), U(lp.iter)) if lp else "?")
        tr = enclosing(c[0]["node"], ast.Try)
        hb = [s for h in tr.handlers for s in h.body]
        chk(cx, all(isinstance(s, ast.Pass) for s in hb), tr, "a failing alternative is simply skipped", "handler body: %s" % [short(s) for s in hb])
        after = [r for r in f.raises if not r["in_loop"]]
        chk(cx, len(after) == 1 and not f.returns[1:] if f.returns else False, fn, "when every alternative failed the choice fails", "raise after the loop")

    # ---- Many ------------------------------------------------------------------
    fn, f = F["Many"]
    c = f.calls
    ok = len(c) == 1 and c[0]["in_loop"] and c[0]["in_try"]
    chk(cx, ok, fn, "Many repeats its child in a loop, each attempt inside a try", "%d call sites" % len(c))
    if ok:
        chk(cx, c[0]["arg"] == set(["P0", "R0"]), c[0]["node"], "each repetition starts where the previous one stopped", "origins %s" % _fmt(c[0]["arg"]))
        tr = enclosing(c[0]["node"], ast.Try)
        hb = [s for h in tr.handlers for s in h.body]
        chk(cx, len(hb) == 1 and isinstance(hb[0], ast.Break), tr, "the first failing repetition ends the loop (greedy), leaving the position of the last success", "handler body: %s" % [short(s) for s in hb])
        ap = [a for a in f.appends if a["val"] == set(["V0"])]
        chk(cx, len(ap) >= 1, c[0]["node"], "every successful repetition contributes its value", "results.append(res)")
        lows = [r for r in f.raises if any("self.lower" in t and p for t, p in r["guards"])]
        okl = len(lows) == 1 and ap and set(lows[0]["guards"]) == set([("len(%s) < self.lower" % ap[0]["target"], True)])
        chk(cx, okl, lows[0]["node"] if lows else fn, "fewer than 'lower' repetitions is a failure", "raise guarded by %s" % (sorted(lows[0]["guards"]) if lows else None))
        rets = f.returns
        chk(cx, len(rets) == 1 and rets[0]["pos"] == set(["P0", "R0"]) and ap and rets[0]["valtext"] == ap[0]["target"], rets[0]["node"] if rets else fn, "Many returns the position after the last success and the list of values",
            "return (%s, %s)" % (_fmt(rets[0]["pos"]) if rets else "?", rets[0]["valtext"] if rets else "?"))

    # ---- Until -----------------------------------------------------------------
    fn, f = F["Until"]
    c = f.calls
    pred = [x for x in c if x["discarded"]]
    par = [x for x in c if not x["discarded"]]
    ok = len(pred) == 1 and len(par) == 1
    chk(cx, ok, fn, "Until has a predicate call whose result is unused (peek) and a consuming parser call", "discarded=%d bound=%d" % (len(pred), len(par)))
    if ok:
        pk = "R%d" % par[0]["k"]
        chk(cx, pred[0]["arg"] <= set(["P0", pk]) and par[0]["arg"] <= set(["P0", pk]) and pk in par[0]["arg"], par[0]["node"], "predicate and parser both start at the current position; only the parser advances it",
            "pred origins %s, parser origins %s" % (_fmt(pred[0]["arg"]), _fmt(par[0]["arg"])))
        g = CFG(fn)
        pn, qn = g.stmt_node_containing(pred[0]["node"]), g.stmt_node_containing(par[0]["node"])
        okp = pn is not None and qn is not None and pred[0]["in_try"] and bool(g.exc_succ.get(pn))
        if okp:
            for s0 in g.succ[pn] - g.exc_succ.get(pn, set()):
                if qn in g.reachable(s0, avoid=[pn]):
                    okp = False
        chk(cx, okp, par[0]["node"], "the parser runs only when the predicate failed", "the parser call is not reachable from a successful predicate call (CFG, normal edges)")
        # ... and only then: inside the try that guards the predicate nothing else can take the 'failed' exit (no explicit raise, no other call before it),
        # so that the predicate is really tried at every position
        tr_ = enclosing(pred[0]["node"], ast.Try)
        okq = tr_ is not None
        if okq:
            before = []
            for st_ in tr_.body:
                if any(x_ is pred[0]["node"] for x_ in ast.walk(st_)):
                    break
                before.append(st_)
            okq = not [x_ for st_ in tr_.body for x_ in ast.walk(st_) if isinstance(x_, ast.Raise)] and not [x_ for st_ in before for x_ in ast.walk(st_) if isinstance(x_, (ast.Call, ast.Subscript))] \
                and not guard_texts(pred[0]["node"], stop=tr_)
        chk(cx, okq, tr_ if tr_ is not None else fn, "the predicate is tried at every position: nothing else inside its try can signal 'not yet' (no explicit raise, no fallible statement before the call)",
            "try body of the predicate call")
        rets = f.returns
        chk(cx, len(rets) == 1 and rets[0]["pos"] <= set(["P0", pk]), rets[0]["node"] if rets else fn, "Until returns the position reached by the parser (the predicate consumes nothing)", "return position origins %s" % (_fmt(rets[0]["pos"]) if rets else "?"))

    # ---- FollowedBy / NotFollowedBy -----------------------------------------------
    for name in ("FollowedBy", "NotFollowedBy"):
        fn, f = F[name]
        c = f.calls
        left = [x for x in c if x["callee"] == "left"]
        right = [x for x in c if x["callee"] == "right"]
        ok = len(left) == 1 and len(right) == 1
        chk(cx, ok, fn, "%s calls left then right" % name, "calls: %s" % [x["callee"] for x in c])
        if not ok:
            continue
        lk = left[0]["k"]
        chk(cx, left[0]["arg"] == set(["P0"]) and right[0]["arg"] == set(["R%d" % lk]) and right[0]["discarded"], right[0]["node"], "%s: the look-ahead runs at left's end position and its result is discarded (consumes nothing)" % name,
            "left origins %s, right origins %s, right result discarded=%s" % (_fmt(left[0]["arg"]), _fmt(right[0]["arg"]), right[0]["discarded"]))
        rets = f.returns
        okr = len(rets) == 1 and rets[0]["pos"] == set(["R%d" % lk]) and rets[0]["val"] == set(["V%d" % lk])
        chk(cx, okr, rets[0]["node"] if rets else fn, "%s returns left's position and value" % name, "return (%s, %s)" % (_fmt(rets[0]["pos"]) if rets else "?", _fmt(rets[0]["val"]) if rets else "?"))
        if name == "FollowedBy":
            chk(cx, not right[0]["in_try"], right[0]["node"], "FollowedBy fails when the look-ahead fails (not caught)", "right.process outside try")
        else:
            els = [r for r in f.raises if r.get("in_else")]
            direct = bool(right[0]["in_try"] and rets and rets[0]["in_handler"]) and len(els) == 1
            pv = _lookahead_paths(fn) if not direct and right[0]["in_try"] else None
            chk(cx, direct or (pv is not None and pv[0]), right[0]["node"], "NotFollowedBy succeeds exactly when the look-ahead fails (every path through the except arm returns)",
                "return in handler=%s" % (rets[0]["in_handler"] if rets else None) if pv is None else pv[2])
            chk(cx, direct or (pv is not None and pv[1]), els[0]["node"] if els else fn, "NotFollowedBy fails when the look-ahead succeeds (every path on which it returned normally raises)",
                "raise in else: %d" % len(els) if pv is None else pv[2])

    # ---- KeepLeft / KeepRight ---------------------------------------------------
    for name in ("KeepLeft", "KeepRight"):
        fn, f = F[name]
        c = f.calls
        left = [x for x in c if x["callee"] == "left"]
        right = [x for x in c if x["callee"] == "right"]
        ok = len(left) == 1 and len(right) == 1 and not left[0]["in_try"] and not right[0]["in_try"]
        chk(cx, ok, fn, "%s calls left then right, neither caught" % name, "calls: %s" % [x["callee"] for x in c])
        if not ok:
            continue
        lk, rk = left[0]["k"], right[0]["k"]
        chk(cx, left[0]["arg"] == set(["P0"]) and right[0]["arg"] == set(["R%d" % lk]), right[0]["node"], "%s threads the position left -> right" % name, "left %s, right %s" % (_fmt(left[0]["arg"]), _fmt(right[0]["arg"])))
        rets = f.returns
        want_val = "V%d" % (lk if name == "KeepLeft" else rk)
        okr = len(rets) == 1 and rets[0]["pos"] == set(["R%d" % rk]) and rets[0]["val"] == set([want_val])
        chk(cx, okr, rets[0]["node"] if rets else fn, "%s returns the position after both and the %s value" % (name, "left" if name == "KeepLeft" else "right"),
            "return (%s, %s)" % (_fmt(rets[0]["pos"]) if rets else "?", _fmt(rets[0]["val"]) if rets else "?"))

    # ---- Opt ---------------------------------------------------------------------
    fn, f = F["Opt"]
    c = f.calls
    ok = len(c) == 1 and c[0]["in_try"] and c[0]["returned_directly"] and c[0]["arg"] == set(["P0"])
    chk(cx, ok, fn, "Opt returns its child's success as is, tried at the parameter position", "origins %s" % (_fmt(c[0]["arg"]) if c else "?"))
    hr = [r for r in f.returns if r["in_handler"]]
    chk(cx, len(hr) == 1 and hr[0]["pos"] == set(["P0"]) and hr[0]["valtext"] == "self.default", hr[0]["node"] if hr else fn, "on failure Opt returns (parameter position, default): it consumes nothing",
        "return (%s, %s)" % (_fmt(hr[0]["pos"]) if hr else "?", hr[0]["valtext"] if hr else "?"))

    # ---- Map ---------------------------------------------------------------------
    fn, f = F["Map"]
    c = f.calls
    ok = len(c) == 1 and c[0]["arg"] == set(["P0"]) and not c[0]["in_try"]
    chk(cx, ok, fn, "Map runs its child at the parameter position; a failing child fails the Map", "origins %s" % (_fmt(c[0]["arg"]) if c else "?"))
    rets = f.returns
    chk(cx, len(rets) == 1 and rets[0]["pos"] == set(["R0"]) and rets[0]["valtext"] == "self.func(%s)" % (c[0]["bound_val"] if c else "?"), rets[0]["node"] if rets else fn, "Map returns the child's position and func(child value)",
        "return (%s, %s)" % (_fmt(rets[0]["pos"]) if rets else "?", rets[0]["valtext"] if rets else "?"))
    tr = [t for t in walk_body(fn.body) if isinstance(t, ast.Try)]
    okh = bool(tr) and all(isinstance(h.body[-1], ast.Raise) and h.body[-1].exc is None for h in tr[0].handlers)
    chk(cx, okh, tr[0] if tr else fn, "an exception from the mapping function is re-raised (the Map fails)", "handlers end with bare raise")

    # ---- Wrapper / Forward ---------------------------------------------------------
    for name in ("Wrapper", "Forward"):
        fn, f = F[name]
        c = f.calls
        chk(cx, len(c) == 1 and c[0]["returned_directly"] and c[0]["arg"] == set(["P0"]) and c[0]["callee"] == "self.children[0]", fn, "%s delegates unchanged" % name, "return self.children[0].process(pos, data, ctx)")

    # ---- primitives -------------------------------------------------------------
    for name in ("Char", "InSet", "AnyChar"):
        fn, f = F[name]
        rets = f.returns
        ok = len(f.calls) == 0 and len(rets) == 1 and rets[0]["pos"] == set(["P0+1"]) and len(rets[0]["guards"]) == 1
        chk(cx, ok, rets[0]["node"] if rets else fn, "%s consumes exactly one element on success" % name, "return position %s guarded by %s" % (_fmt(rets[0]["pos"]) if rets else "?", sorted(rets[0]["guards"]) if rets else "?"))
        g = list(rets[0]["guards"])[0] if rets and rets[0]["guards"] else ("", True)
        want = {"Char": "data[pos] == self.char", "InSet": "c in self.values", "AnyChar": "c is None"}[name]
        pol = name != "AnyChar"
        chk(cx, g == (want, pol), rets[0]["node"] if rets else fn, "%s succeeds exactly on its membership test" % name, "guard %s" % (g,))
        chk(cx, len(f.raises) == 1 and not [x for x in f.raises if x["in_handler"]], fn, "%s fails otherwise" % name, "%d raise" % len(f.raises))
        if name in ("InSet", "AnyChar"):
            cd = [a for a in walk_body(fn.body) if isinstance(a, ast.Assign) and U(a.targets[0]) == "c"]
            chk(cx, len(cd) == 1 and U(cd[0].value) == "data[pos]", cd[0] if cd else fn, "%s looks at the element at the current position" % name, "c = data[pos]")
        chk(cx, rets and rets[0]["valtext"] in ("self.char", "c"), rets[0]["node"] if rets else fn, "%s returns the consumed element" % name, "value %s" % (rets[0]["valtext"] if rets else "?"))
    fn, f = F["EOF"]
    rets = f.returns
    ok = len(rets) == 1 and rets[0]["pos"] == set(["P0"]) and rets[0]["guards"] == set([("data[pos] is None", True)]) and len(f.raises) == 1
    chk(cx, ok, rets[0]["node"] if rets else fn, "EOF succeeds only on the end sentinel and consumes nothing", "return position %s guarded by %s" % (_fmt(rets[0]["pos"]) if rets else "?", sorted(rets[0]["guards"]) if rets else "?"))
    fn, f = F["String"]
    rets = f.returns
    rz = [r for r in f.raises if ("len(results) < self.min_length", True) in r["guards"]]
    ok = len(rets) == 1 and rets[0]["pos"] == set(["P0", "P0+*"]) and rets[0]["valtext"] == "''.join(results)" and len(rz) == 1
    chk(cx, ok, rets[0]["node"] if rets else fn, "String returns the position after the consumed characters and fails below min_length", "return position %s; raise guarded by min_length: %d" % (_fmt(rets[0]["pos"]) if rets else "?", len(rz)))
    wl = [w for w in walk_body(fn.body) if isinstance(w, ast.While)]
    # one scanning loop; which characters it accepts is a value-level matter (not decided), that it stops is: either its test or a break ends it
    okw = len(wl) == 1 and (U(wl[0].test) != "True" or any(isinstance(b, ast.Break) for b in walk_body(wl[0].body)))
    chk(cx, okw, wl[0] if wl else fn, "String consumes in one scanning loop that ends at the first character it does not accept", short(wl[0].test) if wl else "?")
    fn, f = F["Literal"]
    rets = f.returns
    for r in rets:
        chk(cx, r["pos"] == set(["P0", "P0+*"]) and not r["in_loop"], r["node"], "Literal returns the position after the matched characters (one step per character)", "return position %s" % _fmt(r["pos"]))
    incs = [a for a in walk_body(fn.body) if isinstance(a, ast.AugAssign) and U(a.target) == "pos"]
    chk(cx, len(incs) == 2 and all(U(a.value) == "1" and isinstance(a.op, ast.Add) for a in incs), fn, "Literal advances one element per matched character", "%s" % [U(a) for a in incs])
    chk(cx, len(rets) == 2 and len(f.raises) == 2 and all(r["in_loop"] for r in f.raises), fn, "Literal fails at the first mismatching character", "%d returns, %d raises" % (len(rets), len(f.raises)))
    cm = [c for c in walk_body(fn.body) if isinstance(c, ast.Compare) and "data[pos]" in U(c)]
    chk(cx, sorted(U(c) for c in cm) == ["data[pos] == c", "data[pos].lower() == c"], fn, "each character is compared with the corresponding input element (case folded when requested)", "%s" % sorted(U(c) for c in cm))


def r2_no_trace(cx):
    cx.rule("C19.R2", "combinators never write to the input and touch the context only through error bookkeeping", floor=19)
    m = cx.repo.module(PS)
    for name in CORE:
        fn = m.func("%s.process" % name, "C19.R2")
        f = facts_of(fn)
        p = params(fn)
        data, ctxn = p[2], p[3]
        bad = []
        for s in f.stores:
            t = s["target"]
            if t.startswith(data):
                bad.append((s, "writes to the input"))
            elif t.startswith(ctxn + "."):
                if s.get("call") in CTX_OK:
                    continue
                if t == ctxn + ".function_error":
                    continue
                bad.append((s, "modifies the context"))
        # also any mutation through method calls on data
        for x in find_calls(fn.body):
            if isinstance(x.func, ast.Attribute) and U(x.func.value) == data and x.func.attr in ("append", "pop", "insert", "extend", "remove", "clear", "__setitem__"):
                bad.append(({"node": x}, "mutates the input"))
        if bad:
            for s, why in bad:
                cx.bad(s["node"], "%s.process %s" % (name, why), construct=short(s["node"]))
        else:
            cx.ok(fn, "%s.process leaves the input untouched; context only via ctx.set / ctx.function_error / read-only helpers" % name, construct="def %s.process" % name)
        # ctx.set only on failing paths: every ctx.set is followed by a raise in the same block or is inside a handler
        for x in find_calls(fn.body, attr="set"):
            if U(x.func.value) != ctxn:
                continue
            st = stmt_of(x)
            blk = parent(st)
            body = None
            for fld in ("body", "orelse", "finalbody"):
                lst = getattr(blk, fld, None)
                if isinstance(lst, list) and st in lst:
                    body = lst
            ok = body is not None and any(isinstance(s2, ast.Raise) for s2 in body[body.index(st):])
            cx.require(ok, x, "%s: ctx.set is error bookkeeping on a failing path (followed by raise)" % name, construct=short(x))


def r2c_context_helpers_read_only(cx):
    """Combinators call ctx.line / ctx.col freely, also on alternatives that fail afterwards: those helpers must answer from the input alone.  A cursor or
    cache kept on the context makes the answer for a later alternative depend on how far a failed one looked ahead."""
    cx.rule("C19.R2", "combinators never write to the input and touch the context only through error bookkeeping", floor=19)
    m = cx.repo.module(PS)
    c = m.cls("Context", "C19.R2")
    for f in [x for x in c.body if isinstance(x, FUNC_TYPES) and x.name not in ("__init__", "set")]:
        if any(isinstance(d, ast.Name) and d.id == "contextmanager" for d in f.decorator_list):
            continue        # push/pop helpers are checked by the pairing rule (C19.R8)
        if not any(isinstance(r_, ast.Return) and r_.value is not None and U(r_.value) != "None" for r_ in walk_body(f.body)):
            continue        # a command (push / pop / reset helper), not a query: what it may store is the business of R2 / R8
        st = [x for x in ast.walk(f) if isinstance(x, (ast.Attribute, ast.Subscript)) and isinstance(x.ctx, (ast.Store, ast.Del)) and U(x).split(".")[0].split("[")[0] == "self"]
        st += [x for x in ast.walk(f) if isinstance(x, ast.Call) and isinstance(x.func, ast.Attribute) and x.func.attr in feat.MUTATORS and U(x.func.value).startswith("self.")]
        cx.require(not st, st[0] if st else f, "Context.%s answers from the input alone (keeps no cursor or cache on the context)" % f.name, construct=short(stmt_of(st[0]), 80) if st else "def Context.%s" % f.name)


def _rule_defs(mod):
    """name -> value expr for module-level grammar assignments, including ``name <= expr``."""
    out = {}
    for st in mod.tree.body:
        if isinstance(st, ast.Assign) and len(st.targets) == 1 and isinstance(st.targets[0], ast.Name):
            out[st.targets[0].id] = st.value
        elif isinstance(st, ast.Expr) and isinstance(st.value, ast.Compare) and isinstance(st.value.ops[0], ast.LtE) and isinstance(st.value.left, ast.Name):
            out[st.value.left.id] = st.value.comparators[0]
    return out


def _lits(e):
    out = set()
    for n in ast.walk(e):
        if isinstance(n, ast.Call) and call_name(n) in ("Char", "InSet") and n.args and const_str(n.args[0]) is not None:
            out |= set(const_str(n.args[0]))
    return out


def _refs(e, names):
    return set(n.id for n in ast.walk(e) if isinstance(n, ast.Name) and n.id in names)


def r2b_stateless_parsers(cx):
    """A grammar object is shared by every parse (and every thread): whatever process() records must live in the per-call Context.  State kept on the
    parser object itself (a set of active positions, a memo, a counter) is a trace one parse leaves for another."""
    cx.rule("C19.R2", "combinators never write to the input and touch the context only through error bookkeeping", floor=19)
    m = cx.repo.module(PS)
    for name in CORE:
        fn = m.func("%s.process" % name, "C19.R2")
        bad = []
        for x in walk_body(fn.body):
            base = None
            if isinstance(x, (ast.Attribute, ast.Subscript)) and isinstance(x.ctx, (ast.Store, ast.Del)):
                base = x
            elif isinstance(x, ast.Call) and isinstance(x.func, ast.Attribute) and x.func.attr in ("add", "discard", "remove", "append", "extend", "pop", "clear", "update", "setdefault", "insert"):
                base = x.func.value
            elif isinstance(x, ast.AugAssign) and isinstance(x.target, (ast.Attribute, ast.Subscript)):
                base = x.target
            if base is None:
                continue
            root = base
            while isinstance(root, (ast.Attribute, ast.Subscript)):
                root = root.value
            if isinstance(root, ast.Name) and root.id == "self":
                bad.append(x)
        cx.require(not bad, bad[0] if bad else fn, "%s.process keeps no state on the (shared) parser object" % name, construct=short(bad[0]) if bad else "%s.process" % name)


def _charset(e, m, counts, depth=0):
    """The set of characters a constant set expression denotes (set()/frozenset() of string constants and string.* tables, combined with
    - | & ^, module-level names bound once), or None."""
    import string as _string
    if depth > 8:
        return None

    def text(x):
        if isinstance(x, ast.Constant) and isinstance(x.value, str):
            return x.value
        if isinstance(x, ast.Attribute) and isinstance(x.value, ast.Name) and x.value.id == "string" and m.imports.get("string", "string") == "string" \
                and x.attr in ("printable", "whitespace", "ascii_letters", "ascii_lowercase", "ascii_uppercase", "digits", "punctuation", "hexdigits", "octdigits"):
            return getattr(_string, x.attr)
        if isinstance(x, ast.BinOp) and isinstance(x.op, ast.Add):
            a, b = text(x.left), text(x.right)
            return None if a is None or b is None else a + b
        if isinstance(x, ast.Name) and counts.get(x.id) == 1 and x.id in m.top:
            return text(m.top[x.id])
        return None
    if isinstance(e, ast.Call) and call_name(e) in ("set", "frozenset") and len(e.args) == 1 and not e.keywords:
        t = text(e.args[0])
        if t is not None:
            return set(t)
        return _charset(e.args[0], m, counts, depth + 1)
    if isinstance(e, ast.Call) and call_name(e) in ("set", "frozenset") and not e.args and not e.keywords:
        return set()
    if isinstance(e, ast.BinOp) and isinstance(e.op, (ast.Sub, ast.BitOr, ast.BitAnd, ast.BitXor)):
        a, b = _charset(e.left, m, counts, depth + 1), _charset(e.right, m, counts, depth + 1)
        if a is None or b is None:
            return None
        return a - b if isinstance(e.op, ast.Sub) else a | b if isinstance(e.op, ast.BitOr) else a & b if isinstance(e.op, ast.BitAnd) else a ^ b
    if isinstance(e, ast.Name) and counts.get(e.id) == 1 and e.id in m.top:
        return _charset(m.top[e.id], m, counts, depth + 1)
    t = text(e)
    return set(t) if t is not None else None


def _lookahead_paths(fn):
    """Paths of a process() that runs its look-ahead inside a try, with constant propagation of boolean flags (followed = True / False):
    (every feasible path through the except arm ends in return, every feasible path without it ends in raise, text)."""
    from .. import feat
    try:
        pths = feat.paths(fn.body)
    except ValueError:
        return None
    exc_ends, ok_ends = [], []
    for trail, end in pths:
        consts, feasible, exc = {}, True, False
        for item in trail:
            if item[0] == "cond":
                if item[1].startswith("except"):
                    exc = True
                elif item[1] in consts and consts[item[1]] != item[2]:
                    feasible = False
                    break
                continue
            st = item[1]
            if isinstance(st, ast.Assign) and len(st.targets) == 1 and isinstance(st.targets[0], ast.Name):
                if isinstance(st.value, ast.Constant) and isinstance(st.value.value, bool):
                    consts[st.targets[0].id] = st.value.value
                else:
                    consts.pop(st.targets[0].id, None)
        if feasible:
            (exc_ends if exc else ok_ends).append(end)
    return (bool(exc_ends) and all(e == "return" for e in exc_ends), bool(ok_ends) and all(e == "raise" for e in ok_ends),
            "look-ahead failed -> %s; look-ahead succeeded -> %s" % (sorted(set(exc_ends)), sorted(set(ok_ends))))


def r3_taglang(cx):
    cx.rule("C19.R3", "tag-expression grammar: precedence stratification and operator table", floor=10)
    m = cx.repo.module("insights.core.taglang")
    d = _rule_defs(m)
    rules = set(["expr", "term", "factor", "factor_body", "tag", "regex", "bare", "parse"])
    # view: auxiliary module-level names (a sub-expression given a name of its own, e.g. group = Char("(") >> expr << Char(")")) are expanded
    # into the rules that use them; only the grammar's own non-terminals and imported names stay symbolic
    from ..normal import _Subst
    counts = {}
    for st in m.tree.body:
        for t_ in (st.targets if isinstance(st, ast.Assign) else []):
            if isinstance(t_, ast.Name):
                counts[t_.id] = counts.get(t_.id, 0) + 1
    aux = dict((k, v) for k, v in d.items() if k not in rules and counts.get(k) == 1 and k not in ("WS", "quoted", "string") and isinstance(v, (ast.Call, ast.BinOp))
               and not any(isinstance(x, ast.Name) and x.id == k for x in ast.walk(v)))
    # only names that wrap operator / bracket terminals or group sub-expressions need expanding; keep the table small and acyclic
    aux = dict((k, v) for k, v in aux.items() if _lits(v) & set("()!&,|") and len(U(v)) < 80)
    if aux:
        for k in list(d):
            if k in aux:
                continue
            for _ in range(3):
                d[k] = _Subst(aux).visit(ast.parse(U(d[k]), mode="eval")).body
    for r in ("expr", "term", "factor", "factor_body", "parse", "bare"):
        if r not in d:
            cx.bad(m.tree.body[0], "grammar rule '%s' exists" % r, construct="(missing %s)" % r)
            return
    e = d["expr"]
    cx.require(_lits(e) == set(",|") and _refs(e, rules) == set(["term"]) and U(e).endswith(".map(oper)") and "Many(" in U(e), e, "',' and '|' are consumed only at the outermost repetition, between terms", construct="expr <= %s" % U(e))
    t = d["term"]
    cx.require(_lits(t) == set("&") and _refs(t, rules) == set(["factor"]) and U(t).endswith(".map(oper)") and "Many(" in U(t), t, "'&' is consumed one level below, between factors (binds tighter than ',' '|')", construct="term = %s" % U(t))
    f = d["factor"]
    cx.require(_lits(f) == set("!") and _refs(f, rules) == set(["factor_body"]) and "Opt(Char('!'))" in U(f) and U(f).endswith(".map(negate)"), f, "'!' is an optional prefix of a factor only (binds tightest)", construct="factor = %s" % U(f))
    fb = d["factor_body"]
    cx.require("Char('(') >> expr << Char(')')" in U(fb) and _refs(fb, rules) >= set(["expr", "tag", "regex"]), fb, "parentheses re-enter the outermost level", construct="factor_body = %s" % U(fb))
    p = d["parse"]
    cx.require(U(p) == "expr << EOF", p, "the top rule requires the whole input to be consumed", construct="parse = %s" % U(p))
    b = d["bare"]
    cs = _charset(b.args[0], m, counts) if isinstance(b, ast.Call) and call_name(b) == "String" and len(b.args) == 1 and not b.keywords else None
    if cs is not None:
        # the character class of a bare tag, computed from the constant set expression
        hit = sorted(cs & set(")&,| \t\n"))
        cx.require(not hit and bool(cs), b, "a bare tag cannot swallow an operator, a closing parenthesis or white space", construct="bare = %s  (%d characters%s)" % (
            short(b, 100), len(cs), "; contains %r" % "".join(hit) if hit else ""))
    else:
        cx.require("set(')&,|')" in U(b), b, "a bare tag cannot swallow an operator or a closing parenthesis", construct="bare = %s" % short(b, 120))
    op = m.func("oper", "C19.R3")
    ifs = [s for s in walk_body(op.body) if isinstance(s, ast.If)]
    tbl = dict((U(s.test), U(s.body[0])) for s in ifs)
    cx.require(tbl == {"op == '&'": "left = And(left, right)", "op in ',|'": "left = Or(left, right)"}, op, "'&' builds And, ',' and '|' build Or, folding left to right", construct="%s" % tbl)
    lp = [s for s in op.body if isinstance(s, ast.For)]
    cx.require(bool(lp) and U(lp[0].iter) == "rest" and not has_exit(lp[0].body), op, "every operator/operand pair is folded", construct=short(lp[0], 100) if lp else "?")
    ng = m.func("negate", "C19.R3")
    rets = [r for r in walk_body(ng.body) if isinstance(r, ast.Return)]
    a = [x for x in walk_body(ng.body) if isinstance(x, ast.Assign) and isinstance(x.targets[0], ast.Tuple) and len(x.targets[0].elts) == 2 and U(x.value) == params(ng)[0]]
    ok = len(a) == 1
    if ok:
        bang, opnd = [U(e) for e in a[0].targets[0].elts]
        for r in rets:
            g = guard_texts(r)
            t = U(r.value)
            if t == "Not(%s) if %s else %s" % (opnd, bang, opnd) and not g:
                continue
            if t == "Not(%s)" % opnd and g == set([(bang, True)]):
                continue
            if t == opnd and g == set([(bang, False)]):
                continue
            ok = False
        ok = ok and bool(rets) and any("Not(" in U(r.value) for r in rets)
    cx.require(ok, ng, "'!' wraps its operand in Not", construct="; ".join(short(r) for r in rets) if rets else "?")
    for cls, want in (("And", "self.left.test(value) and self.right.test(value)"), ("Or", "self.left.test(value) or self.right.test(value)"), ("Not", "not self.pred.test(value)")):
        fn = m.func("%s.test" % cls, "C19.R3")
        rets = [r for r in walk_body(fn.body) if isinstance(r, ast.Return)]
        cx.require(len(rets) == 1 and U(rets[0].value) == want, fn, "%s.test evaluates with Python's '%s'" % (cls, cls.lower()), construct=short(rets[0]) if rets else "?")
    eq = m.func("Eq.test", "C19.R3")
    rets = [r for r in walk_body(eq.body) if isinstance(r, ast.Return)]
    cx.require(len(rets) == 1 and U(rets[0].value) == "self.value in values", eq, "a tag matches by membership", construct=short(rets[0]) if rets else "?")


def r4_json(cx):
    cx.rule("C19.R4", "JSON grammar shape", floor=5)
    m = cx.repo.module("insights.parsr.examples.json_parser")
    d = _rule_defs(m)
    cx.require("Top" in d and U(d["Top"]) == "JsonValue + EOF", d.get("Top") or m.tree.body[0], "the top rule requires end of input", construct="Top = %s" % U(d.get("Top")))
    for nm, lit, val in (("TRUE", "true", "True"), ("FALSE", "false", "False"), ("NULL", "null", "None")):
        e = d.get(nm)
        ok = e is not None and isinstance(e, ast.Call) and call_name(e) == "Literal" and const_str(e.args[0]) == lit and kwarg(e, "value") is not None and U(kwarg(e, "value")) == val
        cx.require(ok, e or m.tree.body[0], "literal %s carries the Python constant %s" % (lit, val), construct="%s = %s" % (nm, U(e)))
    jo = d.get("JsonObject")
    def _dict_fold(f):
        """Does the callable fold a sequence of pairs into a dict in order, later duplicates overriding?"""
        if isinstance(f, ast.Lambda) and len(f.args.args) == 1:
            a = f.args.args[0].arg
            return U(f.body) in ("dict(((k, v) for k, v in %s))" % a, "dict(%s)" % a, "{k: v for k, v in %s}" % a)
        if isinstance(f, ast.Name) and m.has(f.id) and isinstance(m.get(f.id), FUNC_TYPES):
            g = m.get(f.id)
            ps_ = params(g)
            body = [s_ for s_ in g.body if not (isinstance(s_, ast.Expr) and isinstance(s_.value, ast.Constant))]
            if len(ps_) == 1 and len(body) == 1 and isinstance(body[0], ast.Return):
                return U(body[0].value) in ("dict(((k, v) for k, v in %s))" % ps_[0], "dict(%s)" % ps_[0], "{k: v for k, v in %s}" % ps_[0])
            if len(ps_) == 1 and len(body) == 3 and isinstance(body[0], ast.Assign) and U(body[0].value) in ("{}", "dict()") and isinstance(body[1], ast.For) and isinstance(body[2], ast.Return):
                acc = U(body[0].targets[0])
                lp_ = body[1]
                if U(lp_.iter) == ps_[0] and isinstance(lp_.target, ast.Tuple) and len(lp_.target.elts) == 2 and len(lp_.body) == 1 and U(body[2].value) == acc:
                    k_, v_ = [U(e) for e in lp_.target.elts]
                    return U(lp_.body[0]) == "%s[%s] = %s" % (acc, k_, v_)
        return False
    mp = [c for c in ast.walk(jo) if isinstance(c, ast.Call) and call_attr(c) == "map" and U(c.func.value) == "KVPairs"] if jo is not None else []
    ok = jo is not None and len(mp) == 1 and len(mp[0].args) == 1 and _dict_fold(mp[0].args[0]) and U(jo).startswith("LeftCurly >>") and U(jo).endswith("<< RightCurly")
    cx.require(ok, jo or m.tree.body[0], "object pairs are folded into a dict in order (later duplicates win, like the standard decoder)", construct="JsonObject <= %s" % U(jo))
    ja = d.get("JsonArray")
    cx.require(ja is not None and U(ja) == "LeftBracket >> JsonValue.sep_by(Comma) << RightBracket", ja or m.tree.body[0], "arrays are comma separated values in brackets", construct="JsonArray <= %s" % U(ja))
    sv = d.get("SimpleValue")
    cx.require(sv is not None and U(sv) == "Number | QuotedString | JsonObject | JsonArray | TRUE | FALSE | NULL", sv or m.tree.body[0], "a value is one of the seven JSON alternatives", construct="SimpleValue = %s" % U(sv))
    ld = m.func("loads", "C19.R4")
    rets = [r for r in walk_body(ld.body) if isinstance(r, ast.Return)]
    ok = len(rets) == 1 and U(rets[0].value) == "Top(data)[0]"
    if not ok and len(rets) == 1 and isinstance(rets[0].value, ast.Name):
        # value, _eof = Top(data); return value
        un = [a for a in walk_body(ld.body) if isinstance(a, ast.Assign) and isinstance(a.targets[0], ast.Tuple) and len(a.targets[0].elts) == 2 and U(a.value) == "Top(data)"]
        ok = len(un) == 1 and U(un[0].targets[0].elts[0]) == rets[0].value.id and len(assigns_to(ld, rets[0].value.id)) == 1
    cx.require(ok, ld, "loads returns the value (first element of Top's sequence)", construct=short(rets[0]) if rets else "?")


def r4b_numbers(cx):
    """A whole-number literal is converted from its text by int(); a detour through float() is exact only below 2**53."""
    cx.rule("C19.R4", "JSON grammar shape", floor=5)
    pm = cx.repo.module("insights.parsr")
    if not pm.has("_make_number"):
        cx.unknown(pm.tree.body[0], "the number builder _make_number of insights.parsr is gone")
        return
    fn = pm.get("_make_number")
    region = feat.region(pm, fn)
    ints = [c for f in region for c in find_calls(f.body, name="int")]
    floats = [c for f in region for c in find_calls(f.body, name="float")]
    cx.require(bool(ints) and bool(floats), fn, "the number builder produces int for whole literals and float for fractional ones", construct="int x%d, float x%d" % (len(ints), len(floats)))
    for c in ints:
        via = bool(c.args) and feat.flows_from(c.args[0], fn, lambda n: isinstance(n, ast.Call) and call_name(n) == "float")
        cx.require(not via, c, "a whole-number literal is converted from its text, not through float (exact above 2**53)", construct=short(c, 80))


INPLACE = {ast.BitOr: "Choice", ast.Add: "Sequence", ast.Mult: "Lift"}


def _strip(e):
    """Strip wrappers that return the *same* object: ``x % "name"``."""
    while isinstance(e, ast.BinOp) and isinstance(e.op, ast.Mod):
        e = e.left
    return e


def _bare_kind(repo, mod, e, depth=0):
    """'Choice' / 'Sequence' / 'Lift' when the expression evaluates to a bare in-place-extensible combinator object."""
    e = _strip(e)
    if isinstance(e, ast.BinOp) and type(e.op) in INPLACE:
        return INPLACE[type(e.op)]
    if isinstance(e, ast.Call) and call_name(e) in ("Choice", "Sequence", "Lift"):
        return call_name(e)
    if isinstance(e, ast.Name) and depth < 4:
        r = repo.resolve_dotted(mod, e.id)
        if r[0] == "const":
            return _bare_kind(repo, r[1], r[3], depth + 1)
    return None


def r5_no_shared_extension(cx):
    """Choice.__or__, Sequence.__add__ and Lift.__mul__ append to the object in place.  A *named* bare
    Choice/Sequence/Lift that is extended again elsewhere is silently changed for every rule that shares it
    (the library itself wraps such objects in Wrapper(...) for that reason)."""
    cx.rule("C19.R5", "no shared (named) Choice / Sequence / Lift is extended in place by another rule", floor=20)
    mods = [cx.repo.module(n) for n in ("insights.core.taglang", "insights.parsr.examples.json_parser", "insights.parsr.iniparser", PS)]
    # the in-place behaviour itself (otherwise the rule is moot)
    pm = cx.repo.module(PS)
    inplace = {}
    for cls, meth in (("Choice", "__or__"), ("Sequence", "__add__"), ("Lift", "__mul__")):
        fn = pm.func("%s.%s" % (cls, meth), "C19.R5")
        rets = [r for r in walk_body(fn.body) if isinstance(r, ast.Return)]
        inplace[cls] = bool(rets) and U(rets[0].value) == "self.add_child(%s)" % params(fn)[1]
    n = 0
    for m in mods:
        for st in ast.walk(m.tree):
            if not isinstance(st, ast.BinOp) or type(st.op) not in INPLACE:
                continue
            kind = INPLACE[type(st.op)]
            left = st.left
            if not isinstance(left, ast.Name):
                continue
            n += 1
            lk = _bare_kind(cx.repo, m, left)
            if lk == kind and inplace.get(kind):
                cx.bad(st, "'%s' is a named %s object; '%s %s ...' appends to it in place, so every other rule using '%s' sees the extra alternative/member (wrap it: Wrapper(%s))" % (
                    left.id, kind, left.id, {"Choice": "|", "Sequence": "+", "Lift": "*"}[kind], left.id, left.id), construct=short(st, 100))
            else:
                cx.ok(st, "left operand '%s' is not a bare %s (a new combinator is created)" % (left.id, kind), construct=short(st, 80))
    cx.extra["combinator_expressions_checked"] = n


def r6_fresh_results(cx):
    """A failed alternative / an empty match must leave no trace on later parses: a combinator that hands out one shared mutable object as its
    result (Opt(..., default=[]) returns the *same* list every time it takes the default) lets a caller's mutation show up in every later parse."""
    cx.rule("C19.R6", "core combinators never hand out a shared mutable default as a parse result", floor=1)
    mods = [cx.repo.module(PS), cx.repo.module("insights.parsr.examples.json_parser"), cx.repo.module("insights.core.taglang")]
    n = 0
    for m in mods:
        for c in [x for x in ast.walk(m.tree) if isinstance(x, ast.Call) and call_name(x) in ("Opt", "Literal", "Wrapper") or (isinstance(x, ast.Call) and call_attr(x) in ("Opt",))]:
            for k in c.keywords:
                if k.arg in ("default", "value"):
                    n += 1
                    mutable = isinstance(k.value, (ast.List, ast.Dict, ast.Set, ast.ListComp, ast.DictComp, ast.SetComp)) or \
                        (isinstance(k.value, ast.Call) and call_name(k.value) in ("list", "dict", "set", "OrderedDict", "deque"))
                    cx.require(not mutable, c, "%s(...%s=...) does not use a mutable object as the value it returns on every empty match" % (call_name(c) or call_attr(c), k.arg),
                               construct=short(c, 110))
    opt = cx.repo.module(PS).func("Opt.process", "C19.R6")
    rets = [r for r in walk_body(opt.body) if isinstance(r, ast.Return)]
    cx.require(any("self.default" in U(r.value) for r in rets), opt, "Opt returns its default object itself on failure (hence the default must be immutable)", construct=" | ".join(short(r) for r in rets))


OPERATORS = {"__add__": ("Sequence", True), "__or__": ("Choice", True), "__lshift__": ("KeepLeft", False), "__rshift__": ("KeepRight", False),
             "__and__": ("FollowedBy", False), "__truediv__": ("NotFollowedBy", False)}


def r7_operator_table(cx):
    """`a + b` is the two-element sequence [a, b] whatever b is (a sequence on the right stays one element: its value is a nested list); likewise for
    the other operators.  Only the *left* operand accumulates (Sequence.__add__ / Choice.__or__ append the right operand as one child)."""
    cx.rule("C19.R7", "operator methods build the documented combinator from (self, other) without looking into the right operand", floor=8)
    m = cx.repo.module(PS)
    for op, (cls, as_list) in sorted(OPERATORS.items()):
        fn = m.func("Parser.%s" % op, "C19.R7")
        ps = params(fn)
        rets = [r for r in walk_body(fn.body) if isinstance(r, ast.Return)]
        good = bool(rets)
        for r in rets:
            v = r.value
            ok = isinstance(v, ast.Call) and call_name(v) == cls and not v.keywords
            if ok and as_list:
                ok = len(v.args) == 1 and isinstance(v.args[0], (ast.List, ast.Tuple)) and [U(e) for e in v.args[0].elts] == ps[:2]
            elif ok:
                ok = [U(e) for e in v.args] == ps[:2]
            good = good and ok
        cx.require(good, rets[0] if rets else fn, "Parser.%s(self, other) returns %s of exactly (self, other)" % (op, cls), construct="; ".join(short(r, 70) for r in rets) or "(no return)")
    for cn, op in (("Sequence", "__add__"), ("Choice", "__or__")):
        fn = m.func("%s.%s" % (cn, op), "C19.R7")
        ps = params(fn)
        rets = [r for r in walk_body(fn.body) if isinstance(r, ast.Return)]
        ok = len(rets) == 1 and U(rets[0].value) == "self.add_child(%s)" % ps[1]
        cx.require(ok, rets[0] if rets else fn, "%s.%s appends the right operand as one child" % (cn, op), construct=short(rets[0], 70) if rets else "(no return)")
    ac = m.func("Parser.add_child", "C19.R7") if m.has("Parser.add_child") else None
    if ac is None:
        for cn in ("Node", "Parser"):
            if m.has("%s.add_child" % cn):
                ac = m.get("%s.add_child" % cn)
    if ac is not None:
        ps = params(ac)
        aps = [c for c in find_calls(ac.body, attr="append")]
        ok = len(aps) == 1 and U(aps[0].func.value) == "self.children" and [U(a) for a in aps[0].args] == ps[1:2] and not [x for x in walk_body(ac.body) if isinstance(x, (ast.If, ast.For, ast.While))]
        cx.require(ok, ac, "add_child appends its argument, as is, to self.children", construct=short(aps[0], 70) if aps else "(no append)")
    else:
        cx.unknown(m.tree.body[0], "cannot find add_child")


def r8_indent_pairing(cx):
    """A failed alternative leaves no trace: whatever is pushed on the context's indentation stack for the duration of a child parse is popped on
    every exit, i.e. in a finally (directly, or in a context manager whose yield sits in a try/finally)."""
    cx.rule("C19.R8", "the indentation stack of the context is popped on every exit of the parse that pushed it", floor=1)
    m = cx.repo.module(PS)
    n = 0
    for fn in [f for f in ast.walk(m.tree) if isinstance(f, FUNC_TYPES)]:
        pushes = [c for c in find_calls(fn.body, attr="append") if U(c.func.value).endswith(".indents")]
        for c in pushes:
            n += 1
            owner = U(c.func.value)
            st = stmt_of(c)
            tries = [t for t in walk_body(fn.body) if isinstance(t, ast.Try) and any(U(x.func.value) == owner for y in t.finalbody for x in find_calls([y], attr="pop"))]
            ok = False
            for t in tries:
                inside = any(st is y or any(st is z for z in ast.walk(y)) for y in t.body)
                blk = parent(t)
                before = False
                for fld in ("body", "orelse", "finalbody"):
                    lst = getattr(blk, fld, None)
                    if isinstance(lst, list) and t in lst and st in lst and lst.index(st) < lst.index(t):
                        between = lst[lst.index(st) + 1:lst.index(t)]
                        before = not any(isinstance(x, (ast.Yield, ast.YieldFrom, ast.Return, ast.Raise)) or (isinstance(x, ast.Call) and call_attr(x) == "process") for y in between for x in ast.walk(y))
                if inside:
                    # nothing that can fail may stand between the push and the end of what the finally protects ... it is in the try: fine
                    ok = True
                if before:
                    ok = True
                if ok:
                    # the child parse (or the yield that stands for it) is inside that try
                    ok = any(isinstance(x, (ast.Yield, ast.YieldFrom)) or (isinstance(x, ast.Call) and call_attr(x) == "process") for y in t.body for x in ast.walk(y))
                if ok:
                    break
            cx.require(ok, c, "%s pushes an indent and pops it in a finally around the child parse" % fn.name, construct=short(st, 80))
    if n == 0:
        wi = m.has("WithIndent.process")
        if wi:
            cx.bad(m.get("WithIndent.process"), "WithIndent pushes its column on the indentation stack", construct="(no push found)")


def run(cx):
    cx.extra["explanation"] = ("C19: def-use facts on the position variable of every core combinator's process() (origin of the position handed to each child call, whether a child's result "
                               "reaches the function result, what each handler does) compared with the PEG protocol table; effect rule (no writes to the input, context only through error "
                               "bookkeeping); grammar extraction of the tag-expression language (precedence stratification, operator table) and shape of the JSON grammar.")
    cx.undecided = ["value equality with json.loads on the documented subset", "full PEG equivalence for composed grammars (follows compositionally from R1/R2 only on paper)",
                    "INFO: WithIndent / StartTagName / EndTagName are context-sensitive extensions outside the property's combinator list"]
    cx.guard(r1_threading)
    cx.guard(r2_no_trace)
    cx.guard(r2b_stateless_parsers)
    cx.guard(r2c_context_helpers_read_only)
    cx.guard(r3_taglang)
    cx.guard(r4_json)
    cx.guard(r4b_numbers)
    cx.guard(r5_no_shared_extension)
    cx.guard(r6_fresh_results)
    cx.guard(r7_operator_table)
    cx.guard(r8_indent_pairing)
