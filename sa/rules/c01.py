"""C01 - components run at most once, dependencies first, seeds never overwritten."""
import ast
from ..util import find_calls, assigns_to

from ..model import (AnalysisError, FUNC_TYPES, U, call_attr, call_name, dotted, enclosing, enclosing_function,
                     guard_texts, names_in, parent, short, walk_body, walk_local, ancestors, terminates)
from ..cfg import CFG, ENTRY, EXIT
from .. import feat

DR = "insights.core.dr"
TOPO = "insights.contrib.toposort"

MUTATORS = ("update", "pop", "clear", "setdefault", "popitem", "__setitem__", "__delitem__")


def params(fn):
    return [a.arg for a in fn.args.posonlyargs + fn.args.args]


def main_loop(cx, fn):
    """The ``for component in <first parameter>`` loop of run_components."""
    ps = params(fn)
    if len(ps) < 3:
        raise AnalysisError(cx.current, "run_components no longer has (order, components, broker) parameters: %s" % ps)
    loops = [s for s in fn.body if isinstance(s, ast.For)]
    for lp in loops:
        if isinstance(lp.iter, ast.Name) and lp.iter.id == ps[0] and isinstance(lp.target, ast.Name):
            return lp, lp.target.id, ps[1], ps[2]
    raise AnalysisError(cx.current, "run_components has no top-level 'for <component> in %s' loop" % ps[0])


def delegate_process_calls(loop, comp):
    """Calls ``<delegate-of-comp>.process(...)`` in the loop body."""
    # names bound to the delegate
    deleg_names = set()
    for n in walk_body(loop.body):
        if isinstance(n, ast.Assign) and len(n.targets) == 1 and isinstance(n.targets[0], ast.Name):
            if _is_delegate_expr(n.value, comp, deleg_names):
                deleg_names.add(n.targets[0].id)
    out = []
    for n in walk_body(loop.body):
        if isinstance(n, ast.Call) and isinstance(n.func, ast.Attribute) and n.func.attr in ("process", "invoke"):
            if _is_delegate_expr(n.func.value, comp, deleg_names):
                out.append(n)
    return out, deleg_names


def _is_delegate_expr(e, comp, names):
    if isinstance(e, ast.Name) and e.id in names:
        return True
    if isinstance(e, ast.Subscript) and dotted(e.value) in ("DELEGATES", "dr.DELEGATES") and U(e.slice) == comp:
        return True
    if isinstance(e, ast.Call) and call_name(e) in ("get_delegate", "dr.get_delegate", "DELEGATES.get", "dr.DELEGATES.get") and e.args and U(e.args[0]) == comp:
        return True
    return False


def r1_run_guard(cx):
    cx.rule("C01.R1", "run guard dominates execution and the store of the result", floor=4)
    m = cx.repo.module(DR)
    fn = m.func("run_components", "C01.R1")
    loop, comp, comps, broker = main_loop(cx, fn)
    calls, deleg_names = delegate_process_calls(loop, comp)
    if not calls:
        cx.bad(loop, "the execution loop no longer calls <delegate>.process(broker) for the loop's component (mechanism removed)",
               construct="for %s in ...: (no delegate.process call)" % comp)
        return
    cx.require(len(calls) == 1, calls[0], "exactly one delegate.process call per iteration (found %d)" % len(calls),
               construct="%d x %s" % (len(calls), short(calls[0])))
    for c in calls:
        inner = [a for a in ancestors(c) if isinstance(a, (ast.For, ast.While)) and a is not loop and any(x is loop for x in ancestors(a))]
        cx.require(not inner, c, "the execution call is not inside an inner loop (at most one attempt per iteration)")
        g = guard_texts(c, stop=loop)
        cx.require(("%s in %s" % (comp, broker), False) in g, c,
                   "guard '%s not in %s' holds at the execution call (a seeded or already computed value is never recomputed)" % (comp, broker))
        cx.require(("%s in %s" % (comp, comps), True) in g, c,
                   "guard '%s in %s' holds at the execution call (only members of the evaluated graph run)" % (comp, comps))
        deleg_ok = ("%s in DELEGATES" % comp, True) in g or any((d, True) in g or ("%s is None" % d, False) in g for d in deleg_names) \
            or ("get_delegate(%s)" % comp, True) in g or ("DELEGATES.get(%s)" % comp, True) in g
        cx.require(deleg_ok, c, "guard '%s in DELEGATES' (or a truthy delegate) holds at the execution call" % comp)
    # the store of the result
    stores = []
    for n in walk_body(loop.body):
        if isinstance(n, ast.Assign):
            for t in n.targets:
                if isinstance(t, ast.Subscript) and U(t.value) == broker:
                    stores.append((n, t))
    if not stores:
        cx.bad(loop, "the result of the execution call is no longer stored with %s[%s] = ..." % (broker, comp),
               construct="(no store into %s[...])" % broker)
    for st, t in stores:
        cx.require(U(t.slice) == comp, st, "the only store into the broker inside the loop is keyed by the loop's component")
        g = guard_texts(st, stop=loop)
        cx.require(("%s in %s" % (comp, broker), False) in g, st, "store is guarded by '%s not in %s'" % (comp, broker))
        # value comes from the process call
        val_ok = any(c is st.value for c in calls)
        if not val_ok and isinstance(st.value, ast.Name):
            for n in walk_body(loop.body):
                if isinstance(n, ast.Assign) and any(isinstance(tt, ast.Name) and tt.id == st.value.id for tt in n.targets):
                    if any(c is n.value for c in calls):
                        val_ok = True
        cx.require(val_ok, st, "the stored value is the result of the delegate.process call")


def r2_no_overwrite(cx):
    cx.rule("C01.R2", "Broker.__setitem__ refuses to overwrite", floor=1)
    m = cx.repo.module(DR)
    fn = m.func("Broker.__setitem__", "C01.R2")
    ps = params(fn)
    key = ps[1] if len(ps) > 1 else "component"
    stores = []
    for n in walk_body(fn.body):
        if isinstance(n, (ast.Assign, ast.AugAssign)):
            tg = n.targets if isinstance(n, ast.Assign) else [n.target]
            for t in tg:
                if isinstance(t, ast.Subscript) and U(t.value) == "self.instances":
                    stores.append((n, t))
        if isinstance(n, ast.Call) and isinstance(n.func, ast.Attribute) and U(n.func.value) == "self.instances" and n.func.attr in MUTATORS:
            stores.append((n, None))
    if not stores:
        cx.bad(fn, "Broker.__setitem__ no longer stores into self.instances", construct="def __setitem__ (no store)")
        return
    cfg = CFG(fn)
    for st, t in stores:
        g = guard_texts(st)
        guarded = ("%s in self.instances" % key, False) in g or ("self.instances.get(%s)" % key, False) in g \
            or ("%s in self" % key, False) in g
        # the refusing branch must raise (not silently return... a silent return also never overwrites)
        cx.require(guarded, st, "every path to the store passes the false branch of '%s in self.instances'" % key)
        if guarded:
            # find the If that provides the guard and check it raises KeyError-like
            raisers = [n for n in walk_body(fn.body) if isinstance(n, ast.Raise)]
            cx.require(bool(raisers), fn, "the refusing branch raises (an overwrite attempt is an error, not silently dropped)",
                       construct="raise in Broker.__setitem__")


def _is_broker_instances(e):
    """``<x>.instances`` where x is plausibly a Broker (name mentions broker or is self inside Broker)."""
    if not (isinstance(e, ast.Attribute) and e.attr == "instances"):
        return False
    base = U(e.value)
    if "broker" in base.lower():
        return True
    if base == "self":
        c = enclosing(e, ast.ClassDef)
        return c is not None and c.name == "Broker"
    return False


def r3_single_writer(cx, mods):
    cx.rule("C01.R3", "only Broker.__init__/__setitem__/__delitem__ write Broker.instances; del broker[...] unreachable from run", floor=3)
    allowed = set(["Broker.__init__", "Broker.__setitem__", "Broker.__delitem__"])
    writers = 0
    for m in mods:
        for n in ast.walk(m.tree):
            tgt = None
            if isinstance(n, (ast.Assign, ast.AugAssign, ast.Delete)):
                tg = n.targets if not isinstance(n, ast.AugAssign) else [n.target]
                for t in tg:
                    if isinstance(t, ast.Subscript) and _is_broker_instances(t.value):
                        tgt = t
                    if isinstance(t, ast.Attribute) and _is_broker_instances(t):
                        tgt = t
            elif isinstance(n, ast.Call) and isinstance(n.func, ast.Attribute) and n.func.attr in MUTATORS and _is_broker_instances(n.func.value):
                tgt = n
            if tgt is None:
                continue
            fn = enclosing_function(n)
            q = getattr(fn, "_qual", "<module>")
            writers += 1
            cx.require(m.name == DR and q in allowed, n,
                       "Broker.instances is written only inside Broker.__init__/__setitem__/__delitem__ (a second writer can overwrite a seeded value)")
    # del broker[...] / __delitem__ calls
    dels = 0
    for m in mods:
        for n in ast.walk(m.tree):
            hit = False
            if isinstance(n, ast.Delete):
                for t in n.targets:
                    if isinstance(t, ast.Subscript) and "broker" in U(t.value).lower() and not isinstance(t.value, ast.Attribute):
                        hit = True
                    if isinstance(t, ast.Subscript) and U(t.value).lower().endswith("broker"):
                        hit = True
            if isinstance(n, ast.Call) and call_attr(n) == "__delitem__" and "broker" in U(n.func).lower():
                hit = True
            if hit:
                dels += 1
                ok = m.name in ("insights.shell",)
                cx.require(ok, n, "broker entries are deleted only by the interactive shell (insights.shell), never from code reachable from dr.run")
    cx.extra.setdefault("who_may_write", {})["instances_writers"] = writers
    cx.extra["who_may_write"]["broker_deletes"] = dels


def r4_who_may_call(cx, mods):
    cx.rule("C01.R4", "component delegates are processed only by run_components", floor=2)
    # calls of .process(broker)/.invoke(broker) on a delegate object outside dr.run_components / the ComponentType hierarchy
    for m in mods:
        for n in ast.walk(m.tree):
            if not (isinstance(n, ast.Call) and isinstance(n.func, ast.Attribute) and n.func.attr in ("process", "invoke")):
                continue
            base = n.func.value
            btxt = U(base)
            is_deleg = "DELEGATES" in btxt or "get_delegate" in btxt or "delegate" in btxt.lower()
            is_self = btxt == "self" or btxt.startswith("super(")
            if is_self:
                c = enclosing(n, ast.ClassDef)
                if c is None or not _is_component_type(cx.repo, c):
                    continue
                # self.invoke / super().invoke inside the hierarchy: allowed
                cx.ok(n, "process/invoke called from within the ComponentType hierarchy (process -> invoke, super().invoke)")
                continue
            if not is_deleg:
                continue
            fn = enclosing_function(n)
            q = getattr(fn, "_qual", "<module>")
            cx.require(m.name == DR and q == "run_components", n,
                       "a component delegate is executed only from dr.run_components (another executor could run a component twice or out of order)")


def _is_component_type(repo, cnode):
    try:
        return repo.is_subclass(cnode, DR + ":ComponentType")
    except Exception:
        return False


def r5_order_provenance(cx, mods):
    cx.rule("C01.R5", "every run_components call passes an order computed by toposort from the same graph", floor=2)
    m = cx.repo.module(DR)
    ro = m.func("run_order", "C01.R5")
    rets = [n for n in walk_body(ro.body) if isinstance(n, ast.Return)]
    p = params(ro)
    ok = False
    for r in rets:
        v = r.value
        if isinstance(v, ast.Name):
            # a temporary bound once to the call (e.g. for an assertion on it) and not mutated afterwards
            ds = [a for a in walk_body(ro.body) if isinstance(a, ast.Assign) and any(isinstance(t, ast.Name) and t.id == v.id for t in a.targets)]
            touched = [c for c in ast.walk(ro) if isinstance(c, ast.Call) and isinstance(c.func, ast.Attribute) and U(c.func.value) == v.id
                       and c.func.attr in ("sort", "reverse", "append", "insert", "pop", "remove", "extend", "clear")]
            if len(ds) == 1 and not touched and not _rebound_between(ds[0].value, r, p[0]):
                v = ds[0].value
            # toposort_flatten written out: acc = []; for level in toposort(graph): acc.extend(level); return acc
            ext = [c for c in touched if c.func.attr == "extend"]
            if len(ds) == 1 and U(ds[0].value) in ("[]", "list()") and len(touched) == 1 and len(ext) == 1:
                lp = enclosing(ext[0], ast.For)
                if lp is not None and isinstance(lp.iter, ast.Call) and call_attr(lp.iter) == "toposort" and lp.iter.args and U(lp.iter.args[0]) == p[0] \
                        and [U(a) for a in ext[0].args] == [U(lp.target)] and not guard_texts(ext[0], stop=lp) and not [x for x in walk_body(lp.body) if isinstance(x, (ast.Break, ast.Continue, ast.Return))]:
                    ok = True
        if isinstance(v, ast.Call) and call_attr(v) in ("toposort_flatten",) and v.args and U(v.args[0]) == p[0]:
            ok = True
        if isinstance(v, ast.Call) and call_name(v) == "list" and v.args and isinstance(v.args[0], ast.Call) and call_attr(v.args[0]) in ("toposort", "toposort_flatten"):
            ok = U(v.args[0].args[0]) == p[0]
    if rets and not ok:
        r = rets[0]
        if any(isinstance(c, ast.Call) and call_attr(c) in ("toposort_flatten", "toposort", "static_order") for c in ast.walk(ro)):
            cx.bad(r, "run_order returns toposort_flatten(<its own parameter>)")
        else:
            cx.bad(r, "run_order returns a topological order of its parameter (no toposort call found)")
    else:
        cx.require(ok and len(rets) == 1, ro, "run_order returns toposort_flatten(<its own parameter>)", construct=short(rets[0]) if rets else "def run_order")
    sites = 0
    for mm in mods:
        for n in ast.walk(mm.tree):
            if isinstance(n, ast.Call) and call_attr(n) == "run_components" and (dotted(n.func) in ("run_components", "dr.run_components", "insights.core.dr.run_components")):
                sites += 1
                if len(n.args) < 2:
                    cx.unknown(n, "run_components called with fewer than two positional arguments")
                    continue
                order, graph = n.args[0], n.args[1]
                src = _trace_to_call(order, n)
                good = isinstance(src, ast.Call) and call_attr(src) in ("run_order", "toposort_flatten") and src.args and U(src.args[0]) == U(graph)
                if good:
                    # the graph variable is not rebound between the order computation and the call
                    good = not _rebound_between(src, n, U(graph))
                cx.require(good, n, "first argument derives from run_order(G)/toposort_flatten(G) with G the same variable passed as the graph")
    if sites == 0:
        cx.bad(m.func("run", "C01.R5"), "dr.run evaluates through run_components(run_order(G), G, broker)", construct="(no run_components call site)")


def r5b_graph_as_requested(cx):
    """What takes part in the evaluation is what determine_components() made of the request.  A component added to the graph by dr.run itself (e.g. an empty
    entry for a dependency that was left out on purpose) is ordered as if it had no dependencies and runs although it was not asked for."""
    cx.rule("C01.R5", "every run_components call passes an order computed by toposort from the same graph", floor=2)
    m = cx.repo.module(DR)
    fn = m.func("run", "C01.R5")
    calls = [c for c in find_calls(fn.body, name="run_components")]
    if not calls or len(calls[0].args) < 2 or not isinstance(calls[0].args[1], ast.Name):
        return
    g = calls[0].args[1].id
    bad = []
    for a in walk_body(fn.body):
        if isinstance(a, ast.Assign) and any(isinstance(t, ast.Name) and t.id == g for t in a.targets):
            v = U(a.value)
            if not (v.startswith("determine_components(") or v == "%s or COMPONENTS[GROUPS.single]" % g):
                bad.append(a)
        elif isinstance(a, (ast.Subscript,)) and isinstance(a.ctx, ast.Store) and U(a.value) == g:
            bad.append(a)
        elif isinstance(a, ast.Call) and isinstance(a.func, ast.Attribute) and U(a.func.value) == g and a.func.attr in ("update", "setdefault", "__setitem__"):
            bad.append(a)
    cx.require(not bad, bad[0] if bad else fn, "dr.run evaluates the graph determine_components() returned: it may prune it (hydrated archives) but never adds components or rebuilds it",
               construct=short(bad[0]) if bad else "graph variable '%s' only determined and pruned" % g)
    # the values of the graph are the registry's own dependency sets (get_dependency_graph / get_subgraphs hand them out uncopied): pruning removes
    # keys of the graph, it never edits a dependency set - that would change the registry for every later evaluation in the process
    SETMUT = ("clear", "discard", "remove", "add", "update", "pop", "difference_update", "intersection_update", "symmetric_difference_update")
    alias = set(t.id for a in walk_body(fn.body) if isinstance(a, ast.Assign) and isinstance(a.value, ast.Subscript) and U(a.value.value) == g for t in a.targets if isinstance(t, ast.Name))
    alias |= set(t.id for a in walk_body(fn.body) if isinstance(a, ast.Assign) and isinstance(a.value, ast.Call) and call_attr(a.value) == "get" and U(a.value.func.value) == g for t in a.targets if isinstance(t, ast.Name))
    mut = []
    for a in walk_body(fn.body):
        if isinstance(a, ast.Call) and isinstance(a.func, ast.Attribute) and a.func.attr in SETMUT:
            r_ = a.func.value
            if (isinstance(r_, ast.Subscript) and U(r_.value) == g) or (isinstance(r_, ast.Name) and r_.id in alias) or (isinstance(r_, ast.Call) and call_attr(r_) == "get" and U(r_.func.value) == g):
                mut.append(a)
        elif isinstance(a, ast.AugAssign) and ((isinstance(a.target, ast.Subscript) and U(a.target.value) == g) or (isinstance(a.target, ast.Name) and a.target.id in alias)):
            mut.append(a)
    cx.require(not mut, mut[0] if mut else fn, "dr.run never edits a dependency set of the graph (they are the registry's live sets, shared with every later evaluation)",
               construct=short(mut[0]) if mut else "no mutation of %s[...]" % g)


def _trace_to_call(expr, at):
    if isinstance(expr, ast.Call):
        return expr
    if isinstance(expr, ast.Name):
        fn = enclosing_function(at)
        if fn is None:
            return None
        defs = [n for n in walk_body(fn.body) if isinstance(n, ast.Assign) and any(isinstance(t, ast.Name) and t.id == expr.id for t in n.targets)]
        defs = [d for d in defs if d.lineno <= at.lineno]
        if len(defs) == 1:
            return _trace_to_call(defs[0].value, defs[0])
    return None


def _rebound_between(a, b, name):
    fn = enclosing_function(b)
    if fn is None or a is b or any(x is b for x in ancestors(a)):
        return False
    for n in walk_body(fn.body):
        if isinstance(n, ast.Name) and n.id == name and isinstance(n.ctx, ast.Store):
            if a.lineno < n.lineno <= b.lineno:
                return True
    return False


def r6_toposort_shape(cx):
    cx.rule("C01.R6", "toposort yields exactly the dependency-free items and removes them from the rest", floor=3)
    m = cx.repo.module(TOPO)
    fn = m.func("toposort", "C01.R6")
    yields = [n for n in walk_body(fn.body) if isinstance(n, ast.Yield)]
    if not yields:
        cx.unknown(fn, "toposort is no longer a generator of batches")
        return
    loops = [s for s in walk_body(fn.body) if isinstance(s, ast.While)]
    if not loops:
        cx.unknown(fn, "toposort has no batch loop")
        return
    lp = loops[0]
    # batch = set(item for item, dep in data.items() if len(dep) == 0)  /  if not dep
    batch_def = None
    for n in walk_body(lp.body):
        if isinstance(n, ast.Assign) and len(n.targets) == 1 and isinstance(n.targets[0], ast.Name):
            v = n.value
            if isinstance(v, ast.Call) and call_name(v) in ("set", "frozenset") and v.args and isinstance(v.args[0], (ast.GeneratorExp, ast.ListComp)):
                batch_def = n
                break
            if isinstance(v, ast.SetComp):
                batch_def = n
                break
    if batch_def is None:
        cx.unknown(lp, "cannot find the batch construction 'set(item for item, dep in data.items() if <dep empty>)'")
        return
    comp = batch_def.value.args[0] if isinstance(batch_def.value, ast.Call) else batch_def.value
    gen = comp.generators[0]
    conds = [U(c) for c in gen.ifs]
    tvars = [U(e) for e in gen.target.elts] if isinstance(gen.target, ast.Tuple) else [U(gen.target)]
    depv = tvars[1] if len(tvars) > 1 else None
    empty_forms = set(["len(%s) == 0" % depv, "not %s" % depv, "not len(%s)" % depv, "%s == set()" % depv])
    cx.require(len(conds) == 1 and conds[0] in empty_forms and U(comp.elt) == tvars[0] and call_attr(gen.iter) == "items",
               batch_def, "a batch is exactly the items whose remaining dependency set is empty")
    bname = batch_def.targets[0].id
    cx.require(any(isinstance(y.value, ast.Name) and y.value.id == bname for y in yields), yields[0],
               "the yielded batch is the dependency-free set just computed")
    # rebinding: data = dict((item, dep - batch) for item, dep in data.items() if item not in batch)
    reb = None
    for n in walk_body(lp.body):
        if isinstance(n, ast.Assign) and n.lineno > batch_def.lineno and isinstance(n.value, (ast.Call, ast.DictComp)):
            txt = U(n.value)
            if ".items()" in txt and bname in txt:
                reb = n
    if reb is None:
        cx.unknown(lp, "cannot find the rebinding of the graph after a batch is emitted")
        return
    txt = U(reb.value)
    cx.require(("- %s" % bname) in txt or (".difference(%s)" % bname) in txt, reb, "the emitted batch is subtracted from every remaining dependency set")
    cx.require(("not in %s" % bname) in txt, reb, "the emitted items are dropped from the remaining graph")
    # break when no batch
    brk = [n for n in walk_body(lp.body) if isinstance(n, ast.Break)]
    cx.require(bool(brk) and (("not %s" % bname), True) in guard_texts(brk[0], stop=lp) or bool(brk) and ((bname, False) in guard_texts(brk[0], stop=lp)),
               brk[0] if brk else lp, "the loop ends only when no dependency-free item is left")
    # cyclic leftover raises
    cx.require(any(isinstance(n, ast.Raise) for n in walk_body(fn.body)), fn, "left-over (cyclic) items raise instead of being emitted", construct="raise after the loop")
    # toposort_flatten extends once per batch
    tf = m.func("toposort_flatten", "C01.R6")
    loops = [s for s in walk_body(tf.body) if isinstance(s, ast.For) and isinstance(s.iter, ast.Call) and call_attr(s.iter) == "toposort"]
    ok = False
    for l2 in loops:
        ext = [c for c in walk_body(l2.body) if isinstance(c, ast.Call) and call_attr(c) in ("extend", "append")]
        ok = len(ext) == 1 and not any(isinstance(x, (ast.Break, ast.Continue, ast.Return)) for x in walk_body(l2.body))
    cx.require(ok, tf, "toposort_flatten appends every batch exactly once, in batch order", construct=short(loops[0]) if loops else "def toposort_flatten")


def r7_closure(cx):
    cx.rule("C01.R7", "dependency closure visits every dependency edge", floor=3)
    m = cx.repo.module(DR)
    wd = m.func("walk_dependencies", "C01.R7")
    inner = [n for n in wd.body if isinstance(n, FUNC_TYPES)]
    if not inner:
        cx.unknown(wd, "walk_dependencies has no inner visit function")
        return
    visit = inner[0]
    loops = [s for s in walk_body(visit.body) if isinstance(s, ast.For)]
    if not loops:
        cx.unknown(visit, "no loop over get_dependencies(parent)")
        return
    lp = loops[0]
    p = params(visit)
    cx.require(isinstance(lp.iter, ast.Call) and call_attr(lp.iter) == "get_dependencies" and U(lp.iter.args[0]) == p[0], lp,
               "visit iterates over all get_dependencies(parent)", construct="for %s in %s" % (U(lp.target), U(lp.iter)))
    tv = U(lp.target)
    body_calls = [c for c in walk_body(lp.body) if isinstance(c, ast.Call)]
    vis_name = p[1] if len(p) > 1 else params(wd)[1]      # the visitor is a parameter of visit() or closed over from walk_dependencies
    p = [p[0], vis_name]
    calls_visitor = any(call_name(c) == p[1] and len(c.args) >= 2 and U(c.args[0]) == tv and U(c.args[1]) == p[0] for c in body_calls)
    recurses = any(call_name(c) == visit.name and c.args and U(c.args[0]) == tv for c in body_calls)
    no_exit = not any(isinstance(x, (ast.Break, ast.Continue, ast.Return)) for x in walk_body(lp.body))
    uncond = all(not guard_texts(c, stop=lp) for c in body_calls if call_name(c) in (p[1], visit.name))
    cx.require(calls_visitor and recurses and no_exit and uncond, lp,
               "every dependency is reported to the visitor and recursed into, unconditionally and without early exit")
    # the walk below a node is cut short only by state of this one walk: a 'seen' set handed in from outside (shared between the roots of
    # determine_components, whose graph.update replaces whole entries) turns a complete entry into a partial one
    guarded = [(x, t) for x in walk_body(visit.body) if isinstance(x, (ast.Return, ast.Continue)) for t, pol in guard_texts(x) if " in " in t]
    outside = set(params(wd)) - set([params(wd)[0], vis_name])
    leak = [x for x, t in guarded if any(("in %s" % o) in t for o in outside)]
    cx.require(not leak, leak[0] if leak else wd, "a walk never skips a component because of state handed in from another walk", construct=short(leak[0]) if leak else "def walk_dependencies(%s)" % ", ".join(params(wd)))
    dc = m.func("determine_components", "C01.R7")
    gcalls = [c for c in find_calls(dc.body) if call_name(c) in ("get_dependency_graph", "dr.get_dependency_graph")]
    cx.require(bool(gcalls) and all(len(c.args) == 1 and not c.keywords for c in gcalls), gcalls[0] if gcalls else dc,
               "determine_components computes the graph of every root on its own (nothing shared between the walks: the per-root graphs are merged entry by entry)",
               construct="; ".join(short(c, 50) for c in gcalls) or "(no get_dependency_graph call)")
    g = m.func("get_dependency_graph", "C01.R7")
    vis = [n for n in g.body if isinstance(n, FUNC_TYPES)]
    ok = False
    for v in vis:
        vp = params(v)
        for n in walk_body(v.body):
            if isinstance(n, ast.Call) and call_attr(n) == "add" and isinstance(n.func.value, ast.Subscript) and U(n.func.value.slice) == vp[1] and U(n.args[0]) == vp[0]:
                gt = guard_texts(n)
                ok = gt <= set([("%s is None" % vp[1], False)])
    cx.require(ok, g, "the visitor records the edge parent -> child for every visited pair", construct="graph[parent].add(c)")
    # leaves get empty dependency sets (so that they take part in the ordering)
    txt = U(g)
    empties = [a for a in walk_body(g.body) if isinstance(a, ast.Assign) and isinstance(a.targets[0], ast.Subscript) and U(a.value) == "set()" and enclosing(a, ast.For) is not None]
    cx.require("set()" in txt and (".update(" in txt or "setdefault" in txt or bool(empties)), g,
               "components without dependencies are added to the graph with an empty dependency set", construct="graph.update(dict((item, set()) ...))")


GRAPH_TABLES = ("DEPENDENCIES", "DEPENDENTS")
GRAPH_ATTRS = ("dependencies", "deps", "requires", "at_least_one", "optional")


def _graph_writers(m):
    """Functions / methods of dr.py that change the dependency graph after import: stores or mutating calls on DEPENDENCIES / DEPENDENTS or on a
    delegate's dependency lists."""
    out = []
    for fn in [f for f in ast.walk(m.tree) if isinstance(f, FUNC_TYPES)]:
        if fn.name == "__init__":
            continue
        hit = False
        for x in walk_body(fn.body):
            tgt = None
            if isinstance(x, ast.Call) and isinstance(x.func, ast.Attribute) and x.func.attr in feat.MUTATORS:
                tgt = x.func.value
            elif isinstance(x, ast.Subscript) and isinstance(x.ctx, (ast.Store, ast.Del)):
                tgt = x.value
            elif isinstance(x, ast.AugAssign):
                tgt = x.target
            if tgt is None:
                continue
            t = U(tgt)
            if any(t == g or t.startswith(g + "[") for g in GRAPH_TABLES) or (isinstance(tgt, ast.Attribute) and tgt.attr in GRAPH_ATTRS) \
                    or (isinstance(tgt, ast.Subscript) and isinstance(tgt.value, ast.Attribute) and tgt.value.attr in GRAPH_ATTRS):
                hit = True
        if hit:
            out.append(fn)
    return out


def r9_graph_queries_live(cx):
    """Every decision of the engine (order, closure, sub-graphs, registry points, contexts, filters) is a walk over the dependency graph, and the graph
    grows after import (add_dependency on a registry point, late registration).  A walk answered from a module-level memo must therefore be
    invalidated by *every* function that changes the graph; a memo cleared only on registration hands out the graph as it was."""
    cx.rule("C01.R9", "graph queries answer from the live dependency graph (a memo is cleared by every writer of the graph)", floor=1)
    m = cx.repo.module(DR)
    writers = _graph_writers(m)
    if len(writers) < 3:
        cx.unknown(m.tree.body[0], "expected at least three writers of the dependency graph in dr.py (add_dependent, add_dependency, _register_component), found %s" % [w.name for w in writers])
        return
    memos = []
    for fn in [f for f in ast.walk(m.tree) if isinstance(f, FUNC_TYPES)]:
        if fn in writers or fn.name in ("set_enabled", "__init__"):
            continue
        ps = set(params(fn))
        for a in walk_body(fn.body):
            if isinstance(a, ast.Assign) and isinstance(a.targets[0], ast.Subscript) and isinstance(a.targets[0].value, ast.Name) and m.top.get(a.targets[0].value.id) is not None:
                tbl = a.targets[0].value.id
                key_names = set(x.id for x in ast.walk(a.targets[0].slice) if isinstance(x, ast.Name))
                for k in list(key_names):
                    for d in assigns_to(fn, k):
                        if getattr(d, "value", None) is not None:
                            key_names |= set(x.id for x in ast.walk(d.value) if isinstance(x, ast.Name))
                reads_back = any(isinstance(x, ast.Name) and x.id == tbl and isinstance(x.ctx, ast.Load) and x is not a.targets[0].value for x in ast.walk(fn))
                if key_names & ps and reads_back:
                    memos.append((fn, tbl, a))
    if not memos:
        cx.ok(m.tree.body[0], "no graph query of dr.py keeps its answers in a module-level table (%d graph writers: %s)" % (len(writers), ", ".join(sorted(w.name for w in writers))),
              construct="no memo in dr.py")
        return
    allf = [f for f in ast.walk(m.tree) if isinstance(f, FUNC_TYPES)]
    for fn, tbl, a in memos:
        def _clears(w, depth=0):
            if any(isinstance(c, ast.Call) and isinstance(c.func, ast.Attribute) and U(c.func.value) == tbl and c.func.attr == "clear" for c in ast.walk(w)) \
                    or any(isinstance(x, ast.Assign) and any(U(t) == tbl for t in x.targets) for x in ast.walk(w)):
                return True
            if depth >= 2:
                return False
            # unconditionally calls a function of this module that clears it (add_dependency -> add_dependent -> clear)
            for st in w.body:
                if isinstance(st, ast.Expr) and isinstance(st.value, ast.Call):
                    nm = call_name(st.value) or call_attr(st.value)
                    nm = (nm or "").split(".")[-1]
                    if any(g.name == nm and g is not w and _clears(g, depth + 1) for g in allf):
                        return True
            return False
        missing = [w.name for w in writers if not _clears(w)]
        cx.require(not missing, a, "the memo %s of %s is cleared by every writer of the dependency graph" % (tbl, fn.name),
                   construct="%s; not cleared in: %s" % (short(a, 50), ", ".join(sorted(set(missing)))) if missing else short(a, 60))


def run(cx):
    repo = cx.repo
    cx.extra["explanation"] = ("C01: guards of the execution call, the no-overwrite test of Broker.__setitem__, who-may-write Broker.instances, "
                               "who-may-call delegate.process, provenance of the order passed to run_components, shape of toposort and of the dependency closure.")
    cx.undecided = ["that toposort as an algorithm yields a linear extension for every graph (R6 checks its shape only)",
                    "absence of duplicates in a caller-supplied order passed directly to run_components"]
    anchor = [repo.module(DR), repo.module(TOPO), repo.module("insights.core.plugins"), repo.module("insights.core.evaluators"),
              repo.module("insights"), repo.module("insights.core.serde"), repo.module("insights.core.hydration"), repo.module("insights.collect"),
              repo.module("insights.core.spec_factory"), repo.module("insights.shell")]
    mods = repo.all_modules() if cx.tier == "thorough" else anchor
    cx.guard(r1_run_guard)
    cx.guard(r2_no_overwrite)
    cx.guard(r3_single_writer, mods)
    cx.guard(r4_who_may_call, mods)
    cx.guard(r5_order_provenance, mods)
    cx.guard(r5b_graph_as_requested)
    cx.guard(r6_toposort_shape)
    cx.guard(r7_closure)
    cx.guard(r9_graph_queries_live)
    # "at most once" also rests on the decomposition into sub-graphs and on the drivers (C04.R4 / C04.R5)
    from . import c04
    cx.borrow(c04.r4_subgraphs, "C04.R4", "C01.R8", "sub-graph decomposition and drivers never evaluate a component in two sub-graphs (C04.R4/R5)")
    cx.borrow(c04.r5_sibling_drivers, "C04.R5", "C01.R8", "sub-graph decomposition and drivers never evaluate a component in two sub-graphs (C04.R4/R5)")
