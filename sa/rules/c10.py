"""C10 - cleaning is a deterministic, order-preserving function of content and configuration."""
import ast

from ..model import (AnalysisError, FUNC_TYPES, U, call_attr, call_name, dotted, enclosing, enclosing_function, guard_texts, guards_ex,
                     short, walk_body, walk_local, ancestors, parent, const_str, kwarg)
from ..util import params, find_calls, assigns_to, trace, stmt_of, has_exit, syn_dominates, lexically_before, line_loop, some_truthy
from ..settype import Kinds, iterations, classify_sinks
from . import cleaner_shape as shape
from .. import feat

CL = "insights.cleaner"
SF = "insights.core.spec_factory"
STAGES = [("insights.cleaner.pattern", "Pattern"), ("insights.cleaner.filters", "AllowFilter"), ("insights.cleaner.keyword", "Keyword"),
          ("insights.cleaner.password", "Password"), ("insights.cleaner.ip", "IPv4"), ("insights.cleaner.ip", "IPv6"),
          ("insights.cleaner.hostname", "Hostname"), ("insights.cleaner.mac", "Mac")]


def r1_hash_free(cx):
    cx.rule("C10.R1", "the pipeline and every stage iterate only ordered containers", floor=15)
    repo = cx.repo
    mods = [repo.module(CL)] + [repo.module(mn) for mn, _ in STAGES]
    kinds = Kinds(repo, mods)
    cm = repo.module(CL)
    region = [(cm, cm.func("Cleaner.clean_content", "C10.R1"))]
    for mn, cn in STAGES:
        m = repo.module(mn)
        c = m.cls(cn, "C10.R1")
        for st in c.body:
            if isinstance(st, FUNC_TYPES) and st.name not in ("mapping", "generate_report", "__init__"):
                region.append((m, st))
        init = [st for st in c.body if isinstance(st, FUNC_TYPES) and st.name == "__init__"]
        if init:
            region.append((m, init[0]))
    for m, fn in region:
        targets = [fn] + [n for n in ast.walk(fn) if isinstance(n, FUNC_TYPES) and n is not fn]
        for f in targets:
            its = iterations(f)
            for it in its:
                q = getattr(f, "_qual", f.name)
                if not kinds.unordered(it.iterable, f):
                    cx.ok(it.node, "%s iterates an ordered expression" % q, construct="%s over %s" % (it.kind, short(it.iterable, 80)))
                    continue
                sinks = classify_sinks(it)
                # in the per-line pipeline any iteration order that reaches the line or the parser list matters
                touches = [s for s in sinks if s[1] in ("ordered", "first-match")]
                body_assigns_line = it.kind == "for" and any(isinstance(n, ast.Assign) and any(U(t) == "line" for t in n.targets) for n in walk_body(it.body))
                if touches or body_assigns_line:
                    what = touches[0][2] if touches else "successive rewriting of 'line'"
                    cx.bad(it.node, "%s iterates the hash-ordered expression '%s' into %s: the output depends on PYTHONHASHSEED" % (q, short(it.iterable, 70), what),
                           construct="%s over %s -> %s" % (it.kind, short(it.iterable, 70), what))
                else:
                    cx.ok(it.node, "%s iterates an unordered expression into commutative sinks only" % q, construct="%s over %s" % (it.kind, short(it.iterable, 70)))
    # what the stage constructors are given must not carry a hash-dependent order either (Keyword numbers its substitutes in list order)
    init = cm.func("Cleaner.__init__", "C10.R1")
    stage_names = set(cn for mn, cn in STAGES)
    for c in [x for x in ast.walk(init) if isinstance(x, ast.Call) and call_name(x) in stage_names]:
        for a in list(c.args) + [k.value for k in c.keywords]:
            src = trace(a, init)
            if kinds.unordered(src, init):
                cx.bad(c, "%s(...) is configured from the hash-ordered expression '%s': the stage's behaviour (e.g. the numbering of keyword substitutes) depends on PYTHONHASHSEED" % (call_name(c), short(src, 80)),
                       construct="%s(%s) with %s = %s" % (call_name(c), U(a), U(a), short(src, 80)))
            else:
                cx.ok(c, "%s is configured from an ordered expression" % call_name(c), construct="%s(%s)" % (call_name(c), short(src, 60)))
    # fixed stage order: redact, allow-list, obfuscators
    cc = cm.func("Cleaner.clean_content", "C10.R1")
    plist, pdef = shape.stage_list_name(cc)
    cx.require(plist is not None, pdef if pdef is not None else cc, "the stage list is a fresh ordered list per call", construct=short(pdef) if pdef is not None else "(none)")
    if plist is None:
        return
    aps = [x for x in find_calls(cc.body, attr="append") if U(x.func.value) == plist]
    red = [x for x in aps if "self.redact['pattern']" in U(x)]
    alw = [x for x in aps if "allow_filter" in U(x) or "AllowFilter" in U(x)]
    ent = shape.obfuscator_entries(cc, plist)
    ok = bool(red) and bool(alw) and ent is not None and lexically_before(red[0], alw[0]) and lexically_before(alw[0], ent[0])
    cx.require(ok, cc, "stage order is fixed by program order: redaction, allow-list filter, then the obfuscators", construct="%s order: redact < allow_filter < obfuscators" % plist)
    if ent is not None:
        node, it, atoms, elt, tv, exits = ent
        ordered, over_all, minus, rest = shape.name_set_meaning(it, cc, tv, atoms)
        cx.require(ordered, node, "the obfuscators are applied in one fixed order: the names are iterated through sorted() (no key function, which could leave ties in hash order)",
                   construct="for %s in %s" % (tv, short(it, 100)))


def r1b_no_process_salt(cx):
    """'independent of the process hash seed': nothing the cleaner writes may be derived from the salted builtin hash() (str / bytes hashing differs per
    process), from object identity or from a random source.  Sweep over every module of insights.cleaner."""
    cx.rule("C10.R1", "the pipeline and every stage iterate only ordered containers", floor=15)
    n = 0
    for mn in cx.repo.module_names("insights.cleaner"):
        m = cx.repo.module(mn)
        n += 1
        bad = [c for c in ast.walk(m.tree) if isinstance(c, ast.Call) and (call_name(c) in ("hash", "os.urandom", "uuid.uuid4", "uuid.uuid1")
                                                                          or (call_name(c) or "").startswith(("random.", "secrets.")))]
        cx.require(not bad, bad[0] if bad else m.tree.body[0], "%s derives nothing from the per-process hash salt or a random source" % mn, construct=short(bad[0], 80) if bad else mn)
    if n < 5:
        cx.error("expected the modules of insights.cleaner, found %d" % n)


def r2_one_to_one(cx):
    cx.rule("C10.R2", "one output line per kept input line, original order restored", floor=4)
    cm = cx.repo.module(CL)
    cc = cm.func("Cleaner.clean_content", "C10.R2")
    lines = params(cc)[1]
    shape.ensure_line_loop(cc, lines)
    loops = [s for s in cc.body if isinstance(s, ast.For) and line_loop(s, lines)[0] is not None]
    if not loops:
        cx.unknown(cc, "no loop over the lines")
        return
    lp = loops[0]
    order, cur = line_loop(lp, lines)
    desc, asc = order == "desc", order == "asc"
    cx.require(desc or asc, lp, "the loop visits every line exactly once, monotonically", construct="for %s in %s" % (U(lp.target), U(lp.iter)))
    plist, _pd = shape.stage_list_name(cc)
    hf, hcalls, _pp, hok = shape.clean_line_helper(cm, cc, plist) if plist is not None else (None, [], None, False)
    cl = [a for a in walk_body(lp.body) if isinstance(a, ast.Assign) and isinstance(a.value, ast.Call) and any(a.value is c for c in hcalls)]
    ok = len(cl) == 1 and U(cl[0].value.args[0]) == cur and hok
    cx.require(ok, cl[0] if cl else lp, "each output line derives from exactly the input line of this iteration", construct=short(cl[0]) if cl else "(none)")
    aps = [x for x in find_calls(lp.body, attr="append") if U(x.func.value) == "result"]
    ok = len(aps) == 1 and bool(cl) and U(aps[0].args[0]) == U(cl[0].targets[0]) and enclosing(aps[0], (ast.For, ast.While)) is lp
    cx.require(ok, aps[0] if aps else lp, "at most one result is appended per input index", construct=short(aps[0]) if aps else "(none)")
    how, rnode = shape.reversal(cc, "result")
    rets = [r for r in walk_body(cc.body) if isinstance(r, ast.Return) and U(r.value) == "result"]
    if desc:
        if how == "inplace":
            ok = len(rets) == 1 and syn_dominates(stmt_of(rnode), rets[0]) and enclosing(rnode, (ast.For, ast.While)) is None and syn_dominates(lp, rnode)
        elif how == "copy":
            ok = not rets and enclosing(rnode, (ast.For, ast.While)) is None and syn_dominates(lp, rnode)
        else:
            ok = False
        cx.require(ok, rnode if rnode is not None else cc, "lines are processed bottom-up and the result is reversed exactly once on the path that returns it",
                   construct=short(rnode) if rnode is not None else "(no result.reverse())")
    else:
        cx.require(how is None, rnode if rnode is not None else cc, "ascending loop: the result is returned without reversal", construct="return result")


def r3_empty(cx):
    cx.rule("C10.R3", "a spec left with no non-blank line is dropped instead of stored empty", floor=5)
    cm = cx.repo.module(CL)
    cc = cm.func("Cleaner.clean_content", "C10.R3")
    lines_p = params(cc)[1]
    shape.ensure_line_loop(cc, lines_p)
    plist, _pd = shape.stage_list_name(cc)
    hf, hcalls, _pp, hok = shape.clean_line_helper(cm, cc, plist) if plist is not None else (None, [], None, False)
    res_ret = [r for r in walk_body(cc.body) if isinstance(r, ast.Return) and r.value is not None and U(r.value) in ("result", "result[::-1]", "list(reversed(result))")]
    empties = [r for r in walk_body(cc.body) if isinstance(r, ast.Return) and U(r.value) == "[]"]
    ok = bool(empties) and bool(res_ret)
    if ok:
        g = set(guard_texts(res_ret[0]))
        ok = some_truthy(g, "result") is True
        # and the [] return covers the complementary case
        ge = set(guard_texts(empties[-1]))
        ok = ok and (some_truthy(ge, "result") is False or empties[-1] is cc.body[-1])
    cx.require(ok, res_ret[0] if res_ret else cc, "the cleaned list is returned only when some line is truthy; otherwise [] is returned",
               construct="if result and any(l for l in result): ... return result ; return []")
    for r in [x for x in walk_body(cc.body) if isinstance(x, ast.Return) and enclosing_function(x) is cc]:
        if r in res_ret or r in empties:
            continue
        if isinstance(r.value, ast.Call) and any(r.value is c for c in hcalls) and U(r.value.args[0]) == lines_p and ("isinstance(%s, list)" % lines_p, False) in guard_texts(r) and hok:
            cx.ok(r, "a single string is cleaned as one line", construct=short(r))
            continue
        cx.bad(r, "every list returned by clean_content went through the line loop and the all-blank collapse (an early return of the input bypasses both)", construct=short(r) + " guarded by %s" % sorted(guard_texts(r)))
    sf = cx.repo.module(SF)
    f = sf.func("ContentProvider._clean_content", "C10.R3")
    rs = [r for r in walk_body(f.body) if isinstance(r, ast.Raise) and "ContentException" in U(r.exc)]
    call = find_calls(f.body, attr="clean_content")
    ok = bool(rs) and bool(call) and ("content", False) in set((U(e), p) for e, p in [(x[0], x[1]) for x in _g(rs[0])]) and syn_dominates(stmt_of(call[0]), rs[0])
    cx.require(ok, rs[0] if rs else f, "_clean_content raises ContentException when nothing is left after cleaning", construct="if len(content) == 0: raise ContentException(...)")
    cp = sf.func("ContentProvider.content", "C10.R3")
    rs = [r for r in walk_body(cp.body) if isinstance(r, ast.Raise) and r.exc is not None and "ContentException" in U(r.exc)]
    ok = bool(rs)
    if ok:
        g = set(guard_texts(rs[0]))
        ok = ("self._content", False) in g and ("isinstance(self.ctx, HostContext)", True) in g
    cx.require(ok, rs[0] if rs else cp, "on a host, empty content raises ContentException (an empty spec is not collected)", construct="if len(self._content) == 0 and HostContext: raise ContentException")
    wr = sf.func("ContentProvider.write", "C10.R3")
    cl = [x for x in find_calls(wr.body) if U(x.func) == "self._clean_content"]
    op = [x for x in find_calls(wr.body) if call_name(x) in ("open", "safe_open")]
    ok = bool(cl) and bool(op) and syn_dominates(stmt_of(cl[0]), op[0]) and not guard_texts(cl[0])
    cx.require(ok, op[0] if op else wr, "write() evaluates _clean_content() before the destination file is created (the exception prevents an empty file)",
               construct="content = ...self._clean_content()... ; with open(dst, 'wb')")
    # the serializers do not catch the exception around obj.write
    for q, fn in sf.functions():
        if q.startswith("serialize_"):
            w = find_calls(fn.body, attr="write")
            if w:
                cx.require(enclosing(w[0], ast.Try) is None, w[0], "%s lets the content error propagate (the component is recorded as failed, not stored empty)" % q)


def _g(node):
    out = []
    for e, p, o in guards_ex(node):
        out.append((e, p))
    return out


def r5_no_shared_state(cx):
    """'The same content and configuration in a fresh cleaner gives the same output': whatever a stage learns while cleaning lives on the instance.
    A mutable object bound in the class body and modified through self is one object for every Cleaner of the process."""
    cx.rule("C10.R5", "no stage keeps mutable state on its class (a fresh cleaner starts from nothing)", floor=7)
    stages = [("insights.cleaner.keyword", "Keyword"), ("insights.cleaner.password", "Password"), ("insights.cleaner.ip", "IPv4"), ("insights.cleaner.ip", "IPv6"),
              ("insights.cleaner.hostname", "Hostname"), ("insights.cleaner.mac", "Mac"), ("insights.cleaner.pattern", "Pattern"), (CL, "Cleaner")]
    MUT = ("add", "append", "extend", "update", "insert", "pop", "remove", "discard", "clear", "setdefault", "popitem", "sort", "reverse")
    for mn, cn in stages:
        m = cx.repo.module(mn)
        c = m.cls(cn, "C10.R5")
        shared = {}
        for st in c.body:
            if isinstance(st, ast.Assign) and len(st.targets) == 1 and isinstance(st.targets[0], ast.Name):
                v = st.value
                if isinstance(v, (ast.List, ast.Dict, ast.Set, ast.ListComp, ast.DictComp, ast.SetComp)) or (isinstance(v, ast.Call) and call_name(v) in ("set", "list", "dict", "OrderedDict", "defaultdict", "collections.defaultdict", "collections.OrderedDict", "deque")):
                    shared[st.targets[0].id] = st
        bad = []
        for x in ast.walk(c):
            if isinstance(x, ast.Call) and isinstance(x.func, ast.Attribute) and x.func.attr in MUT and isinstance(x.func.value, ast.Attribute) and U(x.func.value.value) in ("self", "cls", cn) and x.func.value.attr in shared:
                # unless the instance rebinds the name first (self.X = ... in __init__), in which case self.X is the instance's own object
                own = [a for a in ast.walk(c) if isinstance(a, ast.Attribute) and isinstance(a.ctx, ast.Store) and a.attr == x.func.value.attr and U(a.value) == "self"]
                if not own:
                    bad.append(x)
            if isinstance(x, ast.Subscript) and isinstance(x.ctx, (ast.Store, ast.Del)) and isinstance(x.value, ast.Attribute) and U(x.value.value) in ("self", "cls", cn) and x.value.attr in shared:
                own = [a for a in ast.walk(c) if isinstance(a, ast.Attribute) and isinstance(a.ctx, ast.Store) and a.attr == x.value.attr and U(a.value) == "self"]
                if not own:
                    bad.append(x)
        cx.require(not bad, bad[0] if bad else c, "%s modifies no mutable object that is bound in its class body" % cn,
                   construct=short(stmt_of(bad[0]), 90) if bad else "class-level mutables: %s" % (sorted(shared) or "none"))
    # a stage's answer for a line depends on that line and on the substitution tables only: nothing derived from the text of a line is kept on the stage
    # (a 'same as the previous line' shortcut hands out the result of an older line when the rewrite in between failed)
    for mn, cn in stages:
        m = cx.repo.module(mn)
        c = m.cls(cn, "C10.R5")
        pl = [f for f in c.body if isinstance(f, FUNC_TYPES) and f.name == "parse_line"]
        if not pl:
            continue
        lp = params(pl[0])[1] if len(params(pl[0])) > 1 else "line"
        bad = []
        for f in feat.region(m, pl[0]):
            fl = params(f)[1] if len(params(f)) > 1 and f is not pl[0] else lp
            for a in walk_body(f.body):
                tg = a.targets if isinstance(a, ast.Assign) else [a.target] if isinstance(a, ast.AugAssign) else []
                for t in tg:
                    for tt in (t.elts if isinstance(t, ast.Tuple) else [t]):
                        if isinstance(tt, ast.Attribute) and U(tt.value) == "self" and feat.flows_from(a.value, f, lambda n: isinstance(n, ast.Name) and n.id == fl):
                            bad.append(a)
        cx.require(not bad, bad[0] if bad else pl[0], "%s.parse_line keeps nothing derived from the text of a line on the stage object" % cn, construct=short(bad[0], 80) if bad else "def %s.parse_line" % cn)
    # the writer puts exactly one separator between two cleaned lines (C11.R9 re-checked): a missing one glues two lines into one
    from . import c11
    cx.borrow(c11.r9_line_separator, "C11.R9", "C10.R2", "one output line per kept input line, original order restored")


def run(cx):
    cx.extra["explanation"] = ("C10: set-type lint over Cleaner.clean_content and every pipeline stage (hash-ordered iteration into the parser list or into successive rewrites of the line), "
                               "fixed stage order, one-to-one / reverse-once shape of the line loop, empty-collapse chain up to ContentProvider.write.")
    cx.undecided = ["INFO: Keyword.mapping()/report iterate the set of replaced keywords (order of the *report*, not of cleaned content, is hash dependent)"]
    cx.guard(r1_hash_free)
    cx.guard(r1b_no_process_salt)
    cx.current = cx.rule("C10.R1", "the pipeline and every stage iterate only ordered containers", floor=15)
    cx.guard(feat.check_no_module_level_one_shots, [cx.repo.module(mn_) for mn_ in cx.repo.module_names("insights.cleaner")], "cleaner tables")
    cx.guard(r2_one_to_one)
    cx.guard(r3_empty)
    cx.guard(r5_no_shared_state)
    # a function of content and configuration only: cleaning must not write into its own configuration (the allow-list budgets
    # live in a table shared through the filter cache; consuming them in place makes the next call see a different configuration)
    from . import c07
    cx.borrow(c07.r7_copy_before_mutation, "C07.R7", "C10.R4", "cleaning never modifies the configuration it was given (budget bookkeeping works on private copies; C07.R7)", [])
