"""C05 - the latest implementation for the active context supplies a spec."""
import ast

from ..model import (AnalysisError, FUNC_TYPES, U, call_attr, call_name, dotted, enclosing, guard_texts, short, walk_body, ancestors, parent, kwarg)
from ..absint import unroll_literal_loops
from ..util import params, find_calls, trace, stmt_of, has_exit, syn_dominates
from . import c02, c04

DR = "insights.core.dr"
SF = "insights.core.spec_factory"


def r1_selection(cx):
    cx.rule("C05.R1", "a registry point returns the value of the last registered implementation present in the broker", floor=3)
    m = cx.repo.module(SF)
    fn = m.func("RegistryPoint.__call__", "C05.R1")
    b = params(fn)[1]
    loops = [s for s in fn.body if isinstance(s, ast.For)]
    if not loops:
        # first-match written with next(): latest = next((c for c in reversed(deps) if c in broker), SENTINEL); if latest is SENTINEL: raise SkipComponent(); return broker[latest]
        nx = [x for x in find_calls(fn.body, name="next") if len(x.args) == 2 and isinstance(x.args[0], ast.GeneratorExp) and len(x.args[0].generators) == 1]
        if len(nx) == 1 and isinstance(stmt_of(nx[0]), ast.Assign) and isinstance(stmt_of(nx[0]).targets[0], ast.Name) and stmt_of(nx[0]).value is nx[0]:
            ge, g0 = nx[0].args[0], nx[0].args[0].generators[0]
            res, sent = stmt_of(nx[0]).targets[0].id, U(nx[0].args[1])
            it = g0.iter
            base = it.args[0] if isinstance(it, ast.Call) and call_name(it) == "reversed" and it.args else None
            bt = U(trace(base, fn)) if base is not None else ""
            cx.require(base is not None and bt in ("dr.get_delegate(self).deps", "get_delegate(self).deps", "dr.DELEGATES[self].deps"), nx[0],
                       "implementations are scanned in reverse registration order over the ordered deps list (latest first)", construct=short(nx[0], 100))
            tv = U(g0.target)
            cx.require(U(ge.elt) == tv and [U(i) for i in g0.ifs] == ["%s in %s" % (tv, b)], nx[0], "the first implementation present in the broker is returned as is (guard: only 'c in broker')",
                       construct=short(ge, 90))
            rets = [r for r in walk_body(fn.body) if isinstance(r, ast.Return)]
            rs = [r for r in walk_body(fn.body) if isinstance(r, ast.Raise)]
            fresh = m.top.get(sent) is not None and U(m.top.get(sent)) == "object()"
            ok = len(rets) == 1 and U(rets[0].value) == "%s[%s]" % (b, res) and len(rs) == 1 and "SkipComponent" in U(rs[0]) and fresh \
                and (("%s is %s" % (res, sent), True) in guard_texts(rs[0]) or ("%s is not %s" % (res, sent), False) in guard_texts(rs[0])) \
                and (("%s is %s" % (res, sent), False) in guard_texts(rets[0]) or ("%s is not %s" % (res, sent), True) in guard_texts(rets[0]))
            cx.require(ok, rs[0] if rs else fn, "when no implementation produced a value the spec is absent (SkipComponent), never filled from elsewhere",
                       construct="%s / %s" % (short(rs[0], 40) if rs else "(no raise)", short(rets[0], 40) if rets else "(no return)"))
            return
        cx.bad(fn, "RegistryPoint.__call__ scans its implementations", construct="(no loop)")
        return
    lp = loops[0]
    it = lp.iter
    rev = False
    base = it
    if isinstance(it, ast.Call) and call_name(it) == "reversed" and it.args:
        rev, base = True, it.args[0]
    elif isinstance(it, ast.Subscript) and isinstance(it.slice, ast.Slice) and it.slice.step is not None and U(it.slice.step) == "-1" and it.slice.lower is None and it.slice.upper is None:
        rev, base = True, it.value
    bt = U(base)
    ordered_deps = bt in ("dr.get_delegate(self).deps", "get_delegate(self).deps", "dr.DELEGATES[self].deps")
    cx.require(rev and ordered_deps, lp, "implementations are scanned in reverse registration order over the ordered deps list (latest first)",
               construct="for %s in %s" % (U(lp.target), U(it)))
    tv = U(lp.target)
    rets = [r for r in walk_body(lp.body) if isinstance(r, ast.Return)]
    ok = len(rets) == 1 and U(rets[0].value) == "%s[%s]" % (b, tv) and guard_texts(rets[0], stop=lp) == set([("%s in %s" % (tv, b), True)])
    cx.require(ok, rets[0] if rets else lp, "the first implementation present in the broker is returned as is (guard: only 'c in broker')",
               construct=short(rets[0]) if rets else "(no return in loop)")
    after = [s for s in fn.body if s.lineno > lp.lineno]
    ok = len(after) == 1 and isinstance(after[0], ast.Raise) and "SkipComponent" in U(after[0])
    cx.require(ok, after[0] if after else fn, "when no implementation produced a value the spec is absent (SkipComponent), never filled from elsewhere",
               construct=short(after[0]) if after else "(falls off: returns None)")


def r2_registration_order(cx):
    cx.rule("C05.R2", "registration appends implementations in order and wires the context handler afterwards", floor=4)
    d = cx.repo.module(DR)
    fn = d.func("ComponentType.add_dependency", "C05.R2")
    dep = params(fn)[1]
    app = [c for c in find_calls(fn.body) if isinstance(c.func, ast.Attribute) and U(c.func.value) == "self.deps"]
    cx.require(len(app) == 1 and app[0].func.attr == "append" and U(app[0].args[0]) == dep and not guard_texts(app[0]), app[0] if app else fn,
               "add_dependency appends the new implementation at the end of deps (registration order preserved)",
               construct=short(app[0]) if app else "(no self.deps.append)")
    bad = [c for c in find_calls(fn.body) if isinstance(c.func, ast.Attribute) and c.func.attr in ("insert", "sort", "reverse") and "deps" in U(c.func.value)]
    reb = [a for a in walk_body(fn.body) if isinstance(a, ast.Assign) and any(U(t) == "self.deps" for t in a.targets)]
    cx.require(not bad and not reb, (bad + reb)[0] if (bad + reb) else fn, "deps is never reordered or rebuilt in add_dependency", construct=short((bad + reb)[0]) if (bad + reb) else "self.deps only appended")
    grp = [c for c in find_calls(fn.body, attr="append") if U(c.func.value) == "self.at_least_one[0]"]
    cx.require(len(grp) == 1 and U(grp[0].args[0]) == dep, grp[0] if grp else fn, "the implementation joins the registry point's at-least-one group",
               construct=short(grp[0]) if grp else "(no self.at_least_one[0].append)")
    s = cx.repo.module(SF)
    rr = s.func("_resolve_registry_points", "C05.R2")
    adds = find_calls(rr.body, attr="add_dependency")
    if not adds:
        cx.bad(rr, "_resolve_registry_points registers same-named datasources on the base registry point", construct="(no dr.add_dependency)")
        return
    a = adds[0]
    g = guard_texts(a)
    loop = enclosing(a, ast.For)
    kv = [U(e) for e in loop.target.elts] if loop is not None and isinstance(loop.target, ast.Tuple) else ["k", "v"]
    point = trace(a.args[0], rr)
    ok = ("is_datasource(%s)" % kv[1], True) in g and ("%s in base.registry" % kv[0], True) in g and U(a.args[1]) == kv[1] and U(point) == "base.registry[%s]" % kv[0]
    if not ok and U(point) in ("base.registry.get(%s)" % kv[0], "base.registry.get(%s, None)" % kv[0]) and isinstance(a.args[0], ast.Name):
        # single look-up form: point = base.registry.get(k); if point is not None: ...   (registry values are RegistryPoint objects)
        pn = a.args[0].id
        ok = ("is_datasource(%s)" % kv[1], True) in g and U(a.args[1]) == kv[1] and ((("%s is None" % pn), False) in g or (("%s is not None" % pn), True) in g or (pn, True) in g)
    cx.require(ok, a, "a datasource named like a registry point of the base class becomes a dependency of exactly that point")
    rch = find_calls(rr.body, attr="_register_context_handler")
    ok = len(rch) == 1 and syn_dominates(stmt_of(a), rch[0]) and U(rch[0].args[1]) == kv[1] and guard_texts(rch[0]) == g
    cx.require(ok, rch[0] if rch else rr, "the context handler is registered for the same datasource, after it was added to the registry point",
               construct=short(rch[0]) if rch else "(no _register_context_handler call)")


def r3_ignore_wiring(cx):
    cx.rule("C05.R3", "earlier handlers of a context are told to ignore it before the new handler is recorded", floor=6)
    s = cx.repo.module(SF)
    fn = s.func("_register_context_handler", "C05.R3")
    ps = params(fn)
    comp = ps[1]
    ign = find_calls(fn.body, attr="add_ignore")
    if not ign:
        cx.bad(fn, "previous handlers are told to ignore the context (dr.add_ignore)", construct="(no add_ignore call)")
        return
    c = ign[0]
    inner = enclosing(c, ast.For)
    outer = enclosing(inner, ast.For) if inner is not None else None
    if inner is None or outer is None:
        cx.bad(c, "every previously recorded handler of each context is told to ignore it: add_ignore runs inside 'for ctx in contexts: for old in <all recorded handlers>' "
                  "(telling a single remembered handler leaves the ones in between active)", construct=short(stmt_of(c)))
        return
    ctxv, oldv = U(outer.target), U(inner.target)
    cx.require(isinstance(outer.iter, ast.Call) and call_attr(outer.iter) == "_get_ctx_dependencies" and U(outer.iter.args[0]) == comp, outer,
               "every context the new implementation depends on is considered", construct="for %s in %s" % (ctxv, U(outer.iter)))
    cx.require([U(x) for x in c.args] == [oldv, ctxv] and not guard_texts(c, stop=outer) and not has_exit(outer.body), c,
               "every previously recorded handler of that context is told to ignore it (no filter, no early exit)")
    handlers = U(inner.iter)
    app = [x for x in find_calls(outer.body, attr="append") if U(x.func.value) == handlers]
    ok = len(app) == 1 and U(app[0].args[0]) == comp and enclosing(app[0], ast.For) is outer and syn_dominates(inner, app[0])
    cx.require(ok, app[0] if app else outer, "the new implementation is appended to the handler list after the ignore loop (it never ignores itself)",
               construct=short(app[0]) if app else "(no %s.append(%s))" % (handlers, comp))
    # handler table of the highest class in the MRO that has the name
    tbl = [a for a in walk_body(fn.body) if isinstance(a, ast.Assign) and "context_handlers" in U(a.value)]
    ok = False
    if tbl:
        v = tbl[0].value
        # <owners>[-1].context_handlers where <owners> is the leading run of parents whose registry has the name
        if isinstance(v, ast.Attribute) and v.attr == "context_handlers" and isinstance(v.value, ast.Subscript) and U(v.value.slice) == "-1":
            owners = v.value.value
            src = owners
            if isinstance(owners, ast.Name):
                ds = [a for a in walk_body(fn.body) if isinstance(a, ast.Assign) and U(a.targets[0]) == owners.id and a.lineno < tbl[0].lineno]
                src = ds[-1].value if ds else owners
            t = U(src)
            ok = "takewhile" in t and "in x.registry" in t and t.rstrip(")").endswith(ps[0])
    cx.require(ok, tbl[0] if tbl else fn, "the handler table is that of the highest class in the MRO whose registry has the name",
               construct=short(tbl[0]) if tbl else "(no context_handlers look-up)")
    # the contexts of an implementation are discovered through its whole dependency tree
    gc = s.func("_get_ctx_dependencies", "C05.R3")
    gp = params(gc)[0]
    loops = [x for x in gc.body if isinstance(x, ast.For)]
    comps = [x for x in ast.walk(gc) if isinstance(x, (ast.SetComp, ast.GeneratorExp, ast.ListComp)) and len(x.generators) == 1
             and isinstance(x.generators[0].iter, ast.Call) and call_attr(x.generators[0].iter) == "walk_tree"]
    if not loops and comps:
        # comprehension form: set(c for c in dr.walk_tree(component) if ... issubclass(c, ExecutionContext))
        g0 = comps[0].generators[0]
        tv = U(g0.target)
        ok = U(g0.iter.args[0]) == gp
        cx.require(ok, comps[0], "the contexts an implementation handles are collected over its *transitive* dependency tree (dr.walk_tree): a composite implementation (first_of, head, datasource on datasources) names its context only through its parts",
                   construct=short(comps[0], 100))
        atoms = []
        for t in g0.ifs:
            from ..model import _flatten_atom
            _flatten_atom(t, True, atoms)
        at = set((U(e), p_) for e, p_ in atoms)
        # a predicate helper that answers issubclass(x, ExecutionContext) (False when issubclass itself raises) stands for that test
        for t_, p_ in list(at):
            try:
                e_ = ast.parse(t_, mode="eval").body
            except SyntaxError:
                continue
            if p_ and isinstance(e_, ast.Call) and isinstance(e_.func, ast.Name) and [U(a_) for a_ in e_.args] == [tv] and s.has(e_.func.id) and isinstance(s.get(e_.func.id), FUNC_TYPES):
                h_ = s.get(e_.func.id)
                hp = params(h_)
                rv = set(U(r_.value) for r_ in ast.walk(h_) if isinstance(r_, ast.Return) and r_.value is not None)
                if len(hp) == 1 and rv <= set(["issubclass(%s, ExecutionContext)" % hp[0], "False"]) and "issubclass(%s, ExecutionContext)" % hp[0] in rv:
                    at.discard((t_, p_))
                    at.add(("issubclass(%s, ExecutionContext)" % tv, True))
        extra = at - set([("issubclass(%s, ExecutionContext)" % tv, True), ("inspect.isclass(%s)" % tv, True), ("isinstance(%s, type)" % tv, True)])
        rets = [r for r in walk_body(gc.body) if isinstance(r, ast.Return)]
        ok = U(comps[0].elt) == tv and ("issubclass(%s, ExecutionContext)" % tv, True) in at and not extra and len(rets) == 1 and any(x is comps[0] for x in ast.walk(rets[0]))
        cx.require(ok, comps[0], "every ExecutionContext subclass found in the tree counts as a handled context", construct="filters: %s" % sorted(at))
    else:
        ok = bool(loops) and isinstance(loops[0].iter, ast.Call) and call_attr(loops[0].iter) == "walk_tree" and U(loops[0].iter.args[0]) == gp and not has_exit(loops[0].body)
        cx.require(ok, loops[0] if loops else gc, "the contexts an implementation handles are collected over its *transitive* dependency tree (dr.walk_tree): a composite implementation (first_of, head, datasource on datasources) names its context only through its parts",
                   construct="for %s in %s" % (U(loops[0].target), U(loops[0].iter)) if loops else "(no loop)")
        if loops:
            tv = U(loops[0].target)
            adds = [x for x in find_calls(loops[0].body, attr="add")]
            ok = len(adds) == 1 and U(adds[0].args[0]) == tv and ("issubclass(%s, ExecutionContext)" % tv, True) in guard_texts(adds[0], stop=loops[0])
            cx.require(ok, adds[0] if adds else loops[0], "every ExecutionContext subclass found in the tree counts as a handled context", construct=short(adds[0]) if adds else "(no add)")
    # add_ignore stores per component
    d = cx.repo.module(DR)
    ai = d.func("add_ignore", "C05.R3")
    p = params(ai)
    adds = find_calls(ai.body, attr="add")
    cx.require(len(adds) == 1 and U(adds[0].func.value) == "IGNORE[%s]" % p[0] and U(adds[0].args[0]) == p[1] and not guard_texts(adds[0])
               and not [r for r in walk_body(ai.body) if isinstance(r, ast.Return) and r.lineno < adds[0].lineno], ai,
               "add_ignore(c, i) records i under IGNORE[c], unconditionally (a switch that can be flipped back, like the enabled flag, is no substitute)",
               construct="%s guarded by %s" % (short(adds[0]), sorted(guard_texts(adds[0]))) if adds else "(none)")


def r5_context_dependency(cx):
    cx.rule("C05.R5", "every factory that reads its context from the broker declares that context as a dependency", floor=10)
    sf = cx.repo.module(SF)
    repo = cx.repo
    for name in c04.FACTORIES:
        if not sf.has(name):
            continue
        c = sf.cls(name)
        cc, call = repo.lookup_method(c, "__call__")
        if call is None:
            continue
        b = params(call)[1]
        reads = [U(k) for k, n in c04.broker_reads(call, b)]
        if "self.context" not in reads:
            continue
        regs, init = [], None
        for kc in repo.mro(c):
            ini = [st for st in kc.body if isinstance(st, FUNC_TYPES) and st.name == "__init__"]
            if not ini:
                continue
            init = ini[0]
            regs = [x for x in find_calls(init.body) if isinstance(x.func, ast.Call) and call_attr(x.func) == "datasource" and x.args and U(x.args[0]) == "self"]
            if regs:
                break
        if not regs:
            cx.unknown(c, "factory %s has no datasource(...)(self) registration" % name)
            continue
        reg = regs[0].func
        pos = [U(a) for a in reg.args if not isinstance(a, ast.Starred)]
        cx.require("self.context" in pos, reg, "factory %s passes self.context positionally to its registration (implementations of other contexts cannot fire)" % name,
                   construct="%s.__init__: %s" % (name, short(reg, 100)))
        # self.context is set from the constructor's context parameter
        cdef = [a for a in walk_body(init.body) if isinstance(a, ast.Assign) and any(U(t) == "self.context" for t in a.targets)]
        ok = len(cdef) == 1 and U(cdef[0].value) in ("context", "context or FSRoots") and syn_dominates(cdef[0], regs[0])
        cx.require(ok, cdef[0] if cdef else init, "self.context is the declared context (default FSRoots) and is set before registration",
                   construct=short(cdef[0]) if cdef else "(no self.context assignment)")


FLAGS_IGNORED = set(["self", "metadata"])


def r6_flag_propagation(cx):
    cx.rule("C05.R6", "registry-point flags are copied to every implementation and its delegate", floor=6)
    sf = cx.repo.module(SF)
    init = sf.func("RegistryPoint.__init__", "C05.R6")
    flags = [p for p in params(init) if p not in FLAGS_IGNORED]
    rr = sf.func("_resolve_registry_points", "C05.R6")
    # view: a loop over a (module-level) tuple of flag names with getattr/setattr is the unrolled sequence of attribute assignments
    unroll_literal_loops(rr, consts=sf.top)
    copied = {}
    env = {}        # temporary -> the point attribute it currently holds

    def scan(stmts):
        for a in stmts:
            if isinstance(a, ast.Assign):
                src = None
                if isinstance(a.value, ast.Attribute) and U(a.value.value) == "point":
                    src = a.value.attr
                elif isinstance(a.value, ast.Name) and a.value.id in env:
                    src = env[a.value.id]
                for t in a.targets:
                    if isinstance(t, ast.Name):
                        if src is not None:
                            env[t.id] = src
                        else:
                            env.pop(t.id, None)
                    elif src is not None and isinstance(t, ast.Attribute):
                        copied.setdefault(src, set()).add(U(t))
            for fld in ("body", "orelse", "finalbody"):
                sub = getattr(a, fld, None)
                if isinstance(sub, list) and not isinstance(a, FUNC_TYPES):
                    scan(sub)
    scan(rr.body)
    for f in flags:
        if f not in copied:
            cx.bad(rr, "flag '%s' of RegistryPoint is copied from the point to its implementations" % f, construct="(no '... = point.%s')" % f)
            continue
        want = set(["v.%s" % f, "delegate.%s" % f])
        cx.require(copied[f] == want, rr, "flag '%s' is copied to both the datasource and its delegate" % f,
                   construct="%s = point.%s" % (" = ".join(sorted(copied[f])), f))
    for f in copied:
        if f not in flags:
            cx.bad(rr, "every copied flag is a RegistryPoint constructor parameter", construct="point.%s" % f)
    # RegistryPoint.__init__ stores each flag and passes it to its own datasource registration
    regs = [x for x in find_calls(init.body) if isinstance(x.func, ast.Call) and call_attr(x.func) == "datasource"]
    kw = {}
    for f in flags:
        kv = kwarg(regs[0].func, f) if regs else None       # also through **props of a local dict bound once
        if kv is not None:
            kw[f] = U(kv)
    # view: 'for k, v in props.items(): setattr(self, k, v)' over a local dict display is the sequence of attribute assignments
    unroll_literal_loops(init)
    for f in flags:
        st = [a for a in walk_body(init.body) if isinstance(a, ast.Assign) and any(U(t) == "self.%s" % f for t in a.targets)]
        stored = U(st[0].value) if len(st) == 1 else None
        ok = len(st) == 1 and f in stored and kw.get(f) in (f, "self.%s" % f, stored)
        cx.require(ok, st[0] if st else init, "RegistryPoint stores flag '%s' and registers itself with it" % f, construct=short(st[0]) if st else "(no self.%s)" % f)
    # the delegate variable is the datasource's own delegate
    dd = [a for a in walk_body(rr.body) if isinstance(a, ast.Assign) and U(a.targets[0]) == "delegate"]
    cx.require(len(dd) == 1 and U(dd[0].value) in ("dr.get_delegate(v)",), dd[0] if dd else rr, "'delegate' is the implementation's own delegate", construct=short(dd[0]) if dd else "(none)")


def run(cx):
    repo = cx.repo
    cx.extra["explanation"] = ("C05: selection loop of RegistryPoint.__call__, registration order (append-only deps), ignore wiring order in _register_context_handler, "
                               "ignore-before-invoke in every process(), context declared as dependency by every factory, flag propagation table.")
    cx.undecided = ["run-time resolution for arbitrary third-party registration histories (follows from R1-R5 only under C01/C02)"]
    anchor = [repo.module(DR), repo.module(SF), repo.module("insights.core.plugins")]
    mods = repo.all_modules() if cx.tier == "thorough" else anchor
    cx.guard(r1_selection)
    cx.guard(r2_registration_order)
    cx.guard(r3_ignore_wiring)
    # R4 = C02.R4 re-run under this property's id
    def r4(cx, mods):
        c02.r4_process_order(cx, mods)
        r = cx.rules.pop("C02.R4")
        r["title"] = "ignore-before-invoke in every process() (same rule as C02.R4)"
        cx.rules["C05.R4"] = r
        for o in cx.obligations:
            if o["rule"] == "C02.R4":
                o["rule"] = "C05.R4"
        for v in cx.violations:
            if v.rule == "C02.R4":
                v.rule = "C05.R4"
    cx.guard(r4, mods)
    cx.guard(r5_context_dependency)
    cx.guard(r6_flag_propagation)
    # registration is append-only for the whole process: an evaluation never edits the registry's dependency sets (C01.R5 re-checked)
    from . import c01
    cx.borrow(c01.r5b_graph_as_requested, "C01.R5", "C05.R2", "registration order is append-only; nothing an evaluation does removes an implementation from a registry point")
    # the contexts an implementation handles, and with them who is told to ignore whom, are read off a walk of the live graph (C01.R9 re-checked)
    cx.borrow(c01.r9_graph_queries_live, "C01.R9", "C05.R3b", "the context walk sees every implementation registered so far (no stale memo of a graph walk; C01.R9)")
