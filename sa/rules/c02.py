"""C02 - a component fires iff its requirements are met; arguments bind in declaration order."""
import ast

from ..model import (AnalysisError, FUNC_TYPES, U, call_attr, call_name, dotted, enclosing, guard_texts, guards_ex, short, walk_body,
                     walk_local, ancestors)
from ..util import params, find_calls, assigns_to, trace, syn_dominates, stmt_of, has_exit
from .c01 import main_loop, delegate_process_calls, _is_component_type

DR = "insights.core.dr"
PL = "insights.core.plugins"


def r1_classification(cx):
    cx.rule("C02.R1", "requirements are classified into requires / at_least_one / optional and flattened in declaration order", floor=6)
    m = cx.repo.module(DR)
    fn = m.func("ComponentType.__init__", "C02.R1")
    loop = None
    for s in fn.body:
        if isinstance(s, ast.For):
            ifs = [x for x in s.body if isinstance(x, ast.If)]
            if ifs and "isinstance" in U(ifs[0].test) and "list" in U(ifs[0].test):
                loop = s
    if loop is None:
        cx.bad(fn, "ComponentType.__init__ classifies each declared requirement (list -> at-least-one group, else required)",
               construct="(no classification loop)")
        return
    tv = U(loop.target)
    iff = [x for x in loop.body if isinstance(x, ast.If)][0]
    cx.require(U(iff.test) in ("isinstance(%s, list)" % tv, "isinstance(%s, (list,))" % tv) and len(loop.body) == 1, iff,
               "each requirement is classified by isinstance(<req>, list) and nothing else happens in the loop")

    def effects(body):
        out = set()
        for c in find_calls(body):
            if isinstance(c.func, ast.Attribute) and c.args:
                out.add("%s.%s(%s)" % (U(c.func.value), c.func.attr, U(c.args[0])))
        return out
    grp = effects(iff.body)
    req = effects(iff.orelse)
    cx.require(grp == set(["self.at_least_one.append(%s)" % tv, "self.deps.extend(%s)" % tv]), iff,
               "a list requirement is recorded as a group and its members are appended to deps, in order",
               construct="if-branch: %s" % sorted(grp))
    cx.require(req == set(["self.requires.append(%s)" % tv, "self.deps.append(%s)" % tv]), iff,
               "a plain requirement is recorded as required and appended to deps",
               construct="else-branch: %s" % sorted(req))
    cx.require(not has_exit(loop.body), loop, "the classification loop has no early exit (every requirement is classified)",
               construct="for %s in %s" % (tv, U(loop.iter)))
    # iterable: class-level requires first, then decorator arguments; must be a list (ordered)
    it = trace(loop.iter, fn)
    itxt = U(it)
    cx.require(itxt.startswith("list(self.__class__.requires) +") or itxt.startswith("self.__class__.requires +"), loop,
               "the iterated requirement list is class-level requires followed by the decorator arguments (ordered list)",
               construct="%s = %s" % (U(loop.iter), itxt))
    # optional appended after the loop
    ext = [c for c in find_calls(fn.body, attr="extend") if U(c.func.value) == "self.deps" and c.args and "optional" in U(c.args[0])]
    if not ext:
        cx.bad(fn, "optional dependencies are appended to deps (they are passed as arguments too)", construct="(no self.deps.extend(self.optional))")
    for c in ext:
        cx.require(syn_dominates(loop, c) and not guard_texts(c), c,
                   "optional dependencies are appended to deps after all required/group members, unconditionally")
    # self.optional = list(class.optional) then extend(optional)
    odef = [a for a in walk_body(fn.body) if isinstance(a, ast.Assign) and any(U(t) == "self.optional" for t in a.targets)]
    okopt = len(odef) == 1 and U(odef[0].value) in ("list(self.__class__.optional)",) and \
        any(U(c.func.value) == "self.optional" and [U(a) for a in c.args] in (["optional"], ["list(optional)"]) and not guard_texts(c) for c in find_calls(fn.body, attr="extend"))
    # or built in one expression: class-level ones first, then the decorator's
    okopt = okopt or (len(odef) == 1 and isinstance(odef[0].value, ast.BinOp) and isinstance(odef[0].value.op, ast.Add) and U(odef[0].value.left) in ("list(self.__class__.optional)", "self.__class__.optional")
                      and U(odef[0].value.right) in ("optional", "list(optional)") and not guard_texts(odef[0]))
    cx.require(okopt, odef[0] if odef else fn,
               "class-level optional dependencies come first in self.optional", construct=short(odef[0]) if odef else "(no self.optional assignment)")
    # dependencies computed from deps after everything
    dd = [a for a in walk_body(fn.body) if isinstance(a, ast.Assign) and any(U(t) == "self.dependencies" for t in a.targets)]
    ok = len(dd) == 1 and U(dd[0].value) == "set(self.deps)" and all(syn_dominates(stmt_of(c), dd[0]) for c in ext)
    cx.require(ok, dd[0] if dd else fn, "the dependency set is computed from the complete deps list", construct=short(dd[0]) if dd else "(none)")
    # no other mutation of self.deps in __init__ (insert, reverse, sort, rebinding after the loop)
    for n in walk_body(fn.body):
        if isinstance(n, ast.Call) and isinstance(n.func, ast.Attribute) and U(n.func.value) == "self.deps" and n.func.attr in ("insert", "reverse", "sort", "remove", "pop"):
            cx.bad(n, "deps is only appended to (order = declaration order)")
    rebinds = [a for a in walk_body(fn.body) if isinstance(a, ast.Assign) and any(U(t) == "self.deps" for t in a.targets)]
    for a in rebinds:
        cx.require(U(a.value) == "[]" and syn_dominates(a, loop), a, "self.deps starts empty before the classification loop and is not rebound afterwards")


def r2_binding(cx):
    cx.rule("C02.R2", "positional arguments are results.get(d) for d in the ordered deps list", floor=2)
    m = cx.repo.module(DR)
    fn = m.func("ComponentType.invoke", "C02.R2")
    ps = params(fn)
    res = ps[1] if len(ps) > 1 else "results"
    calls = [c for c in find_calls(fn.body) if U(c.func) == "self.component"]
    if not calls:
        cx.bad(fn, "ComponentType.invoke calls self.component(*args)", construct="(no self.component call)")
        return
    for c in calls:
        star = [a for a in c.args if isinstance(a, ast.Starred)]
        if len(c.args) != 1 or not star or c.keywords:
            cx.bad(c, "the component is called with exactly the starred argument list built from deps")
            continue
        src = trace(star[0].value, fn)
        ok = False
        why = "argument list is [results.get(d) for d in self.deps]"
        if isinstance(src, ast.ListComp) and len(src.generators) == 1:
            g = src.generators[0]
            it = U(g.iter)
            elt_ok = U(src.elt) in ("%s.get(%s)" % (res, U(g.target)),) and not g.ifs
            if it == "self.deps" and elt_ok:
                ok = True
            elif it in ("self.dependencies", "set(self.deps)", "self.get_dependencies()"):
                why = "argument list is built by iterating the ordered list self.deps, not the unordered set %s" % it
            elif not elt_ok:
                why = "each argument is results.get(<dep>) (None when the dependency produced nothing), with no filtering"
        elif isinstance(src, ast.Call) and call_name(src) in ("list", "map") and "self.deps" in U(src) and "%s.get" % res in U(src):
            ok = True
        elif isinstance(src, ast.List) and not src.elts and isinstance(star[0].value, ast.Name):
            # accumulate loop:  args = []; for d in self.deps: args.append(results.get(d))   (results.get possibly bound to a local first)
            nm = star[0].value.id
            aps = [x for x in find_calls(fn.body, attr="append") if U(x.func.value) == nm]
            lp = enclosing(aps[0], ast.For) if len(aps) == 1 else None
            if lp is not None and U(lp.iter) == "self.deps" and not guard_texts(aps[0], stop=lp) and not [x for x in walk_body(lp.body) if isinstance(x, (ast.Break, ast.Continue, ast.Return))] \
                    and len(aps[0].args) == 1 and isinstance(aps[0].args[0], ast.Call) and [U(a_) for a_ in aps[0].args[0].args] == [U(lp.target)] and not aps[0].args[0].keywords:
                f_ = aps[0].args[0].func
                f_ = trace(f_, fn) if isinstance(f_, ast.Name) else f_
                ok = U(f_) == "%s.get" % res
            elif lp is not None and U(lp.iter) in ("self.dependencies", "set(self.deps)"):
                why = "argument list is built by iterating the ordered list self.deps, not the unordered set %s" % U(lp.iter)
        cx.require(ok, c, why, construct="%s  with  %s" % (short(c), short(src)))
    rets = [n for n in walk_body(fn.body) if isinstance(n, ast.Return)]
    cx.require(all(r.value is not None and any(r.value is c or (isinstance(r.value, ast.Name)) for c in calls) for r in rets) and rets, fn,
               "invoke returns the component's own return value", construct=short(rets[0]) if rets else "(no return)")


def none_present(cond, d, b):
    """Classify the group test: 'good' (true iff no member of d is in b), 'bad', or 'unknown'."""
    t = U(cond)
    good = [
        "not set(%s).intersection(%s)" % (d, b),
        "not set(%s) & set(%s)" % (d, b),
        "not set(%s).intersection(set(%s))" % (d, b),
        "set(%s).isdisjoint(%s)" % (d, b),
        "set(%s).isdisjoint(set(%s))" % (d, b),
        "len(set(%s).intersection(%s)) == 0" % (d, b),
    ]
    if t in good:
        return "good"
    # any/all forms
    if isinstance(cond, ast.UnaryOp) and isinstance(cond.op, ast.Not) and isinstance(cond.operand, ast.Call) and call_name(cond.operand) == "any":
        a = cond.operand.args[0]
        if isinstance(a, (ast.GeneratorExp, ast.ListComp)) and len(a.generators) == 1 and U(a.generators[0].iter) == d and not a.generators[0].ifs:
            if U(a.elt) == "%s in %s" % (U(a.generators[0].target), b):
                return "good"
            return "bad"
    if isinstance(cond, ast.Call) and call_name(cond) == "all":
        a = cond.args[0]
        if isinstance(a, (ast.GeneratorExp, ast.ListComp)) and len(a.generators) == 1 and U(a.generators[0].iter) == d and not a.generators[0].ifs:
            if U(a.elt) == "%s not in %s" % (U(a.generators[0].target), b):
                return "good"
            return "bad"
    # a test on the VALUE stored for a member (first_of / broker.get / broker[...] compared with None or taken for its truth) is not a presence test:
    # a dependency that legitimately evaluated to None / a falsy value would count as missing
    if any(isinstance(x, ast.Call) and (call_name(x) in ("first_of", "dr.first_of") or (call_attr(x) == "get" and U(x.func.value) == b)) for x in ast.walk(cond)) \
            or any(isinstance(x, ast.Subscript) and U(x.value) == b for x in ast.walk(cond)):
        return "bad"
    bad_markers = ("issubset", "issuperset", "any(", "all(", ".intersection(", "isdisjoint", " & ", " <= ", " < ", " in ")
    if any(k in t for k in bad_markers):
        return "bad"
    return "unknown"


def r2b_broker_get(cx):
    """The binder's results.get(d) must hand over the dependency's value whatever it is: a value that happens to be falsy (0, False, '', [])
    is still the value; only an absent key yields the default."""
    cx.rule("C02.R2", "positional arguments are results.get(d) for d in the ordered deps list", floor=2)
    m = cx.repo.module(DR)
    fn = m.func("Broker.get", "C02.R2")
    ps = params(fn)
    comp, dflt = ps[1], ps[2] if len(ps) > 2 else "default"
    rets = [r for r in walk_body(fn.body) if isinstance(r, ast.Return) and r.value is not None]
    value_forms = ("self[%s]" % comp, "self.instances[%s]" % comp, "self.instances.get(%s, %s)" % (comp, dflt))
    ok = bool(rets) and any(U(r.value) in value_forms for r in rets)
    for r in rets:
        t = U(r.value)
        if t in value_forms or t == dflt:
            # the default is returned only where the key is absent: KeyError arm, or an explicit membership test
            if t == dflt:
                h = enclosing(r, ast.ExceptHandler)
                g = guard_texts(r)
                ok = ok and ((h is not None and h.type is not None and "KeyError" in U(h.type)) or ("%s in self" % comp, False) in g or ("%s in self.instances" % comp, False) in g)
            continue
        ok = False      # e.g. 'value or default', 'value if value else default': decides on the truthiness of the value
    cx.require(ok, fn, "Broker.get returns the stored value whenever the component is present (a falsy value is still the value); the default only for an absent component",
               construct=" | ".join(U(r.value) for r in rets) or "(no return)")


def r2c_broker_views(cx):
    """The missing-dependency predicate mixes 'd in broker' (required) with set(group).intersection(broker) (groups, which *iterates* the broker):
    both must see the same components, so membership, iteration and the key/item/value views are all the plain instance table."""
    cx.rule("C02.R3", "missing = required deps absent from the broker + groups with no member present", floor=3)
    m = cx.repo.module(DR)
    want = {"__iter__": ("iter(self.instances)",), "keys": ("self.instances.keys()",), "items": ("self.instances.items()",), "values": ("self.instances.values()",),
            "__contains__": ("component in self.instances", "%s in self.instances")}
    for name, forms in want.items():
        fn = m.func("Broker.%s" % name, "C02.R3")
        rets = [r for r in walk_body(fn.body) if isinstance(r, ast.Return)]
        ps = params(fn)
        ok = len(rets) == 1 and (U(rets[0].value) in forms or (name == "__contains__" and len(ps) > 1 and U(rets[0].value) == "%s in self.instances" % ps[1])) \
            and len([s_ for s_ in fn.body if not (isinstance(s_, ast.Expr) and isinstance(s_.value, ast.Constant))]) == 1
        cx.require(ok, fn, "Broker.%s is the unfiltered view of the instance table (membership and iteration agree on what is present)" % name,
                   construct=" | ".join(short(r) for r in rets) or "def %s" % name)


def r3_iff(cx):
    cx.rule("C02.R3", "missing = required deps absent from the broker + groups with no member present", floor=3)
    m = cx.repo.module(DR)
    fn = m.func("ComponentType.get_missing_dependencies", "C02.R3")
    ps = params(fn)
    b = ps[1] if len(ps) > 1 else "broker"
    comps = [a for a in walk_body(fn.body) if isinstance(a, ast.Assign) and isinstance(a.value, ast.ListComp)]
    req = [a for a in comps if U(a.value.generators[0].iter) == "self.requires"]
    grp = [a for a in comps if U(a.value.generators[0].iter) == "self.at_least_one"]
    if not req:
        cand = [a for a in comps if "requires" in U(a) or "deps" in U(a.value.generators[0].iter)]
        cx.bad(cand[0] if cand else fn, "the missing-required list is computed over self.requires",
               construct=short(cand[0]) if cand else "(no comprehension over self.requires)")
    if not grp:
        cx.bad(fn, "the unsatisfied-group list is computed over self.at_least_one", construct="(no comprehension over self.at_least_one)")
    names = []
    for a in req[:1]:
        lc = a.value
        g = lc.generators[0]
        tv = U(g.target)
        ok = U(lc.elt) == tv and len(lc.generators) == 1 and len(g.ifs) == 1 and U(g.ifs[0]) in ("%s not in %s" % (tv, b), "not %s in %s" % (tv, b))
        cx.require(ok, a, "missing required = [r for r in self.requires if r not in broker]")
        names.append(a.targets[0].id if isinstance(a.targets[0], ast.Name) else U(a.targets[0]))
    for a in grp[:1]:
        lc = a.value
        g = lc.generators[0]
        tv = U(g.target)
        if not (U(lc.elt) == tv and len(lc.generators) == 1 and len(g.ifs) == 1):
            cx.bad(a, "unsatisfied groups = [g for g in self.at_least_one if <no member of g in broker>]")
        else:
            k = none_present(g.ifs[0], tv, b)
            if k == "unknown":
                cx.unknown(g.ifs[0], "group test is in neither the accepted nor the known-bad idiom table")
            else:
                cx.require(k == "good", a, "a group is reported missing iff none of its members is in the broker")
        names.append(a.targets[0].id if isinstance(a.targets[0], ast.Name) else U(a.targets[0]))
    for a in req[:1] + grp[:1]:
        cx.require(not guard_texts(a), a, "both parts of the report are computed unconditionally (an unsatisfied group is reported even when a required dependency is missing too)",
                   construct="%s guarded by %s" % (short(a, 80), sorted(guard_texts(a))))
    if len(names) == 2:
        for r in [r for r in walk_body(fn.body) if isinstance(r, ast.Return) and r.value is not None and U(r.value) != "None"]:
            cx.require(U(r.value) in ("(%s, %s)" % tuple(names), "%s, %s" % tuple(names)), r, "every report returned is the pair (missing required, unsatisfied groups) as computed - nothing is dropped from it",
                       construct=short(r))
        allrets = [r for r in walk_body(fn.body) if isinstance(r, ast.Return)]
        rets = [r for r in allrets if r.value is not None and U(r.value) != "None"]
        nones = [r for r in allrets if r not in rets]
        either = "%s or %s" % tuple(names)
        ok = len(rets) == 1 and U(rets[0].value) in ("(%s, %s)" % tuple(names),)
        if ok:
            g = guard_texts(rets[0])
            ok = g == set([(either, True)])
        # an explicit 'return None' is the fall-through made visible: it may only sit where nothing is missing (or at the very end)
        for r in nones:
            g = guard_texts(r)
            ok = ok and (g in (set([(either, False)]), set([(names[0], False), (names[1], False)])) or (r is fn.body[-1] and not g))
        cx.require(ok, rets[0] if rets else fn,
                   "returns (missing required, unsatisfied groups) iff either is non-empty, otherwise falls through to None",
                   construct=short(rets[0]) if rets else "(no return)")


def process_defs(cx, mods):
    out = []
    for m in mods:
        for q, c in m.classes():
            if _is_component_type(cx.repo, c):
                for st in c.body:
                    if isinstance(st, FUNC_TYPES) and st.name == "process":
                        out.append((m, c, st))
    return out


def r4_process_order(cx, mods):
    cx.rule("C02.R4", "every process(): ignore check -> missing computation -> report missing -> invoke", floor=8)
    defs = process_defs(cx, mods)
    if len(defs) < 2:
        raise AnalysisError("C02.R4", "expected process() in ComponentType and rule, found %d" % len(defs))
    for m, c, fn in defs:
        ps = params(fn)
        b = ps[1] if len(ps) > 1 else "broker"
        inv = [x for x in find_calls(fn.body, attr="invoke") if U(x.func.value) in ("self",) or U(x.func.value).startswith("super(")]
        if not inv:
            cx.bad(fn, "process delegates to self.invoke(broker)", construct="def %s.process (no invoke call)" % c.name)
            continue
        miss_defs = [a for a in walk_body(fn.body) if isinstance(a, ast.Assign) and isinstance(a.value, ast.Call) and call_attr(a.value) == "get_missing_dependencies"]
        if not miss_defs:
            cx.bad(fn, "process computes self.get_missing_dependencies(broker) before invoking", construct="def %s.process (no get_missing_dependencies)" % c.name)
            continue
        md = miss_defs[0]
        mv = U(md.targets[0])
        cx.require(U(md.value) == "self.get_missing_dependencies(%s)" % b and not guard_texts(md) - _ignore_guards(guard_texts(md)), md,
                   "missing is computed from the broker, unconditionally")
        for call in inv:
            g = guard_texts(call)
            cx.require((mv, False) in g, call, "invoke is reachable only when nothing is missing (guard 'not %s')" % mv)
            ign = [t for t, p in g if "IGNORE" in t and not p]
            il_ = _ignore_loop(fn, b)
            if not ign and il_ is not None and any(il_ is s_ for s_ in fn.body) and fn.body.index(il_) < [i_ for i_, s_ in enumerate(fn.body) if any(x_ is call for x_ in ast.walk(s_))][0]:
                ign = ["for %s in %s: if %s in %s: raise SkipComponent" % (U(il_.target), short(il_.iter, 50), U(il_.target), b)]
            cx.require(bool(ign), call, "invoke is reachable only after the ignore check failed (guard on IGNORE[self.component])",
                       construct="guards of invoke: %s" % sorted(t for t, p in g))
            cx.require(U(call.args[0]) == b if call.args else False, call, "invoke receives the broker")
        # the missing branch
        ifs = [s for s in walk_body(fn.body) if isinstance(s, ast.If) and U(s.test) == mv]
        if not ifs:
            cx.bad(fn, "a truthy 'missing' is reported (raise MissingRequirements(missing) / return _make_skip(name, missing))", construct="(no 'if %s:')" % mv)
            continue
        last = ifs[0].body[-1]
        if isinstance(last, ast.Raise) and isinstance(last.exc, ast.Call) and call_attr(last.exc) == "MissingRequirements":
            cx.require(len(last.exc.args) == 1 and U(last.exc.args[0]) == mv, last, "MissingRequirements carries exactly the computed missing tuple")
        elif isinstance(last, ast.Return) and isinstance(last.value, ast.Call) and call_attr(last.value) == "_make_skip":
            cx.require(c.name == "rule" and len(last.value.args) == 2 and U(last.value.args[1]) == mv and "self.component" in U(last.value.args[0]), last,
                       "a rule returns _make_skip(<its own name>, missing) with the computed missing tuple")
        else:
            cx.bad(last, "the missing branch raises MissingRequirements(missing) or (rule) returns _make_skip(name, missing)")
        # ignore check raises SkipComponent
        ign_ifs = [s for s in walk_body(fn.body) if isinstance(s, ast.If) and "IGNORE" in U(s.test)]
        for s in ign_ifs[:1]:
            okf = _ignore_test(s.test, b)
            cx.require(okf and isinstance(s.body[-1], ast.Raise) and "SkipComponent" in U(s.body[-1]), s,
                       "ignore check: any ignored context present in the broker -> raise SkipComponent (the component is not executed at all)")


import re as _re
_IGNORED_SET = _re.compile(r"^(dr\.)?IGNORE(\.get\(self\.component(, (\[\]|\(\)|set\(\)|frozenset\(\)))?\)|\[self\.component\])( or (\[\]|\(\)))?$")


def _ignore_loop(fn, b):
    """The written-out form of the ignore check at the top level of process():
    for i in <ignored contexts of self.component>: if i in broker: raise SkipComponent()     (nothing else in the loop)"""
    for st in fn.body:
        if isinstance(st, ast.For) and _IGNORED_SET.match(U(trace(st.iter, fn) if isinstance(st.iter, ast.Name) else st.iter)) and isinstance(st.target, ast.Name) and not st.orelse:
            body = [x for x in st.body if not (isinstance(x, ast.Expr) and isinstance(x.value, ast.Call) and (U(x.value.func).startswith("log") or U(x.value.func).startswith("logger")))]
            if len(body) == 1 and isinstance(body[0], ast.If) and not body[0].orelse and U(body[0].test) == "%s in %s" % (st.target.id, b) \
                    and isinstance(body[0].body[-1], ast.Raise) and "SkipComponent" in U(body[0].body[-1]) and not has_exit(body[0].body[:-1]):
                return st
    return None


def _ignore_test(test, b):
    """``any(i in broker for i in <ignored contexts of self.component>)`` possibly conjoined with a truthiness test of the same set."""
    conj = test.values if isinstance(test, ast.BoolOp) and isinstance(test.op, ast.And) else [test]
    anys = [c for c in conj if isinstance(c, ast.Call) and call_name(c) == "any" and c.args and isinstance(c.args[0], (ast.GeneratorExp, ast.ListComp))]
    if len(anys) != 1:
        return False
    g = anys[0].args[0]
    gen = g.generators[0]
    src = U(gen.iter)
    ok = len(g.generators) == 1 and not gen.ifs and U(g.elt) == "%s in %s" % (U(gen.target), b) and "IGNORE" in src and "self.component" in src
    # the other conjuncts may only test that there is anything to ignore
    rest = [c for c in conj if c is not anys[0]]
    return ok and all("IGNORE" in U(c) and "self.component" in U(c) and not any(isinstance(x, ast.Compare) for x in ast.walk(c)) for c in rest)


def _ignore_guards(g):
    return set((t, p) for t, p in g if "IGNORE" in t)


def r5_enable(cx):
    cx.rule("C02.R5", "the enable switch guards execution and defaults to enabled", floor=4)
    m = cx.repo.module(DR)
    fn = m.func("run_components", "C02.R5")
    loop, comp, comps, broker = main_loop(cx, fn)
    calls, _ = delegate_process_calls(loop, comp)
    if not calls:
        raise AnalysisError("C02.R5", "no delegate.process call in run_components")
    for c in calls:
        g = guard_texts(c, stop=loop)
        cx.require(("is_enabled(%s)" % comp, True) in g or ("ENABLED[%s]" % comp, True) in g, c,
                   "is_enabled(component) is a guard of the execution call (a disabled component is never invoked)")
    ie = m.func("is_enabled", "C02.R5")
    rets = [r for r in walk_body(ie.body) if isinstance(r, ast.Return)]
    p = params(ie)[0]
    cx.require(len(rets) == 1 and U(rets[0].value) in ("ENABLED[%s]" % p, "ENABLED.get(%s, True)" % p), ie,
               "is_enabled returns ENABLED[component]", construct=short(rets[0]) if rets else "(no return)")
    init = m.top.get("ENABLED")
    cx.require(init is not None and U(init) in ("defaultdict(lambda: True)",), init if init is not None else ie,
               "ENABLED defaults to True for components never configured", construct="ENABLED = %s" % U(init))
    se = m.func("set_enabled", "C02.R5")
    st = [a for a in walk_body(se.body) if isinstance(a, ast.Assign) and any(U(t).startswith("ENABLED[") for t in a.targets)]
    ps = params(se)
    cx.require(len(st) == 1 and U(st[0].value) == ps[1] and U(st[0].targets[0]) == "ENABLED[%s]" % ps[0], se,
               "set_enabled stores the requested value for the requested component", construct=short(st[0]) if st else "(no store)")
    im = cx.repo.module("insights")
    ade = im.func("apply_default_enabled", "C02.R5")
    dd = [a for a in walk_body(ade.body) if isinstance(a, ast.Assign) and isinstance(a.value, ast.Call) and call_name(a.value) == "defaultdict"]
    ok = False
    if dd:
        lam = dd[0].value.args[0] if dd[0].value.args else None
        if isinstance(lam, ast.Lambda) and isinstance(lam.body, ast.Name):
            src = trace(lam.body, ade)
            ok = isinstance(src, ast.Call) and call_attr(src) == "get" and len(src.args) == 2 and U(src.args[1]) == "True" and "default_component_enabled" in U(src.args[0])
    cx.require(ok, dd[0] if dd else ade, "the rebuilt ENABLED table defaults to config['default_component_enabled'] (True when absent)",
               construct=short(dd[0]) if dd else "(no defaultdict rebuild)")


def r5b_nothing_else_suppresses(cx):
    """'invoked if and only if it is enabled and its requirements are met': the execution call may be guarded by the four engine conditions (not yet in
    the broker, member of the evaluated graph, registered, enabled) and by nothing else.  Any further condition - an earlier failure recorded for
    the component, an earlier visit, a timing entry - keeps an enabled component with satisfied requirements from being invoked."""
    cx.rule("C02.R5b", "nothing but the four engine conditions guards the execution call", floor=1)
    m = cx.repo.module(DR)
    fn = m.func("run_components", "C02.R5")
    loop, comp, comps, broker = main_loop(cx, fn)
    calls, deleg_names = delegate_process_calls(loop, comp)
    allowed = set([("%s in %s" % (comp, broker), False), ("%s in %s" % (comp, comps), True), ("%s in DELEGATES" % comp, True), ("is_enabled(%s)" % comp, True), ("ENABLED[%s]" % comp, True),
                   ("get_delegate(%s)" % comp, True), ("DELEGATES.get(%s)" % comp, True), ("%s in %s.instances" % (comp, broker), False), ("%s.get(%s)" % (broker, comp), False)])
    for d in deleg_names:
        allowed.add((d, True))
        allowed.add(("%s is None" % d, False))
        allowed.add(("%s is not None" % d, True))
    for c in calls:
        extra = []
        for e, pol, origin in guards_ex(c, stop=loop):
            t = U(e)
            if (t, pol) in allowed:
                continue
            # compound atoms that only restate allowed ones
            parts = [U(v) for v in e.values] if isinstance(e, ast.BoolOp) else None
            if parts and isinstance(e.op, ast.And) and pol and all((p_, True) in allowed or (p_[4:], False) in allowed and p_.startswith("not ") for p_ in parts):
                continue
            extra.append((t, pol))
        cx.require(not extra, c, "the execution call is guarded by the four engine conditions only (nothing else keeps an enabled component with satisfied requirements from being invoked)",
                   construct="extra condition: %s is %s" % extra[0] if extra else short(c, 70))


INVOKE_CONVENTIONS = {
    # frozen conventions, one line of reason each
    DR + ":ComponentType": "the ordered binder itself (C02.R2)",
    PL + ":PluginType": "delegates to ComponentType.invoke through super() and translates content/command errors",
    PL + ":datasource": "datasources receive the broker itself (documented convention); no positional binding",
    PL + ":parser": "parsers receive the value (or each element) of their first required dependency (documented convention)",
}


def r6_invoke_overrides(cx, mods):
    cx.rule("C02.R6", "every override of invoke reaches the ordered binder or is a frozen convention", floor=4)
    for m in mods:
        for q, c in m.classes():
            if not _is_component_type(cx.repo, c):
                continue
            for st in c.body:
                if not (isinstance(st, FUNC_TYPES) and st.name == "invoke"):
                    continue
                cid = "%s:%s" % (m.name, q)
                sup = [x for x in find_calls(st.body, attr="invoke") if U(x.func.value).startswith("super(")]
                if cid == DR + ":ComponentType":
                    cx.ok(st, "the ordered binder (checked by C02.R2)", construct="def ComponentType.invoke")
                elif cid == PL + ":PluginType":
                    ok = len(sup) == 1 and isinstance(stmt_of(sup[0]), ast.Return) and U(sup[0].args[0]) == params(st)[1]
                    cx.require(ok, st, "PluginType.invoke returns super().invoke(broker) (ordered binding preserved)", construct=short(sup[0]) if sup else "def PluginType.invoke")
                elif cid == PL + ":datasource":
                    calls = [x for x in find_calls(st.body) if U(x.func) == "self.component"]
                    ok = len(calls) == 1 and len(calls[0].args) == 1 and U(calls[0].args[0]) == params(st)[1]
                    cx.require(ok, st, "datasource.invoke calls self.component(broker) exactly once", construct=short(calls[0]) if calls else "def datasource.invoke")
                elif cid == PL + ":parser":
                    calls = [x for x in find_calls(st.body) if U(x.func) == "self.component"]
                    dv = [a for a in walk_body(st.body) if isinstance(a, ast.Assign) and U(a.value) == "%s[self.requires[0]]" % params(st)[1]]
                    ok = bool(dv) and len(calls) == 2 and all(len(x.args) == 1 for x in calls)
                    if ok:
                        dvn = U(dv[0].targets[0])
                        a0 = U(calls[0].args[0])
                        a1 = calls[1].args[0]
                        loop = enclosing(calls[1], ast.For)
                        ok = a0 == dvn and loop is not None and U(loop.iter) == dvn and U(a1) == U(loop.target)
                    cx.require(ok, st, "parser.invoke passes the value of its first required dependency, or each element of it in list order",
                               construct="dep_value = broker[self.requires[0]]; self.component(dep_value) / self.component(d) for d in dep_value")
                else:
                    cx.require(bool(sup), st, "an unlisted override of invoke delegates to the inherited invoke through super() (otherwise the ordered binder is bypassed)",
                               construct="def %s.invoke" % q)


def r7_reporting(cx):
    cx.rule("C02.R7", "missing requirements are reported unchanged", floor=3)
    m = cx.repo.module(DR)
    fn = m.func("Broker.add_exception", "C02.R7")
    ps = params(fn)
    comp, ex = ps[1], ps[2]
    st = [a for a in walk_body(fn.body) if isinstance(a, ast.Assign) and any(U(t) == "self.missing_requirements[%s]" % comp for t in a.targets)]
    ok = len(st) == 1 and U(st[0].value) == "%s.requirements" % ex and ("isinstance(%s, MissingRequirements)" % ex, True) in guard_texts(st[0])
    cx.require(ok, st[0] if st else fn, "add_exception stores ex.requirements under missing_requirements[component] for MissingRequirements",
               construct=short(st[0]) if st else "(no store into missing_requirements)")
    em = cx.repo.module("insights.core.exceptions")
    mr = em.func("MissingRequirements.__init__", "C02.R7")
    p = params(mr)
    a = [x for x in walk_body(mr.body) if isinstance(x, ast.Assign) and U(x.targets[0]) == "self.requirements"]
    cx.require(len(a) == 1 and U(a[0].value) == p[1], mr, "MissingRequirements keeps the tuple it was given", construct=short(a[0]) if a else "(none)")
    pm = cx.repo.module(PL)
    ms = pm.func("_make_skip.__init__", "C02.R7")
    p = params(ms)
    a = [x for x in walk_body(ms.body) if isinstance(x, ast.Assign) and U(x.targets[0]) == "self.missing"]
    cx.require(len(a) == 1 and U(a[0].value) == p[2], ms, "_make_skip keeps the missing tuple it was given", construct=short(a[0]) if a else "(none)")


def run(cx):
    repo = cx.repo
    cx.extra["explanation"] = ("C02: classification loop of ComponentType.__init__, the ordered binder, the missing-dependency predicate (idiom-normalised), "
                               "dominance order inside every process(), the enable switch, overrides of invoke, unchanged reporting of missing requirements.")
    cx.undecided = ["the values bound (that results.get returns the dependency's value is Broker.get semantics; covered structurally by C01.R2/R3)"]
    anchor = [repo.module(DR), repo.module(PL), repo.module("insights"), repo.module("insights.core.spec_factory"), repo.module("insights.core.exceptions")]
    mods = repo.all_modules() if cx.tier == "thorough" else anchor
    cx.guard(r1_classification)
    cx.guard(r2_binding)
    cx.guard(r2b_broker_get)
    cx.guard(r2c_broker_views)
    cx.guard(r3_iff)
    cx.guard(r4_process_order, mods)
    cx.guard(r5_enable)
    cx.guard(r5b_nothing_else_suppresses)
    cx.guard(r6_invoke_overrides, mods)
    cx.guard(r7_reporting)
    # 'requirements are met' is judged when the component's turn comes: that turn must come after its dependencies ran (order provenance, C01.R5)
    from . import c01
    cx.borrow(c01.r5_order_provenance, "C01.R5", "C02.R8", "a component is judged after its dependencies were attempted: the order handed to run_components is the toposort of the same graph (C01.R5)", mods)
