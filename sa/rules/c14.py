"""C14 - base parsers accept well-formed content and reject bad content as documented."""
import ast

from ..model import (AnalysisError, FUNC_TYPES, U, call_attr, call_name, dotted, enclosing, enclosing_function, guard_texts, guards_ex,
                     short, walk_body, walk_local, ancestors, parent, const_str, kwarg, literal)
from ..util import params, find_calls, assigns_to, trace, stmt_of, has_exit, syn_dominates
from .. import feat
from ..cfg import CFG, ENTRY, EXIT, RAISE, handler_names, is_catch_all

CORE = "insights.core"
CP = CORE + ":CommandParser"
NAMED = ["no such file or directory", "command not found"]


def _class_const(cls, suffix):
    """Value node of the (name-mangled) class attribute ending in ``suffix``."""
    for st in cls.body:
        if isinstance(st, ast.Assign):
            for t in st.targets:
                if isinstance(t, ast.Name) and t.id == suffix:
                    return st.value
    return None


def r1_validation_first(cx):
    cx.rule("C14.R1", "CommandParser validates the content before anything is parsed", floor=4)
    m = cx.repo.module(CORE)
    fn = m.func("CommandParser.__init__", "C14.R1")
    ctxp = params(fn)[1]
    sup = [x for x in find_calls(fn.body, attr="__init__") if U(x.func.value).startswith("super(")]
    if len(sup) != 1:
        cx.bad(fn, "CommandParser.__init__ reaches Parser.__init__ exactly once", construct="%d super().__init__ calls" % len(sup))
        return
    s = sup[0]
    cx.require([U(a) for a in s.args] == [ctxp], s, "the context reaches the parser unchanged")
    g = guards_ex(s)
    vl = [(U(e), p, o) for e, p, o in g]
    ok = ("valid_lines", True, "exit-raise") in vl and not [x for x in vl if x[2] != "exit-raise"]
    cx.require(ok, s, "parsing (Parser.__init__ -> parse_content) is reached only on the path where 'not valid_lines' did not raise", construct="super().__init__ guarded by %s" % vl)
    rs = [r for r in walk_body(fn.body) if isinstance(r, ast.Raise)]
    ok = bool(rs) and "ContentException" in U(rs[0].exc) and ("valid_lines", False) in guard_texts(rs[0])
    cx.require(ok, rs[0] if rs else fn, "invalid content raises ContentException (no object is produced)", construct=short(rs[0], 80) if rs else "(no raise)")
    defs = assigns_to(fn, "valid_lines")
    verdict, why = _phrases_enforced(fn, ctxp, stmt_of(s))
    if verdict is None:
        cx.unknown(fn, "phrase tables reaching validate_lines not recognised: %s" % why)
    else:
        cx.require(verdict, defs[0] if defs else fn, "on every path to the parser the content passed validate_lines against the built-in single-line and multi-line tables, "
                   "and against the extra phrases (in both positions) whenever extra phrases were given", construct=why)


def _phrases_enforced(fn, ctxp, sup_stmt):
    """Path rule.  Phrase sources: S = class single-line table, M = class multi-line table, X = extra_bad_lines.  For every feasible path from
    the entry to super().__init__, the validate_lines calls whose result is known truthy on that path must cover S (single position) and M (multi
    position), cover X in both positions unless the path implies X is falsy, and use no other source.  Truthiness facts are decided by truth table
    over the names tested on the path (a name is a new atom after every assignment that does not preserve its truthiness).
    Returns (True/False, text) or (None, reason)."""
    import itertools
    ps = params(fn)
    extra = ps[2] if len(ps) > 2 else None
    PRESERVING = lambda n: ("list(%s)" % n, "tuple(%s)" % n, "%s or []" % n, "[] if %s is None else %s" % (n, n), "%s if %s else []" % (n, n), "%s if %s is not None else []" % (n, n),
                            "[] if not %s else %s" % (n, n), "%s or ()" % n, "() if %s is None else %s" % (n, n))
    notes = []
    all_ok = True
    reached = 0
    try:
        pths = feat.paths(fn.body)
    except ValueError:
        return None, "too many paths"
    for trail, end in pths:
        idx = [i for i, t in enumerate(trail) if t[0] == "stmt" and t[1] is sup_stmt]
        if not idx:
            continue
        trail = trail[:idx[0]]
        env = {}        # name -> (frozenset of sources, fresh?)
        if extra:
            env[extra] = (frozenset("X"), False)
        ver = {}
        facts, checks = [], []

        def ev(e):
            t = U(e)
            if isinstance(e, ast.Attribute) and e.attr.endswith("__bad_single_lines"):
                return frozenset("S"), False
            if isinstance(e, ast.Attribute) and e.attr.endswith("__bad_lines"):
                return frozenset("M"), False
            if isinstance(e, ast.Name):
                return env.get(e.id, (None, False))
            if isinstance(e, (ast.List, ast.Tuple)) and not e.elts:
                return frozenset(), True
            if isinstance(e, ast.BinOp) and isinstance(e.op, ast.Add):
                a, b = ev(e.left), ev(e.right)
                return (None, True) if a[0] is None or b[0] is None else (a[0] | b[0], True)
            if isinstance(e, ast.Call) and call_name(e) in ("list", "tuple", "sorted") and len(e.args) == 1 and not e.keywords:
                return ev(e.args[0])[0], True
            if isinstance(e, ast.BoolOp) and isinstance(e.op, ast.Or) and len(e.values) == 2 and isinstance(e.values[1], (ast.List, ast.Tuple)) and not e.values[1].elts:
                return ev(e.values[0])
            if isinstance(e, ast.IfExp):
                a, b = ev(e.body), ev(e.orelse)
                return (None, False) if a[0] is None or b[0] is None else (a[0] | b[0], a[1] and b[1])
            return None, False

        def versioned(e):
            """boolean structure over atoms (name, version) / opaque text"""
            if isinstance(e, ast.BoolOp):
                return ("and" if isinstance(e.op, ast.And) else "or", [versioned(v) for v in e.values])
            if isinstance(e, ast.UnaryOp) and isinstance(e.op, ast.Not):
                return ("not", [versioned(e.operand)])
            if isinstance(e, ast.Name):
                return ("atom", (e.id, ver.get(e.id, 0)))
            names = sorted(set((x.id, ver.get(x.id, 0)) for x in ast.walk(e) if isinstance(x, ast.Name)))
            return ("atom", (U(e), tuple(names)))
        bad = None
        for item in trail:
            if item[0] == "cond":
                try:
                    ce = ast.parse(item[1], mode="eval").body
                except SyntaxError:
                    continue
                facts.append((versioned(ce), item[2]))
                continue
            st = item[1]
            if isinstance(st, ast.Assign) and len(st.targets) == 1 and isinstance(st.targets[0], ast.Name):
                n = st.targets[0].id
                c = st.value
                if isinstance(c, ast.Call) and U(c.func) == "self.validate_lines":
                    ver[n] = ver.get(n, 0) + 1
                    if len(c.args) != 3 or c.keywords or U(c.args[0]) != "%s.content" % ctxp:
                        bad = "validate_lines is not given the content and the two tables: %s" % short(c, 90)
                        break
                    checks.append(((n, ver[n]), ev(c.args[1])[0], ev(c.args[2])[0], short(c, 90)))
                    env.pop(n, None)
                    continue
                val = ev(c)
                if U(c) not in PRESERVING(n):
                    ver[n] = ver.get(n, 0) + 1
                if val[0] is None:
                    env.pop(n, None)
                else:
                    env[n] = val
            elif isinstance(st, ast.AugAssign) and isinstance(st.target, ast.Name) and st.target.id in env:
                cur = env[st.target.id]
                add = ev(st.value)
                if not cur[1]:
                    bad = "in-place extension of a table that is not a fresh copy (%s): the class-level table would grow with every parser" % short(st, 80)
                    break
                env[st.target.id] = (None if add[0] is None or cur[0] is None else cur[0] | add[0], True)
                ver[st.target.id] = ver.get(st.target.id, 0) + 1
            elif isinstance(st, ast.Expr) and isinstance(st.value, ast.Call) and call_attr(st.value) in ("extend", "append", "insert", "remove", "pop", "clear") and isinstance(st.value.func.value, ast.Name) \
                    and st.value.func.value.id in env:
                n = st.value.func.value.id
                cur = env[n]
                if not cur[1]:
                    bad = "in-place change of a table that is not a fresh copy (%s)" % short(st, 80)
                    break
                add = ev(st.value.args[0]) if call_attr(st.value) == "extend" and st.value.args else (None, False)
                env[n] = (None if add[0] is None or cur[0] is None else cur[0] | add[0], True)
                ver[n] = ver.get(n, 0) + 1
            else:
                for x in ast.walk(st):
                    if isinstance(x, ast.Name) and isinstance(x.ctx, ast.Store):
                        env.pop(x.id, None)
                        ver[x.id] = ver.get(x.id, 0) + 1
        if bad:
            return False, bad
        atoms = []

        def collect(f):
            if f[0] == "atom":
                if f[1] not in atoms:
                    atoms.append(f[1])
            else:
                for g_ in f[1]:
                    collect(g_)
        for f, pol in facts:
            collect(f)
        for c in checks:
            if c[0] not in atoms:
                atoms.append(c[0])
        xa = (extra, 0)
        if extra and xa not in atoms:
            atoms.append(xa)
        if len(atoms) > 14:
            return None, "too many conditions on one path"

        def val(f, a):
            if f[0] == "atom":
                return a[f[1]]
            if f[0] == "not":
                return not val(f[1][0], a)
            vs = [val(g_, a) for g_ in f[1]]
            return all(vs) if f[0] == "and" else any(vs)
        sat = []
        for bits in itertools.product((False, True), repeat=len(atoms)):
            a = dict(zip(atoms, bits))
            if all(val(f, a) == pol for f, pol in facts):
                sat.append(a)
        if not sat:
            continue          # infeasible path
        reached += 1
        enforced = [c for c in checks if all(a[c[0]] for a in sat)]
        if any(c[1] is None or c[2] is None for c in enforced):
            return None, "a table argument of %s is not built from the class tables and the extra phrases" % [c[3] for c in enforced if c[1] is None or c[2] is None][0]
        single = frozenset().union(*[c[1] for c in enforced]) if enforced else frozenset()
        multi = frozenset().union(*[c[2] for c in enforced]) if enforced else frozenset()
        x_possible = bool(extra) and any(a[xa] for a in sat)
        want_s = set("S") | (set("X") if x_possible else set())
        want_m = set("M") | (set("X") if x_possible else set())
        ok = want_s <= single <= set("SX") and want_m <= multi <= set("MX")
        notes.append("path[%s]: single-line position %s, multi-line position %s%s" % (
            "extra given" if x_possible else "no extra", "+".join(sorted(single)) or "-", "+".join(sorted(multi)) or "-", "" if ok else "  <-- incomplete"))
        all_ok = all_ok and ok
    if not reached:
        return False, "no feasible path reaches the parser"
    return all_ok, "; ".join(sorted(set(notes))) + "  (S/M = class single-/multi-line table, X = extra_bad_lines)"


def r2_tables(cx, descendants):
    cx.rule("C14.R2", "bad-line tables are lower case, the haystack is case folded, every extra phrase is lower case", floor=8)
    m = cx.repo.module(CORE)
    cls = m.cls("CommandParser", "C14.R2")
    for nm in ("__bad_single_lines", "__bad_lines"):
        v = _class_const(cls, nm)
        try:
            tbl = literal(cx.repo, v) if v is not None else None
        except ValueError:
            tbl = None
        if not isinstance(tbl, list):
            cx.unknown(cls, "class table %s is not a literal list" % nm)
            continue
        cx.require(all(isinstance(x, str) and x == x.lower() and x for x in tbl), cls, "every phrase of %s is a non-empty lower-case literal" % nm, construct="%s = %s" % (nm, tbl))
        if nm == "__bad_single_lines":
            cx.require(all(n in tbl for n in NAMED), cls, "the phrases named in the statement are in the single-line table", construct="%s" % tbl)
    fn = m.func("CommandParser.validate_lines", "C14.R2")
    p = params(fn)
    anys = [x for x in find_calls(fn.body, name="any")]
    ok = False
    table_expr = None
    if anys:
        g = anys[0].args[0]
        if isinstance(g, (ast.GeneratorExp, ast.ListComp)) and isinstance(g.elt, ast.Compare) and isinstance(g.elt.ops[0], ast.In):
            hay = g.elt.comparators[0]
            its = dict((U(c.target), c.iter) for c in g.generators)
            needle = U(g.elt.left)
            table_expr = its.get(needle)
            ok = isinstance(hay, ast.Call) and call_attr(hay) == "lower" and U(its.get(U(hay.func.value))) == p[0] and table_expr is not None and not any(c.ifs for c in g.generators)
            if not ok and isinstance(hay, ast.Name) and hay.id in its and table_expr is not None and not any(c.ifs for c in g.generators):
                # every line lower-cased once, up front:  any(bl in rl for rl in (x.lower() for x in results) for bl in bad_lines)
                src = its[hay.id]
                src = trace(src, fn) if isinstance(src, ast.Name) else src
                if isinstance(src, (ast.GeneratorExp, ast.ListComp)) and len(src.generators) == 1 and not src.generators[0].ifs and U(src.generators[0].iter) == p[0] \
                        and isinstance(src.elt, ast.Call) and call_attr(src.elt) == "lower" and not src.elt.args and U(src.elt.func.value) == U(src.generators[0].target):
                    ok = True
    cx.require(ok, anys[0] if anys else fn, "a phrase matches when it is contained in the lower-cased line, for any phrase and any line", construct=short(anys[0]) if anys else "(no any(...))")
    want_sel = "%s if len(%s) > 1 else %s" % (p[2], p[0], p[1])
    sel_txt = None
    if table_expr is not None:
        if isinstance(table_expr, ast.IfExp):
            sel_txt = U(table_expr)
        elif isinstance(table_expr, ast.Name):
            sel = [a for a in walk_body(fn.body) if isinstance(a, ast.Assign) and U(a.targets[0]) == table_expr.id]
            sel_txt = U(sel[-1].value) if sel else None
    cx.require(sel_txt == want_sel, anys[0] if anys else fn, "the multi-line table applies iff there is more than one line, otherwise the single-line table", construct="phrases searched: %s" % sel_txt)
    rets = [r for r in walk_body(fn.body) if isinstance(r, ast.Return)]
    ok = False
    if anys and rets:
        a_txt = U(anys[0])
        falses = [r for r in rets if U(r.value) == "False"]
        trues = [r for r in rets if U(r.value) == "True"]
        direct = [r for r in rets if U(r.value) == "not %s" % a_txt]
        if direct and len(direct) + len(trues) == len(rets):
            # return not any(...); other returns say True only for empty content
            ok = all(((p[0], False) in guard_texts(r)) for r in trues)
        elif len(falses) == 1 and len(falses) + len(trues) == len(rets) and trues:
            ok = (a_txt, True) in guard_texts(falses[0]) and all(((a_txt, True) not in guard_texts(r)) for r in trues)
    cx.require(ok, fn, "validate_lines returns False iff a phrase matched", construct="returns: %s" % [short(r, 60) for r in rets])
    # extra_bad_lines sites
    n_sites = 0
    for c in descendants:
        for n in ast.walk(c):
            val = None
            if isinstance(n, ast.Call):
                if kwarg(n, "extra_bad_lines") is not None:
                    val = kwarg(n, "extra_bad_lines")
                elif call_attr(n) == "__init__" and len(n.args) >= 2 and (U(n.func.value).startswith("super(") or U(n.func.value) in ("CommandParser",)):
                    # which constructor is called, and is its second parameter the extra phrase list?
                    if U(n.func.value).startswith("super("):
                        kc, callee = cx.repo.lookup_method(c, "__init__", after=c)
                        pos = 1
                    else:
                        kc, callee = cx.repo.lookup_method(cx.repo.module(CORE).cls("CommandParser"), "__init__")
                        pos = 2
                    if callee is not None and len(params(callee)) > 2 and params(callee)[2] == "extra_bad_lines" and len(n.args) > pos:
                        val = n.args[pos]
            if val is None:
                continue
            if isinstance(val, ast.Name) and val.id in [a.arg for a in (enclosing_function(n).args.args if enclosing_function(n) else [])]:
                continue    # passed through from the subclass's own parameter
            try:
                tbl = literal(cx.repo, val)
            except ValueError:
                cx.unknown(n, "extra_bad_lines value cannot be resolved to literals")
                continue
            n_sites += 1
            if tbl is None:
                continue
            cx.require(all(isinstance(x, str) and x == x.lower() for x in tbl), n, "extra bad-line phrases are lower case (the line is lower-cased before matching, a mixed-case phrase can never match)",
                       construct="%s.extra_bad_lines = %s" % (c.name, tbl))
    cx.extra["extra_bad_lines_sites"] = n_sites


def command_parser_descendants(cx, mods):
    out = []
    for m in mods:
        for q, c in m.classes():
            try:
                if cx.repo.is_subclass(c, CP) and not (m.name == CORE and q == "CommandParser"):
                    out.append(c)
            except Exception:
                pass
    return out


def r3_descendants(cx, descendants):
    cx.rule("C14.R3", "every CommandParser descendant reaches the validating constructor with its context unchanged", floor=380 if cx.tier == "thorough" or len(descendants) > 300 else 1)
    n_init = 0
    for c in descendants:
        inits = [st for st in c.body if isinstance(st, FUNC_TYPES) and st.name == "__init__"]
        hc = [st for st in c.body if isinstance(st, FUNC_TYPES) and st.name == "_handle_content"]
        for st in hc:
            sup = [x for x in find_calls(st.body, attr="_handle_content") if U(x.func.value).startswith("super(")]
            cx.require(bool(sup), st, "%s overrides _handle_content only by extending the inherited one" % c.name, construct="def %s._handle_content" % c.name)
        if not inits:
            cx.ok(c, "%s inherits the constructor" % c.name, construct="class %s (no __init__)" % c.name)
            continue
        n_init += 1
        fn = inits[0]
        ps = params(fn)
        calls = [x for x in find_calls(fn.body, attr="__init__") if U(x.func.value).startswith("super(") or isinstance(x.func.value, ast.Name)]
        top = [x for x in calls if stmt_of(x) in fn.body]
        if not top:
            if calls:
                cx.bad(calls[0], "%s.__init__ reaches the base constructor on every path (the call is conditional)" % c.name, construct=short(calls[0], 100))
            else:
                cx.bad(fn, "%s.__init__ reaches CommandParser.__init__ (no base constructor call: validation and parsing are skipped)" % c.name, construct="def %s.__init__ (no super().__init__)" % c.name)
            continue
        x = top[0]
        args = x.args[1:] if isinstance(x.func.value, ast.Name) else x.args
        star = any(isinstance(a, ast.Starred) for a in x.args)
        ctx_ok = star or (bool(args) and len(ps) > 1 and U(args[0]) == ps[1]) or (kwarg(x, "context") is not None and U(kwarg(x, "context")) == ps[1])
        cx.require(ctx_ok, x, "%s.__init__ passes its context argument unchanged to the base constructor" % c.name, construct=short(x, 110))
        # nothing parses before the base constructor ran
        early = [y for y in find_calls(fn.body) if U(y.func) in ("self.parse_content", "self._handle_content") and (y.lineno, y.col_offset) < (x.lineno, x.col_offset)]
        cx.require(not early, early[0] if early else x, "%s does not parse before the validating constructor ran" % c.name, construct=short(early[0]) if early else "no early parse_content")
    cx.extra["command_parser_descendants"] = len(descendants)
    cx.extra["descendants_defining_init"] = n_init


def _escapes(cx, fn, allowed):
    """Explicit raise sites of ``fn`` that can leave it, with the exception class raised."""
    out = []
    for n in walk_body(fn.body):
        exc = None
        if isinstance(n, ast.Raise):
            exc = U(n.exc.func) if isinstance(n.exc, ast.Call) else U(n.exc) if n.exc is not None else "<reraise>"
        elif isinstance(n, ast.Call) and call_name(n) == "six.reraise" and n.args:
            exc = U(n.args[0])
        if exc is None:
            continue
        # caught by an enclosing try *body* handler?
        caught = False
        child = n
        for a in ancestors(n):
            if isinstance(a, ast.Try) and any(child is s or any(child is y for y in ast.walk(s)) for s in a.body):
                for h in a.handlers:
                    hn = handler_names(h)
                    if h.type is None or "Exception" in hn or "BaseException" in hn or exc in hn:
                        caught = True
                        break
                if caught:
                    break
            if isinstance(a, FUNC_TYPES):
                break
            child = a
        if not caught:
            out.append((n, exc))
    return out


REWRITES = ("strip", "rstrip", "lstrip", "replace", "lower", "upper", "expandtabs", "translate", "title", "casefold", "swapcase", "capitalize", "format", "sub", "subn",
            "removeprefix", "removesuffix", "zfill", "center", "ljust", "rjust")


def _text_rewrites(e, fn, depth=0, seen=None):
    """Calls that rewrite text on the value flow of ``e`` (through joins, slices, comprehension elements - not their filters - and single local
    assignments)."""
    seen = seen if seen is not None else set()
    out = []
    if depth > 8 or e is None:
        return out
    if isinstance(e, ast.Name):
        if e.id in seen:
            return out
        seen.add(e.id)
        for a in assigns_to(fn, e.id):
            v = getattr(a, "value", None)
            if v is not None and isinstance(a, ast.Assign):
                out += _text_rewrites(v, fn, depth + 1, seen)
        for c in [n for n in ast.walk(fn) if isinstance(n, ast.comprehension) and any(isinstance(t, ast.Name) and t.id == e.id for t in ast.walk(n.target))]:
            out += _text_rewrites(c.iter, fn, depth + 1, seen)
        return out
    if isinstance(e, (ast.ListComp, ast.GeneratorExp, ast.SetComp)):
        out += _text_rewrites(e.elt, fn, depth + 1, seen)
        for g in e.generators:
            out += _text_rewrites(g.iter, fn, depth + 1, seen)
        return out
    if isinstance(e, ast.Subscript):
        return _text_rewrites(e.value, fn, depth + 1, seen)
    if isinstance(e, ast.IfExp):
        return _text_rewrites(e.body, fn, depth + 1, seen) + _text_rewrites(e.orelse, fn, depth + 1, seen)
    if isinstance(e, ast.BinOp):
        return _text_rewrites(e.left, fn, depth + 1, seen) + _text_rewrites(e.right, fn, depth + 1, seen)
    if isinstance(e, ast.Call):
        if isinstance(e.func, ast.Attribute) and e.func.attr == "join":
            for a in e.args:
                out += _text_rewrites(a, fn, depth + 1, seen)
            return out
        if isinstance(e.func, ast.Attribute) and e.func.attr in REWRITES:
            return [e]
        if call_name(e) in ("re.sub", "re.subn"):
            return [e]
        if isinstance(e.func, ast.Attribute):
            out += _text_rewrites(e.func.value, fn, depth + 1, seen)
        for a in e.args:
            out += _text_rewrites(a, fn, depth + 1, seen)
        return out
    return out


def r4_escape_sets(cx):
    cx.rule("C14.R4", "JSON and YAML base parsers raise only SkipComponent or ParseException", floor=8)
    m = cx.repo.module(CORE)
    for q, loader in (("JSONParser.parse_content", "json.loads"), ("YAMLParser.parse_content", "yaml.load")):
        fn = m.func(q, "C14.R4")
        for n, exc in _escapes(cx, fn, None):
            cx.require(exc in ("SkipComponent", "ParseException"), n, "%s lets only SkipComponent / ParseException escape" % q, construct="%s raises %s" % (short(n, 70), exc))
        trs = [t for t in walk_body(fn.body) if isinstance(t, ast.Try)]
        if len(trs) != 1:
            cx.bad(fn, "%s wraps loading in one try statement" % q, construct="%d try statements" % len(trs))
            continue
        tr = trs[0]
        loads = [x for x in find_calls(fn.body) if call_name(x) == loader]
        cx.require(bool(loads) and all(enclosing(x, ast.Try) is tr and any(stmt_of(x) is s or any(stmt_of(x) is y for y in ast.walk(s)) for s in tr.body) for x in loads), tr,
                   "%s: every %s call is inside the try body" % (q, loader), construct="%d %s calls" % (len(loads), loader))
        bare = [h for h in tr.handlers if h.type is None or set(handler_names(h)) & set(["Exception", "BaseException"])]
        ok = bool(bare) and tr.handlers[-1] is bare[0]
        if ok:
            rr = [x for x in find_calls(bare[0].body, name="six.reraise")] + [x for x in walk_body(bare[0].body) if isinstance(x, ast.Raise)]
            ok = bool(rr) and "ParseException" in U(rr[0])
            ok = ok and terminates_all(bare[0].body)
        cx.require(ok, tr, "%s: the catch-all handler translates every other exception into ParseException" % q, construct="handlers: %s" % [",".join(handler_names(h)) for h in tr.handlers])
        if q.startswith("YAML"):
            sk = [i for i, h in enumerate(tr.handlers) if handler_names(h) == ["SkipComponent"]]
            cx.require(bool(sk) and sk[0] == 0, tr, "YAML: the SkipComponent arm comes before the catch-all (a skip is not turned into a parse error)", construct="handlers: %s" % [",".join(handler_names(h)) for h in tr.handlers])
            for x in loads:
                cx.require(U(kwarg(x, "Loader")) == "SafeLoader", x, "YAML is loaded with the safe loader")
            rs = [r for r in walk_body(tr.body) if isinstance(r, ast.Raise)]
            ok = any("SkipComponent" in U(r.exc) and ("self.data is None", True) in guard_texts(r) for r in rs) and \
                any("ParseException" in U(r.exc) and ("isinstance(self.data, (dict, list))", False) in guard_texts(r) for r in rs)
            cx.require(ok, tr, "YAML: a null document is a skip, a scalar document a parse error", construct="raise SkipComponent if data is None; raise ParseException if not dict/list")
        else:
            rs = [r for r in walk_body(fn.body) if isinstance(r, ast.Raise)]
            ok = any("SkipComponent" in U(r.exc) and ("content", False) in guard_texts(r) for r in rs) and any("SkipComponent" in U(r.exc) and ("self.data is None", True) in guard_texts(r) for r in rs)
            cx.require(ok, fn, "JSON: empty content and a null document are skips", construct="raise SkipComponent if not content / if self.data is None")
        # self.data assigned only from the loader, unmodified
        for a in walk_body(fn.body):
            if isinstance(a, ast.Assign) and any(U(t) == "self.data" for t in a.targets):
                cx.require(isinstance(a.value, ast.Call) and call_name(a.value) == loader, a, "%s: self.data is exactly the loader's result" % q)
    # the loader is handed the document's own text: lines may be selected (noise before the start, ignored lines), never rewritten
    for q, loader in (("JSONParser.parse_content", "json.loads"), ("YAMLParser.parse_content", "yaml.load")):
        fn = m.func(q, "C14.R4")
        for x in [c for c in find_calls(fn.body) if call_name(c) == loader and c.args]:
            tr_ = _text_rewrites(x.args[0], fn)
            cx.require(not tr_, tr_[0] if tr_ else x, "%s: the text handed to %s is made of the content's lines unchanged (selection only; trailing blanks are significant inside YAML block scalars and JSON strings)" % (q, loader),
                       construct=short(tr_[0], 80) if tr_ else short(x, 80))
    # JSON noise lines
    jf = m.func("JSONParser.parse_content", "C14.R4")
    sl = [a for a in walk_body(jf.body) if isinstance(a, ast.Assign) and U(a.targets[0]) == "self.data" and "actual_start_index" in U(a.value)]
    ok = bool(sl) and U(sl[0].value) == "json.loads('\\n'.join(content[actual_start_index:]))"
    cx.require(ok, sl[0] if sl else jf, "JSON: the document is parsed from the first line starting with '{' or '[' to the end", construct=short(sl[0]) if sl else "(none)")
    # the start index is found by a scan that stops at the first line starting with '{' or '[' - in place or in a helper method
    scan_fn = jf
    sd = [a for a in walk_body(jf.body) if isinstance(a, ast.Assign) and U(a.targets[0]) == "actual_start_index" and isinstance(a.value, ast.Call) and U(a.value.func).startswith("self.")]
    if sd:
        kc, h = cx.repo.lookup_method(m.cls("JSONParser"), sd[0].value.func.attr)
        if h is not None:
            scan_fn = h
    exits = [b for b in walk_body(scan_fn.body) if isinstance(b, (ast.Break, ast.Return)) and enclosing(b, ast.For) is not None]
    ok = False
    for b in exits:
        conds = " ".join(t for t, p_ in guard_texts(b, stop=enclosing(b, ast.For)) if p_)
        if "startswith" in conds and "'{'" in conds and "'['" in conds:
            ok = True
    if not ok and not exits:
        # first match written with next():  actual_start_index = next((idx for idx, line in enumerate(content) if line.strip().startswith(('{', '['))), 0)
        for a_ in [x for x in walk_body(scan_fn.body) if isinstance(x, ast.Assign) and U(x.targets[0]) == "actual_start_index" and isinstance(x.value, ast.Call) and call_name(x.value) == "next"]:
            c_ = a_.value
            if len(c_.args) == 2 and isinstance(c_.args[0], ast.GeneratorExp) and len(c_.args[0].generators) == 1 and U(c_.args[1]) == "0":
                g_ = c_.args[0].generators[0]
                flt = " ".join(U(feat.resolve_const(m, scan_fn, n_)) if isinstance(n_, ast.Name) else "" for i_ in g_.ifs for n_ in ast.walk(i_)) + " " + " ".join(U(i_) for i_ in g_.ifs)
                if isinstance(g_.iter, ast.Call) and call_name(g_.iter) == "enumerate" and isinstance(g_.target, ast.Tuple) and U(c_.args[0].elt) == U(g_.target.elts[0]) \
                        and "startswith" in flt and "'{'" in flt and "'['" in flt:
                    ok = True
                    exits = [a_]
    cx.require(ok, exits[0] if exits else jf, "JSON: the scan for the start line stops at the first '{' / '[' line", construct="scan exit guarded by %s" % (sorted(guard_texts(exits[0], stop=enclosing(exits[0], ast.For))) if exits and enclosing(exits[0], ast.For) is not None else short(exits[0], 80) if exits else None))


def terminates_all(body):
    from ..model import terminates
    if terminates(body):
        return True
    last = body[-1]
    return isinstance(last, ast.Expr) and isinstance(last.value, ast.Call) and call_name(last.value) == "six.reraise"


def r5_line_search(cx):
    cx.rule("C14.R5", "line search returns the lines containing the requested strings, in original order", floor=5)
    m = cx.repo.module(CORE)
    vs = m.func("TextFileOutput._valid_search", "C14.R5")
    lams = [n for n in walk_body(vs.body) if isinstance(n, ast.Lambda)]
    p = params(vs)
    s, check = p[1], p[2]
    ok = len(lams) == 2 and U(lams[0].body) == "%s in l" % s and U(lams[1].body) in ("%s((w in l for w in %s))" % (check, s),)
    cx.require(ok, vs, "a string matches by containment; a list matches when check(all/any) of 'word in line' over every word holds", construct=" | ".join(U(l.body) for l in lams))
    a = vs.args
    dflt = dict(zip([x.arg for x in a.args][len(a.args) - len(a.defaults):], [U(d) for d in a.defaults]))
    cx.require(dflt.get(check) == "all", vs, "the default combination is 'all words'", construct="check=%s" % dflt.get(check))
    g = m.func("TextFileOutput.get", "C14.R5")
    loops = [x for x in g.body if isinstance(x, ast.For)]
    ok = False
    if loops:
        lp = loops[0]
        src = trace(lp.iter, g)
        LIMIT_OPEN = set([("num is None or len(ret) < num", True), ("num is not None and len(ret) >= num", False)])
        exits = [x for x in walk_body(lp.body) if isinstance(x, (ast.Break, ast.Continue, ast.Return))]
        exits_ok = all(isinstance(x, ast.Break) and set(guard_texts(x, stop=lp)) <= set([("num is None", False), ("len(ret) >= num", True), ("len(ret) < num", False)]) and ("len(ret) >= num", True) in guard_texts(x, stop=lp) or ("len(ret) < num", False) in guard_texts(x, stop=lp) for x in exits)
        ok = U(src) in ("self.lines[::-1] if reverse else self.lines",) and exits_ok
        ap = [x for x in find_calls(lp.body, attr="append")]
        ok = ok and len(ap) == 1 and U(ap[0].args[0]) == "self._parse_line(%s)" % U(lp.target)
        if ok:
            gs = set(guard_texts(ap[0], stop=lp))
            ok = ("search_by_expression(%s)" % U(lp.target), True) in gs and len(gs & LIMIT_OPEN) >= 1 and len(gs) == 2
    if not loops:
        # lazy form: ret = [self._parse_line(l) for l in islice((l for l in lines if search_by_expression(l)), limit)]
        for a_ in [x for x in walk_body(g.body) if isinstance(x, ast.Assign) and isinstance(x.value, ast.ListComp) and len(x.value.generators) == 1 and not x.value.generators[0].ifs]:
            lc = x.value if False else a_.value
            g0 = lc.generators[0]
            it = g0.iter
            if not (isinstance(it, ast.Call) and call_name(it) in ("islice", "itertools.islice") and len(it.args) == 2 and U(lc.elt) == "self._parse_line(%s)" % U(g0.target)):
                continue
            mg = trace(it.args[0], g) if isinstance(it.args[0], ast.Name) else it.args[0]
            lim = trace(it.args[1], g) if isinstance(it.args[1], ast.Name) else it.args[1]
            okm = isinstance(mg, ast.GeneratorExp) and len(mg.generators) == 1 and U(mg.elt) == U(mg.generators[0].target) \
                and [U(i) for i in mg.generators[0].ifs] == ["search_by_expression(%s)" % U(mg.generators[0].target)] \
                and U(trace(mg.generators[0].iter, g)) in ("self.lines[::-1] if reverse else self.lines",)
            okl = isinstance(lim, ast.IfExp) and U(lim.test) in ("num is None",) and U(lim.body) == "None" and U(lim.orelse) in ("num", "max(num, 0)", "max(0, num)", "min(max(num, 0), len(lines))", "min(max(0, num), len(lines))")
            if okm and okl:
                ok = True
                loops = [a_]
    cx.require(ok, loops[0] if loops else g, "get() walks the lines in order (or reversed), appending iff the predicate holds and the limit is not reached", construct=short(loops[0], 140) if loops else "(none)")
    rets = [r for r in g.body if isinstance(r, ast.Return)]
    cx.require(bool(rets) and U(rets[-1].value) == "ret[::-1] if reverse else ret", rets[-1] if rets else g, "a reversed search is put back into original order", construct=short(rets[-1]) if rets else "(none)")
    sb = [x for x in walk_body(g.body) if isinstance(x, ast.Assign) and U(x.targets[0]) == "search_by_expression"]
    cx.require(bool(sb) and U(sb[0].value) == "self._valid_search(%s, %s)" % (params(g)[1], params(g)[2]), sb[0] if sb else g, "get() uses the shared predicate with the caller's all/any choice", construct=short(sb[0]) if sb else "(none)")


DIRECTIVES = ["d", "m", "H", "I", "M", "S", "y", "Y", "f", "w"]


def format_table(cx):
    m = cx.repo.module(CORE)
    fn = m.func("LogFileOutput.get_after", "C14.R6")
    td = [a for a in walk_body(fn.body) if isinstance(a, ast.Assign) and U(a.targets[0]) == "format_conversion_for" and isinstance(a.value, ast.Dict)]
    if not td:
        return fn, None, None
    return fn, td[0], dict((const_str(k), const_str(v)) for k, v in zip(td[0].value.keys, td[0].value.values))


def r6_time_search(cx):
    cx.rule("C14.R6", "time search includes stamped lines at or after the time plus their continuation lines", floor=7)
    fn, tnode, table = format_table(cx)
    cmps = [c for c in walk_body(fn.body) if isinstance(c, ast.Compare) and "logstamp" in U(c) and "timestamp" in U(c) and "eleven_months" not in U(c)]
    ok = bool(cmps) and U(cmps[0]) in ("logstamp >= timestamp", "timestamp <= logstamp")
    cx.require(ok, cmps[0] if cmps else fn, "a stamped line is included iff its time is at or after the requested time (>=)", construct=short(cmps[0]) if cmps else "(no comparison)")
    if not cmps:
        return
    # path rule over one iteration of the line loop.  State: including_lines (old value / True / False / 'the comparison').
    #   stamped line (match):    afterwards including_lines == (logstamp >= timestamp); the line is yielded iff that holds
    #   unstamped line:          including_lines unchanged; the line is yielded iff it was being included
    lp0 = [x for x in walk_body(fn.body) if isinstance(x, ast.For) and U(x.iter) == "self.lines"]
    if not lp0:
        cx.bad(fn, "get_after walks self.lines", construct="(no loop over self.lines)")
        return
    CMP = ("logstamp >= timestamp", "timestamp <= logstamp")
    try:
        pths = feat.paths(lp0[0].body)
    except ValueError:
        cx.unknown(lp0[0], "too many paths through the line loop")
        return
    bad_stamped, bad_plain, n_st, n_pl = None, None, 0, 0
    for trail, end in pths:
        inc, cmp_pol, old_pol, m_pol, ys = "old", None, None, None, 0
        for item in trail:
            if item[0] == "cond":
                t, pol = item[1], item[2]
                if t == "match":
                    m_pol = pol
                elif t in CMP:
                    cmp_pol = pol
                elif t in ("logstamp < timestamp", "timestamp > logstamp"):
                    cmp_pol = not pol
                elif t == "including_lines":
                    if inc == "CMP":
                        cmp_pol = pol
                    elif inc == "old":
                        old_pol = pol
                continue
            st = item[1]
            for y in [x for x in ast.walk(st) if isinstance(x, (ast.Yield, ast.YieldFrom))]:
                ys += 1 if U(getattr(y, "value", None)) == "self._parse_line(line)" else 100
            if isinstance(st, ast.Assign) and any(U(t_) == "including_lines" for t_ in st.targets):
                v = U(st.value)
                inc = "T" if v == "True" else "F" if v == "False" else "CMP" if v in CMP else "UNK"
        if end not in ("fall", "continue"):
            bad_plain = bad_plain or "a path leaves the loop (%s)" % end
            continue
        if m_pol is None:
            if ys or inc != "old":
                bad_plain = bad_plain or "a line skipped before the time-stamp search is yielded or changes the state"
            continue
        if m_pol:
            n_st += 1
            ok_ = cmp_pol is not None and inc in ("CMP", "T" if cmp_pol else "F") and ys == (1 if cmp_pol else 0)
            if not ok_:
                bad_stamped = bad_stamped or "stamped line, %s: including_lines=%s, yields=%d" % (
                    "at/after" if cmp_pol else "before" if cmp_pol is not None else "comparison not tested", {"old": "unchanged", "T": "True", "F": "False", "CMP": "the comparison", "UNK": "?"}[inc], ys)
        else:
            n_pl += 1
            ok_ = inc == "old" and ((ys == 1 and old_pol is True) or (ys == 0 and old_pol is False))
            if not ok_:
                bad_plain = bad_plain or "unstamped line: including_lines %s, tested %s, yields=%d" % ("unchanged" if inc == "old" else "changed", old_pol, ys)
    cx.require(bad_stamped is None and n_st >= 2, lp0[0], "at/after: start including and yield the line; before: stop including and yield nothing (every path of a stamped line)",
               construct=bad_stamped or "%d paths of a stamped line" % n_st)
    cx.require(bad_plain is None and n_pl >= 2, lp0[0], "a line without a time stamp is yielded iff lines are currently being included (continuation line); the state is left alone",
               construct=bad_plain or "%d paths of an unstamped line" % n_pl)
    # a stamp without a year gets the year of the requested time (or the one before / after): a calendar substitution, never day arithmetic
    for a in [x for x in walk_body(lp0[0].body) if isinstance(x, (ast.Assign, ast.AugAssign)) and any(U(t_) == "logstamp" for t_ in (x.targets if isinstance(x, ast.Assign) else [x.target]))]:
        v = a.value
        if isinstance(a, ast.Assign) and isinstance(v, ast.Call) and not (isinstance(v.func, ast.Attribute) and v.func.attr == "replace"):
            continue                    # the parse of the matched text
        sub = isinstance(a, ast.Assign) and isinstance(v, ast.Call) and isinstance(v.func, ast.Attribute) and v.func.attr == "replace" and not v.args \
            and [k.arg for k in v.keywords] == ["year"] and "timestamp.year" in U(v.keywords[0].value)
        arith = isinstance(a, ast.AugAssign) or any(isinstance(n, ast.BinOp) and isinstance(n.op, (ast.Add, ast.Sub)) and "logstamp" in U(n) for n in ast.walk(v))
        if sub:
            cx.ok(a, "the missing year is substituted as a calendar year taken from the requested time", construct=short(a, 90))
        elif arith:
            cx.bad(a, "the missing year is substituted as a calendar year (replace(year=...)); shifting by a fixed number of days is a day off across a leap year", construct=short(a, 90))
        else:
            cx.unknown(a, "cannot classify this redefinition of the log stamp")
    md = [a for a in walk_body(fn.body) if isinstance(a, ast.Assign) and U(a.targets[0]) == "match"]
    ok = len(md) == 1 and U(md[0].value) == "time_re.search(line)"
    if ok:
        g = set((U(e), p) for e, p, o in guards_ex(md[0], stop=enclosing(md[0], ast.For)))
        ok = g <= set([("s and (not search_by_expression(line))", False), ("s", False), ("search_by_expression(line)", True), ("s and not search_by_expression(line)", False)])
    cx.require(ok, md[0] if md else fn, "every line (that passes the keyword filter) is searched for a time stamp - the decision never depends on whether lines are currently being included",
               construct=short(md[0]) if md else "(no match = time_re.search(line))")
    init = [a for a in walk_body(fn.body) if isinstance(a, ast.Assign) and U(a.targets[0]) == "including_lines" and enclosing(a, ast.For) is None]
    cx.require(len(init) == 1 and U(init[0].value) == "False", init[0] if init else fn, "nothing is included before the first matching time stamp", construct=short(init[0]) if init else "(none)")
    lp = [x for x in walk_body(fn.body) if isinstance(x, ast.For) and U(x.iter) == "self.lines"]
    cx.require(bool(lp) and not [b for b in walk_body(lp[0].body) if isinstance(b, (ast.Break, ast.Return))], lp[0] if lp else fn, "all lines are visited in order", construct="for line in self.lines")
    # unknown directive
    rep = [n for n in fn.body if isinstance(n, FUNC_TYPES) and n.name == "replacer"]
    ok = False
    if rep:
        for r in [x for x in walk_body(rep[0].body) if isinstance(x, ast.Raise) and "ParseException" in U(x.exc)]:
            g = guard_texts(r)
            if ("match.group(1) in format_conversion_for", False) in g:
                ok = True
            # look-up with a default:  v = format_conversion_for.get(match.group(1)); if v is None: raise
            for t, p in g:
                if p and t in ("format_conversion_for.get(match.group(1)) is None", "format_conversion_for.get(match.group(1), None) is None"):
                    ok = True
                if p and t.endswith(" is None") and t[:-8].isidentifier():
                    ds = assigns_to(rep[0], t[:-8])
                    if len(ds) == 1 and U(ds[0].value) in ("format_conversion_for.get(match.group(1))", "format_conversion_for.get(match.group(1), None)"):
                        ok = True
    cx.require(ok, rep[0] if rep else fn, "an unknown strptime directive is a ParseException", construct="replacer: else raise ParseException")
    if table is None:
        cx.unknown(fn, "format_conversion_for is not a literal dict")
        return
    try:
        from . import c14_rx
    except ImportError:
        c14_rx = None
    if c14_rx is not None:
        c14_rx.directive_table(cx, tnode, table)


def run(cx):
    repo = cx.repo
    cx.extra["explanation"] = ("C14: dominance of validation over parsing in CommandParser, lower-case tables and case-folded haystack, class-hierarchy sweep over every CommandParser descendant "
                               "(constructor chain, context passed unchanged, extra phrases lower case), exception-escape sets of the JSON/YAML base parsers, line-search predicate, "
                               "inclusion state machine of get_after, strptime-directive regex table against the strftime value ranges (regex interpreter on the constants).")
    cx.undecided = ["exact returned values for arbitrary documents/logs", "year-rollover decision thresholds (the 11-month window)", "INFO: '%I' pattern '([0 ]?\\d|1[012])' is an ordered alternation whose first branch matches a prefix of 10-12 (only matters when %I ends the format)"]
    mods = repo.all_modules()
    desc = command_parser_descendants(cx, mods)
    cx.guard(r1_validation_first)
    cx.guard(r2_tables, desc)
    cx.guard(r3_descendants, desc)
    cx.guard(r4_escape_sets)
    cx.guard(r5_line_search)
    cx.guard(r6_time_search)
    # 'raises the content error and yields no object': the content error a parser raises is a subclass of the skip signal; in parser.invoke it must reach
    # its own (recording) arm, not the silent skip arm (C03.R9 re-checked)
    from . import c03
    cx.borrow(c03.r9_content_before_skip, "C03.R9", "C14.R7", "a content error raised by a parser is reported as such, not swallowed as a skip (C03.R9)",
              [repo.module("insights.core.dr"), repo.module("insights.core.plugins")])
