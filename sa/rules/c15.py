"""C15 - shared text-format helpers recover the data that was rendered (structural clauses)."""
import ast

from ..model import (AnalysisError, FUNC_TYPES, U, call_attr, call_name, dotted, enclosing, enclosing_function, guard_texts, guards_ex,
                     short, walk_body, walk_local, ancestors, parent, const_str, kwarg)
from ..util import params, find_calls, assigns_to, trace, stmt_of, has_exit, syn_dominates

CORE = "insights.core"
PR = "insights.parsers"
ACCESSORS = ("get", "getboolean", "getfloat", "getint", "has_option", "items", "set", "__contains__")


def r1_ini_normalisation(cx):
    cx.rule("C15.R1", "INI option names are lower-cased and section names stripped on every path from a parameter to a look-up", floor=12)
    m = cx.repo.module(CORE)
    cls = m.cls("IniConfigFile", "C15.R1")
    seen_methods = 0
    for st in cls.body:
        if not isinstance(st, FUNC_TYPES):
            continue
        ps = params(st)
        for pname, norm in (("option", "lower"), ("section", "strip")):
            if pname not in ps:
                continue
            seen_methods += 1
            uses = [n for n in walk_body(st.body) if isinstance(n, ast.Name) and n.id == pname and isinstance(n.ctx, ast.Load)]
            if not uses:
                cx.ok(st, "%s.%s does not use '%s'" % (cls.name, st.name, pname), construct="def %s" % st.name)
            for u in uses:
                p = parent(u)
                ok, why = False, ""
                if isinstance(p, ast.Attribute) and p.value is u:
                    call = parent(p)
                    if p.attr == norm and isinstance(call, ast.Call):
                        ok, why = True, "%s.%s()" % (pname, norm)
                    elif p.attr == "strip" and isinstance(call, ast.Call) and isinstance(parent(call), ast.Attribute) and parent(call).attr == norm:
                        ok, why = True, "%s.strip().%s()" % (pname, norm)
                elif isinstance(p, ast.Call) and u in p.args and U(p.func).startswith("self.") and p.func.attr in ACCESSORS:
                    ok, why = True, "passed to the normalising accessor %s" % U(p.func)
                cx.require(ok, u, ("%s.%s: %s" % (cls.name, st.name, why)) if ok else "%s.%s uses '%s' only through .%s() (or hands it to another accessor)" % (cls.name, st.name, pname, norm),
                           construct=short(stmt_of(u), 100))
    if seen_methods < 8:
        cx.error("expected at least 8 (method, parameter) pairs taking option/section in IniConfigFile, found %d" % seen_methods)
    # every look-up into the section table uses the normalised local, never the raw parameter
    pc = m.func("IniConfigFile.parse_content", "C15.R1")
    st = [a for a in walk_body(pc.body) if isinstance(a, ast.Assign) and U(a.targets[0]).startswith("section_dict[")]
    ok = len(st) == 1 and U(st[0].targets[0]) == "section_dict[opt.name.lower()]" and U(st[0].value) == "options[-1]"
    cx.require(ok, st[0] if st else pc, "the builder stores each option under its lower-cased name, the last value of duplicates winning", construct=short(st[0]) if st else "(none)")
    if st:
        lp = enclosing(st[0], ast.For)
        g = set((U(e), p, o) for e, p, o in guards_ex(st[0], stop=lp))
        cx.require(g <= set([("options", True, "exit-jump")]), st[0], "every option occurrence reaches the store (only an option without any value is skipped): a later spelling in another case must override the earlier one",
                   construct="store guarded by %s" % sorted(g))
    up = [x for x in find_calls(pc.body, attr="update") if U(x.func.value) == "self._dict[section.name]"]
    ok = len(up) == 1 and ("section.name in self._dict", True) in guard_texts(up[0]) and U(up[0].args[0]) == "section_dict"
    new = [a for a in walk_body(pc.body) if isinstance(a, ast.Assign) and U(a.targets[0]) == "self._dict[section.name]"]
    ok = ok and len(new) == 1 and ("section.name in self._dict", False) in guard_texts(new[0]) and U(new[0].value) == "section_dict"
    cx.require(ok, up[0] if up else pc, "a repeated section updates the earlier one (later options override), a new section is stored as is", construct="self._dict[section.name].update(section_dict) / = section_dict")
    d = [a for a in walk_body(pc.body) if isinstance(a, ast.Assign) and U(a.targets[0]) == "self._dict"]
    cx.require(len(d) == 1 and U(d[0].value) == "OrderedDict()", d[0] if d else pc, "sections keep document order", construct=short(d[0]) if d else "(none)")


MATCHER_OPS = {
    "equals": ["s == v"],
    "contains": ["v in s"],
    "startswith": ["s.startswith(v)"],
    "endswith": ["s.endswith(v)"],
    "lower_value": ["s.lower() == v.lower()"],
}


def r2_keyword_search(cx):
    cx.rule("C15.R2", "keyword search keeps the rows satisfying all conditions; each suffix selects the operation of the same name", floor=8)
    m = cx.repo.module(PR)
    fn = m.func("keyword_search", "C15.R2")
    md = [a for a in walk_body(fn.body) if isinstance(a, ast.Assign) and U(a.targets[0]) == "matchers" and isinstance(a.value, ast.Dict)]
    if not md:
        cx.unknown(fn, "no literal matcher table")
        return
    tbl = dict((const_str(k), v) for k, v in zip(md[0].value.keys, md[0].value.values))
    for name, ops in MATCHER_OPS.items():
        if name not in tbl:
            cx.bad(md[0], "documented suffix '%s' is in the matcher table" % name, construct="keys: %s" % sorted(tbl))
            continue
        lam = tbl[name]
        body = U(lam.body) if isinstance(lam, ast.Lambda) else U(lam)
        a = [x.arg for x in lam.args.args] if isinstance(lam, ast.Lambda) else ["s", "v"]
        norm = body.replace(a[0] + ".", "s.").replace(a[1] + ".", "v.") if a != ["s", "v"] else body
        core = norm.split(" and ")[-1]
        cx.require(core in ops, lam, "suffix '%s' performs the operation of the same name" % name, construct="%s: %s" % (name, body))
    for k in tbl:
        cx.require(k in MATCHER_OPS, md[0], "every suffix in the table is a documented one", construct="suffix %s" % k)
    alls = [x for x in find_calls(fn.body, name=("all", "any")) if "search_terms" in U(x)]
    ok = len(alls) == 1 and call_name(alls[0]) == "all" and U(alls[0].args[0]) in ("(key_match(row, *term) for term in search_terms)",)
    cx.require(ok, alls[0] if alls else fn, "a row is kept iff ALL search terms match", construct=short(alls[0]) if alls else "(none)")
    if alls:
        ap = [x for x in find_calls(fn.body, attr="append") if U(x.func.value) == "data"]
        lp = enclosing(alls[0], ast.For)
        ok = len(ap) == 1 and lp is not None and U(lp.iter) == "rows" and U(ap[0].args[0]) == U(lp.target) and not has_exit(lp.body) and set(guard_texts(ap[0], stop=lp)) == set([(U(alls[0]), True)])
        cx.require(ok, ap[0] if ap else fn, "matching rows are returned unchanged, in input order", construct=short(lp, 100) if lp is not None else "(none)")
    # unknown suffix -> equality on the full key
    fb = [a for a in walk_body(fn.body) if isinstance(a, ast.Assign) and U(a.targets[0]) == "data_key" and U(a.value) == "search_keyword" and ("matcher in matchers", False) in guard_texts(a)]
    fm = [a for a in walk_body(fn.body) if isinstance(a, ast.Assign) and U(a.targets[0]) == "matcher" and U(a.value) == "'equals'" and ("matcher in matchers", False) in guard_texts(a)]
    cx.require(bool(fb) and bool(fm), fb[0] if fb else fn, "an unknown suffix falls back to equality on the full keyword", construct="if matcher not in matchers: data_key = search_keyword; matcher = 'equals'")
    pt = [a for a in walk_body(fn.body) if isinstance(a, ast.Assign) and isinstance(a.value, ast.Call) and call_attr(a.value) == "partition" and U(a.value.func.value) == "search_keyword"]
    cx.require(bool(pt) and const_str(pt[0].value.args[0]) == "__", pt[0] if pt else fn, "the suffix is what follows the first '__'", construct=short(pt[0]) if pt else "(none)")
    km = [n for n in fn.body if isinstance(n, FUNC_TYPES) and n.name == "key_match"]
    ok = False
    if km:
        rets = [U(r.value) for r in walk_body(km[0].body) if isinstance(r, ast.Return)]
        ok = rets == ["data_key in row and row[data_key] == value", "data_key in row and matcher_fn(row[data_key], value)"]
    cx.require(ok, km[0] if km else fn, "a term matches only when the row has the field and the matcher accepts its value", construct="key_match returns")
    tx = [a for a in walk_body(fn.body) if isinstance(a, ast.Assign) and U(a.targets[0]) == "txkeys" and isinstance(a.value, ast.Call) and call_name(a.value) == "dict"]
    ok = bool(tx) and "key.replace(' ', '_').replace('-', '_'), key" in U(tx[0].value)
    cx.require(ok, tx[0] if tx else fn, "search keywords address fields by name with spaces and dashes as underscores", construct=short(tx[0], 110) if tx else "(none)")


def r3_kv_and_comments(cx):
    cx.rule("C15.R3", "key/value splitting at the first separator in line order; comments and blanks contribute nothing", floor=5)
    m = cx.repo.module(PR)
    fn = m.func("split_kv_pairs", "C15.R3")
    bad = [x for x in find_calls(fn.body) if call_attr(x) in ("rsplit", "rpartition")]
    cx.require(not bad, bad[0] if bad else fn, "never split at the last separator", construct=short(bad[0]) if bad else "no rsplit/rpartition")
    sp = [x for x in find_calls(fn.body, attr="split") if U(x.func.value) == "line"]
    ok = len(sp) == 1 and len(sp[0].args) == 2 and U(sp[0].args[0]) == "split_on" and U(sp[0].args[1]) == "1"
    cx.require(ok, sp[0] if sp else fn, "line.split(separator, 1): the key ends at the first separator", construct=short(sp[0]) if sp else "(none)")
    pa = [x for x in find_calls(fn.body, attr="partition") if U(x.func.value) == "line"]
    cx.require(len(pa) == 1 and U(pa[0].args[0]) == "split_on", pa[0] if pa else fn, "partition variant also splits at the first separator", construct=short(pa[0]) if pa else "(none)")
    sts = [a for a in walk_body(fn.body) if isinstance(a, ast.Assign) and U(a.targets[0]).startswith("kv_pairs[")]
    ok = len(sts) == 2 and all(U(a.targets[0]) == "kv_pairs[k.strip()]" and U(a.value) == "v.strip()" for a in sts)
    lp = [s for s in fn.body if isinstance(s, ast.For)]
    ok = ok and bool(lp) and U(lp[0].iter) == "_lines" and not has_exit(lp[0].body)
    cx.require(ok, sts[0] if sts else fn, "pairs are stored by plain assignment in line order (later duplicates override)", construct="for line in _lines: kv_pairs[k.strip()] = v.strip()")
    ld = assigns_to(fn, "_lines")
    ok = len(ld) == 2 and U(ld[0].value) == "lines if comment_char is None else get_active_lines(lines, comment_char=comment_char)"
    cx.require(ok, ld[0] if ld else fn, "comment stripping precedes splitting", construct=short(ld[0], 120) if ld else "(none)")
    ga = m.func("get_active_lines", "C15.R3")
    rets = [r for r in walk_body(ga.body) if isinstance(r, ast.Return)]
    ok = len(rets) == 1 and U(rets[0].value) == "list(filter(None, (line.split(comment_char, 1)[0].strip() for line in lines)))"
    cx.require(ok, rets[0] if rets else ga, "each line keeps the part before the first comment character, stripped; empty results are dropped; order kept", construct=short(rets[0], 120) if rets else "(none)")


def r4_tables(cx):
    cx.rule("C15.R4", "table helpers slice rows by header positions / split by the delimiter, in row order", floor=7)
    m = cx.repo.module(PR)
    fn = m.func("parse_fixed_table", "C15.R4")
    ci = [n for n in fn.body if isinstance(n, FUNC_TYPES) and n.name == "calc_column_indices"]
    ok = False
    if ci:
        f = ci[0]
        idx = [x for x in find_calls(f.body, attr="index")]
        st = [a for a in walk_body(f.body) if isinstance(a, ast.Assign) and U(a.targets[0]) == "i"]
        ok = len(idx) == 1 and [U(a) for a in idx[0].args] == ["h", "i"] and len(st) == 1 and U(st[0].value) == "idx[-1] + 1 if idx else 0"
        lp = [s for s in f.body if isinstance(s, ast.For)]
        ok = ok and bool(lp) and U(lp[0].iter) == params(f)[1] and not has_exit(lp[0].body)
    cx.require(ok, ci[0] if ci else fn, "each header is located strictly after the previous column start (duplicate header text is handled)", construct="i = idx[-1] + 1 if idx else 0; line.index(h, i)")
    cxd = [a for a in walk_body(fn.body) if isinstance(a, ast.Assign) and U(a.targets[0]) == "col_index"]
    ip = [a for a in walk_body(fn.body) if isinstance(a, ast.Assign) and U(a.targets[0]) == "idx_pairs"]
    ok = bool(cxd) and U(cxd[0].value) == "calc_column_indices(header, col_headers) + [None]" and bool(ip) and U(ip[0].value) == "[(c, col_index[i + 1]) for i, c in enumerate(col_index) if c is not None]"
    cx.require(ok, ip[0] if ip else fn, "column k spans from its header position to the next header position (the last to end of line)", construct=short(ip[0], 120) if ip else "(none)")
    sl = [a for a in walk_body(fn.body) if isinstance(a, ast.Assign) and U(a.targets[0]) == "val"]
    stc = [a for a in walk_body(fn.body) if isinstance(a, ast.Assign) and U(a.targets[0]) == "col_data[col_headers[i]]"]
    ok = bool(sl) and U(sl[0].value) == "line[s:e].strip()" and bool(stc) and U(stc[0].value) == "val"
    cx.require(ok, sl[0] if sl else fn, "a cell is the stripped slice of its column, stored under the column's header", construct="val = line[s:e].strip(); col_data[col_headers[i]] = val")
    lp = [s for s in fn.body if isinstance(s, ast.For) and "table_lines[first_line + 1:last_line]" == U(s.iter)]
    ap = [x for x in find_calls(fn.body, attr="append") if U(x.func.value) == "table_data"]
    ok = bool(lp) and len(ap) == 1 and set(guard_texts(ap[0], stop=lp[0])) == set([("line.strip()", True)]) and not [b for b in walk_body(lp[0].body) if isinstance(b, (ast.Break, ast.Continue, ast.Return))]
    cx.require(ok, lp[0] if lp else fn, "every non-blank row between heading and trailer yields one record, in order", construct="for line in table_lines[first_line + 1:last_line]: if line.strip(): ... append")
    fd = m.func("parse_delimited_table", "C15.R4")
    z = [a for a in walk_body(fd.body) if isinstance(a, ast.Assign) and U(a.targets[0]) == "o"]
    rs = [a for a in walk_body(fd.body) if isinstance(a, ast.Assign) and U(a.targets[0]) == "rowsplit" and "split(" in U(a.value)]
    ok = bool(z) and U(z[0].value) == "dict(zip(headings, rowsplit))" and bool(rs) and U(rs[0].value) == "row.split(delim, max_splits)"
    cx.require(ok, z[0] if z else fd, "a delimited row is split by the delimiter and zipped with the headings", construct="rowsplit = row.split(delim, max_splits); o = dict(zip(headings, rowsplit))")
    ct = [a for a in walk_body(fd.body) if isinstance(a, ast.Assign) and U(a.targets[0]) == "content"]
    ap = [x for x in find_calls(fd.body, attr="append") if U(x.func.value) == "r"]
    lp = enclosing(ap[0], ast.For) if ap else None
    ok = bool(ct) and U(ct[0].value) == "table_lines[first_line + 1:last_line]" and lp is not None and U(lp.iter) == "content" and set(guard_texts(ap[0], stop=lp)) == set([("row", True)])
    cx.require(ok, ct[0] if ct else fd, "every non-blank row after the heading yields one record, in order", construct="content = table_lines[first_line + 1:last_line]; for line in content: if row: r.append(o)")
    hd = [a for a in walk_body(fd.body) if isinstance(a, ast.Assign) and U(a.targets[0]) == "headings"]
    ok = bool(hd) and U(hd[0].value) == "[c.strip() if strip else c for c in header.split(header_delim)]"
    cx.require(ok, hd[0] if hd else fd, "headings are the header split by the header delimiter", construct=short(hd[0]) if hd else "(none)")


def run(cx):
    cx.extra["explanation"] = ("C15: normalisation-before-lookup taint rule over every IniConfigFile accessor (option -> lower, section -> strip) against the builder's stored keys, "
                               "matcher table / conjunction rule of keyword_search, first-separator and comment rules, slicing/zip shape of the two table helpers.")
    cx.undecided = ["round-trip equality of rendered tables / key-value documents / INI documents for all geometries (value level)"]
    cx.guard(r1_ini_normalisation)
    cx.guard(r2_keyword_search)
    cx.guard(r3_kv_and_comments)
    cx.guard(r4_tables)
