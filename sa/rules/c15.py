"""C15 - shared text-format helpers recover the data that was rendered (structural clauses)."""
import ast

from ..model import (AnalysisError, FUNC_TYPES, U, call_attr, call_name, dotted, enclosing, enclosing_function, guard_texts, guards_ex,
                     short, walk_body, walk_local, ancestors, parent, const_str, kwarg)
from ..util import params, find_calls, assigns_to, trace, stmt_of, has_exit, syn_dominates
from .. import feat

CORE = "insights.core"
PR = "insights.parsers"
ACCESSORS = ("get", "getboolean", "getfloat", "getint", "has_option", "items", "set", "__contains__")


def r1_ini_normalisation(cx):
    cx.rule("C15.R1", "INI option names are lower-cased and section names stripped on every path from a parameter to a look-up", floor=12)
    m = cx.repo.module(CORE)
    cls = m.cls("IniConfigFile", "C15.R1")
    seen_methods = 0
    for st in cls.body:
        if not isinstance(st, FUNC_TYPES):
            continue
        ps = params(st)
        for pname, norm in (("option", "lower"), ("section", "strip")):
            if pname not in ps:
                continue
            seen_methods += 1
            uses = [n for n in walk_body(st.body) if isinstance(n, ast.Name) and n.id == pname and isinstance(n.ctx, ast.Load)]
            if not uses:
                cx.ok(st, "%s.%s does not use '%s'" % (cls.name, st.name, pname), construct="def %s" % st.name)
            for u in uses:
                p = parent(u)
                ok, why = False, ""
                if isinstance(p, ast.Attribute) and p.value is u:
                    call = parent(p)
                    if p.attr == norm and isinstance(call, ast.Call):
                        ok, why = True, "%s.%s()" % (pname, norm)
                    elif p.attr == "strip" and isinstance(call, ast.Call) and isinstance(parent(call), ast.Attribute) and parent(call).attr == norm:
                        ok, why = True, "%s.strip().%s()" % (pname, norm)
                elif isinstance(p, ast.Call) and u in p.args and U(p.func).startswith("self.") and p.func.attr in ACCESSORS:
                    ok, why = True, "passed to the normalising accessor %s" % U(p.func)
                cx.require(ok, u, ("%s.%s: %s" % (cls.name, st.name, why)) if ok else "%s.%s uses '%s' only through .%s() (or hands it to another accessor)" % (cls.name, st.name, pname, norm),
                           construct=short(stmt_of(u), 100))
    if seen_methods < 8:
        cx.error("expected at least 8 (method, parameter) pairs taking option/section in IniConfigFile, found %d" % seen_methods)
    # every look-up into the section table uses the normalised local, never the raw parameter
    pc = m.func("IniConfigFile.parse_content", "C15.R1")
    st = [a for a in walk_body(pc.body) if isinstance(a, ast.Assign) and U(a.targets[0]).startswith("section_dict[")]
    ok = len(st) == 1 and U(st[0].targets[0]) == "section_dict[opt.name.lower()]" and U(st[0].value) == "options[-1]"
    cx.require(ok, st[0] if st else pc, "the builder stores each option under its lower-cased name, the last value of duplicates winning", construct=short(st[0]) if st else "(none)")
    if st:
        lp = enclosing(st[0], ast.For)
        g = set((U(e), p) for e, p, o in guards_ex(st[0], stop=lp))
        cx.require(g <= set([("options", True)]), st[0], "every option occurrence reaches the store (only an option without any value is skipped): a later spelling in another case must override the earlier one",
                   construct="store guarded by %s" % sorted(g))
    # 'later duplicates override': the list whose last element is stored holds the occurrences of the option in document order - a bare key (no value,
    # kept under allow_no_value) is an occurrence like any other.  Collecting the valued occurrences first and adding None afterwards reorders them.
    od = [a for a in walk_body(pc.body) if isinstance(a, ast.Assign) and U(a.targets[0]) == "options"]
    oaps = [x for x in find_calls(pc.body, attr="append") if U(x.func.value) == "options"]
    if od:
        occ_loops = [l_ for l_ in walk_body(pc.body) if isinstance(l_, ast.For) and "section[opt.name]" in U(l_.iter)]
        outside = [x for x in oaps if not any(enclosing(x, ast.For) is l_ or any(a_ is l_ for a_ in ancestors(x)) for l_ in occ_loops)]
        filt = [a for a in od if isinstance(a.value, ast.ListComp) and any(g_.ifs and "allow_no_value" not in " ".join(U(i_) for i_ in g_.ifs) for g_ in a.value.generators)]
        okc = not outside and not filt
        cx.require(okc, (outside or filt or od)[0], "the occurrences of an option are collected in document order, a bare key being an occurrence like any other (only its exclusion without allow_no_value may skip it)",
                   construct=short((outside or filt or od)[0], 90))
    up = [x for x in find_calls(pc.body, attr="update") if U(x.func.value) == "self._dict[section.name]"]
    ok = len(up) == 1 and ("section.name in self._dict", True) in guard_texts(up[0]) and U(up[0].args[0]) == "section_dict"
    new = [a for a in walk_body(pc.body) if isinstance(a, ast.Assign) and U(a.targets[0]) == "self._dict[section.name]"]
    ok = ok and len(new) == 1 and ("section.name in self._dict", False) in guard_texts(new[0]) and U(new[0].value) == "section_dict"
    if not ok:
        # one statement for both cases:  self._dict.setdefault(section.name, {}).update(section_dict)
        sd = [x for x in find_calls(pc.body, attr="update") if isinstance(x.func.value, ast.Call) and U(x.func.value) in ("self._dict.setdefault(section.name, {})", "self._dict.setdefault(section.name, dict())")]
        ok = len(sd) == 1 and [U(a_) for a_ in sd[0].args] == ["section_dict"] and not new and not up and not [t_ for t_, p_ in guard_texts(sd[0], stop=enclosing(sd[0], ast.For))]
        up = sd or up
    cx.require(ok, up[0] if up else pc, "a repeated section updates the earlier one (later options override), a new section is stored as is", construct="self._dict[section.name].update(section_dict) / = section_dict")
    d = [a for a in walk_body(pc.body) if isinstance(a, ast.Assign) and U(a.targets[0]) == "self._dict"]
    cx.require(len(d) == 1 and U(d[0].value) == "OrderedDict()", d[0] if d else pc, "sections keep document order", construct=short(d[0]) if d else "(none)")


MATCHER_OPS = {
    "equals": ["s == v"],
    "contains": ["v in s"],
    "startswith": ["s.startswith(v)"],
    "endswith": ["s.endswith(v)"],
    "lower_value": ["s.lower() == v.lower()"],
}


def r2_keyword_search(cx):
    cx.rule("C15.R2", "keyword search keeps the rows satisfying all conditions; each suffix selects the operation of the same name", floor=8)
    m = cx.repo.module(PR)
    fn = m.func("keyword_search", "C15.R2")
    md = [a for a in walk_body(fn.body) if isinstance(a, ast.Assign) and U(a.targets[0]) == "matchers"]
    tv = feat.resolve_const(m, fn, md[0].value) if md else None
    if not md or not isinstance(tv, ast.Dict):
        cx.unknown(fn, "no literal matcher table")
        return
    tbl = dict((const_str(k), v) for k, v in zip(tv.keys, tv.values))
    for name, ops in MATCHER_OPS.items():
        if name not in tbl:
            cx.bad(md[0], "documented suffix '%s' is in the matcher table" % name, construct="keys: %s" % sorted(tbl))
            continue
        lam = tbl[name]
        body = U(lam.body) if isinstance(lam, ast.Lambda) else U(lam)
        a = [x.arg for x in lam.args.args] if isinstance(lam, ast.Lambda) else ["s", "v"]
        norm = body.replace(a[0] + ".", "s.").replace(a[1] + ".", "v.") if a != ["s", "v"] else body
        core = norm.split(" and ")[-1]
        cx.require(core in ops, lam, "suffix '%s' performs the operation of the same name" % name, construct="%s: %s" % (name, body))
    for k in tbl:
        cx.require(k in MATCHER_OPS, md[0], "every suffix in the table is a documented one", construct="suffix %s" % k)
    # the conjunction over the compiled terms
    quant = [x for x in ast.walk(fn) if isinstance(x, ast.Call) and call_name(x) in ("all", "any") and x.args and isinstance(x.args[0], (ast.GeneratorExp, ast.ListComp))
             and any(U(g.iter) == "search_terms" for g in x.args[0].generators)]
    ok = bool(quant) and all(call_name(q) == "all" and isinstance(q.args[0].elt, ast.Call) and call_name(q.args[0].elt) == "key_match" and not q.args[0].generators[0].ifs for q in quant)
    cx.require(ok, quant[0] if quant else fn, "a row is kept iff ALL search terms match", construct=short(quant[0]) if quant else "(no all(... for term in search_terms))")
    if quant:
        q = quant[0]
        comp = enclosing(q, (ast.ListComp,))
        ok = False
        what = "(none)"
        if comp is not None and any(q is i for g in comp.generators for i in g.ifs):
            g = comp.generators[0]
            ok = len(comp.generators) == 1 and U(g.iter) == "rows" and U(comp.elt) == U(g.target) and len(g.ifs) == 1
            what = short(comp, 110)
        else:
            lp = enclosing(q, ast.For)
            ap = [x for x in find_calls(lp.body, attr="append")] if lp is not None else []
            ok = lp is not None and U(lp.iter) == "rows" and len(ap) == 1 and U(ap[0].args[0]) == U(lp.target) and not feat.loop_exits(lp) \
                and set(guard_texts(ap[0], stop=lp)) == set([(U(q), True)])
            what = short(lp, 110) if lp is not None else "(none)"
        cx.require(ok, q, "matching rows are returned unchanged, in input order", construct=what)
    # unknown suffix -> equality on the full key
    fb = [a for a in walk_body(fn.body) if isinstance(a, ast.Assign) and U(a.targets[0]) == "data_key" and U(a.value) == "search_keyword" and ("matcher in matchers", False) in guard_texts(a)]
    fm = [a for a in walk_body(fn.body) if isinstance(a, ast.Assign) and U(a.targets[0]) == "matcher" and U(a.value) == "'equals'" and ("matcher in matchers", False) in guard_texts(a)]
    cx.require(bool(fb) and bool(fm), fb[0] if fb else fn, "an unknown suffix falls back to equality on the full keyword", construct="if matcher not in matchers: data_key = search_keyword; matcher = 'equals'")
    pt = [a for a in walk_body(fn.body) if isinstance(a, ast.Assign) and isinstance(a.value, ast.Call) and call_attr(a.value) == "partition" and U(a.value.func.value) == "search_keyword"]
    cx.require(bool(pt) and const_str(pt[0].value.args[0]) == "__", pt[0] if pt else fn, "the suffix is what follows the first '__'", construct=short(pt[0]) if pt else "(none)")
    km = [n for n in fn.body if isinstance(n, FUNC_TYPES) and n.name == "key_match"]
    ok = bool(km)
    seen = []
    if km:
        ps = params(km[0])
        row, key = ps[0], ps[1]
        has = "%s in %s" % (key, row)
        rets = [r for r in walk_body(km[0].body) if isinstance(r, ast.Return)]
        ok = bool(rets)
        for r in rets:
            t = U(r.value) if r.value is not None else "None"
            conj = [U(v) for v in r.value.values] if isinstance(r.value, ast.BoolOp) and isinstance(r.value.op, ast.And) else [t]
            if t == "False":
                continue
            implied = has in conj[:-1] or (has, True) in guard_texts(r)
            last = conj[-1]
            accepts = last == "%s[%s] == value" % (row, key) or (last.endswith("(%s[%s], value)" % (row, key)) and isinstance(ast.parse(last, mode="eval").body, ast.Call))
            seen.append(t)
            ok = ok and implied and accepts
    cx.require(ok, km[0] if km else fn, "a term matches only when the row has the field and the matcher accepts its value", construct="key_match returns: %s" % "; ".join(seen))
    tx = [a for a in walk_body(fn.body) if isinstance(a, ast.Assign) and U(a.targets[0]) == "txkeys" and isinstance(a.value, (ast.Call, ast.DictComp))]
    tx = [a for a in tx if "replace" in U(a.value)]
    t = U(tx[0].value) if tx else ""
    ok = len(tx) == 1 and ("key.replace(' ', '_').replace('-', '_'), key" in t or "key.replace(' ', '_').replace('-', '_'): key" in t)
    cx.require(ok, tx[0] if tx else fn, "search keywords address fields by name with spaces and dashes as underscores", construct=short(tx[0], 110) if tx else "(none)")


def r3_kv_and_comments(cx):
    cx.rule("C15.R3", "key/value splitting at the first separator in line order; comments and blanks contribute nothing", floor=5)
    m = cx.repo.module(PR)
    fn = m.func("split_kv_pairs", "C15.R3")
    reg = feat.region(m, fn)
    ps = params(fn)
    lines_p, sep_names = ps[0], set(["split_on"])
    bad = feat.calls(reg, attr=("rsplit", "rpartition"))
    cx.require(not bad, bad[0] if bad else fn, "never split at the last separator", construct=short(bad[0]) if bad else "no rsplit/rpartition")
    sp = [x for x in feat.calls(reg, attr="split") if x.args and U(x.args[0]) in sep_names]
    pa = [x for x in feat.calls(reg, attr="partition") if x.args and U(x.args[0]) in sep_names]
    ok = (bool(sp) or bool(pa)) and all(len(x.args) == 2 and U(x.args[1]) == "1" for x in sp)
    cx.require(ok, sp[0] if sp else pa[0] if pa else fn, "line.split(separator, 1) / line.partition(separator): the key ends at the first separator", construct="; ".join(short(x) for x in sp + pa) if sp or pa else "(none)")
    # a line without the separator is ignored unless use_partition is set: every store is reached only with the separator present or use_partition
    cx.require(bool(pa) or "use_partition" not in ps, pa[0] if pa else fn, "partition variant also splits at the first separator", construct=short(pa[0]) if pa else "(none)")
    sts = [a for a in walk_body(fn.body) if isinstance(a, ast.Assign) and U(a.targets[0]).startswith("kv_pairs[")]
    other = [x for x in find_calls(fn.body, attr=("setdefault", "update")) if U(x.func.value) == "kv_pairs"]
    ok = bool(sts) and not other
    lp = None
    for a in sts:
        lp = enclosing(a, ast.For)
        g = guard_texts(a, stop=lp)
        ok = ok and lp is not None and enclosing(lp, (ast.For, ast.While)) is None and not feat.loop_exits(lp) and not any("kv_pairs" in t for t, p in g)
        # the key and the value are the stripped halves
        key = a.targets[0].slice
        fnn = enclosing_function(a)
        stripped = lambda n: isinstance(n, ast.Call) and call_attr(n) == "strip"
        ok = ok and (feat.flows_from(key, fnn, stripped) or any(any(stripped(n) for n in ast.walk(r)) for f in reg[1:] for r in ast.walk(f) if isinstance(r, ast.Return)))
    cx.require(ok, sts[0] if sts else fn, "pairs are stored by plain assignment in line order (later duplicates override)", construct="; ".join(short(a) for a in sts) if sts else "(no kv_pairs[...] = ...)")
    ga_calls = [x for x in find_calls(fn.body, name="get_active_lines")]
    ok = len(ga_calls) == 1 and U(ga_calls[0].args[0]) == lines_p and guard_texts(ga_calls[0]) <= set([("comment_char is None", False)])
    if ok and lp is not None:
        ok = feat.flows_from(lp.iter, fn, lambda n: n is ga_calls[0])
    cx.require(ok, ga_calls[0] if ga_calls else fn, "comment stripping precedes splitting", construct=short(stmt_of(ga_calls[0]), 120) if ga_calls else "(none)")
    ga = m.func("get_active_lines", "C15.R3")
    rg = feat.region(m, ga)
    bad = feat.calls(rg, attr=("rsplit", "rpartition"))
    cuts = [x for x in feat.calls(rg, attr=("split", "partition")) if x.args and U(x.args[0]) == "comment_char"]
    ok = not bad and len(cuts) == 1
    if ok:
        c = cuts[0]
        ok = (call_attr(c) == "partition" or (len(c.args) == 2 and U(c.args[1]) == "1")) and isinstance(parent(c), ast.Subscript) and U(parent(c).slice) == "0"
        ok = ok and isinstance(parent(parent(c)), ast.Attribute) and parent(parent(c)).attr == "strip"
    drops = [x for x in feat.calls(rg, name="filter") if x.args and U(x.args[0]) == "None"] or [c for c in feat.walk(rg) if isinstance(c, ast.comprehension) and c.ifs]
    if (not ok or not drops) and len(cuts) == 1 and not bad:
        ok = False
        # statement form:  active = line.split(comment_char, 1)[0].strip(); if active: out.append(active)   inside  for line in lines
        c = cuts[0]
        st = stmt_of(c)
        lp_ = enclosing(c, ast.For)
        if isinstance(st, ast.Assign) and isinstance(st.targets[0], ast.Name) and lp_ is not None and U(lp_.iter) == params(ga)[0] and not feat.loop_exits(lp_):
            nm = st.targets[0].id
            shape_ok = (call_attr(c) == "partition" or (len(c.args) == 2 and U(c.args[1]) == "1")) and isinstance(parent(c), ast.Subscript) and U(parent(c).slice) == "0" \
                and isinstance(parent(parent(c)), ast.Attribute) and parent(parent(c)).attr == "strip"
            aps = [x for x in find_calls(lp_.body, attr="append") if x.args and U(x.args[0]) == nm]
            if shape_ok and len(aps) == 1 and set(guard_texts(aps[0], stop=lp_)) == set([(nm, True)]):
                rets_ = [r_ for r_ in walk_body(ga.body) if isinstance(r_, ast.Return)]
                if len(rets_) == 1 and U(rets_[0].value) == U(aps[0].func.value):
                    ok = True
                    drops = [aps[0]]
    cx.require(ok and bool(drops), cuts[0] if cuts else ga, "each line keeps the part before the first comment character, stripped; empty results are dropped; order kept",
               construct=short(stmt_of(cuts[0]), 120) if cuts else "(none)")


def _pairing_ok(fn):
    """The (start, end) pairs: column k ends where column k+1 starts, the last one is open ended."""
    for n in ast.walk(fn):
        # [(c, X[i + 1]) for i, c in enumerate(X) if c is not None]  with X = starts + [None]
        if isinstance(n, ast.ListComp) and isinstance(n.elt, ast.Tuple) and len(n.elt.elts) == 2 and len(n.generators) == 1:
            g = n.generators[0]
            if isinstance(g.iter, ast.Call) and call_name(g.iter) == "enumerate" and isinstance(g.target, ast.Tuple) and len(g.target.elts) == 2:
                i, c = U(g.target.elts[0]), U(g.target.elts[1])
                x = U(g.iter.args[0])
                if U(n.elt.elts[0]) == c and U(n.elt.elts[1]) == "%s[%s + 1]" % (x, i) and [U(t) for t in g.ifs] == ["%s is not None" % c]:
                    d = [a for a in walk_body(fn.body) if isinstance(a, ast.Assign) and U(a.targets[0]) == x]
                    if len(d) == 1 and U(d[0].value).endswith("+ [None]"):
                        return n
                    # X = []; for ...: X.append(start) ; X.append(None)      (the open end appended last, outside the loop, unconditionally)
                    aps = [c_ for c_ in find_calls(fn.body, attr="append") if U(c_.func.value) == x]
                    tail = [c_ for c_ in aps if U(c_.args[0]) == "None"]
                    if len(d) == 1 and U(d[0].value) in ("[]", "list()") and len(tail) == 1 and enclosing(tail[0], (ast.For, ast.While, ast.If)) is None \
                            and all(c_ is tail[0] or (enclosing(c_, ast.For) is not None and stmt_of(c_).lineno < stmt_of(tail[0]).lineno) for c_ in aps) \
                            and stmt_of(tail[0]).lineno < stmt_of(n).lineno:
                        return n
        # zip(X, X[1:] + [None])
        if isinstance(n, ast.Call) and call_name(n) == "zip" and len(n.args) == 2:
            x = U(n.args[0])
            if U(n.args[1]) == "%s[1:] + [None]" % x:
                return n
    return None


def r4_tables(cx):
    cx.rule("C15.R4", "table helpers slice rows by header positions / split by the delimiter, in row order", floor=7)
    m = cx.repo.module(PR)
    fn = m.func("parse_fixed_table", "C15.R4")
    reg = feat.region(m, fn)
    idx = feat.calls(reg, attr="index")
    ok = len(idx) == 1 and len(idx[0].args) == 2
    if ok:
        f = enclosing_function(idx[0])
        lp = enclosing(idx[0], ast.For)
        ok = lp is not None and not feat.loop_exits(lp) and feat.flows_from(idx[0].args[1], f, lambda n: isinstance(n, ast.BinOp) and isinstance(n.op, ast.Add) and U(n.right) == "1" and U(n.left).endswith("[-1]"))
        d = assigns_to(f, U(idx[0].args[1])) if isinstance(idx[0].args[1], ast.Name) else []
        ok = ok and all(enclosing(a, ast.For) is lp for a in d)
        if not ok and lp is not None and isinstance(idx[0].args[1], ast.Name) and not feat.loop_exits(lp):
            # running position:  pos = 0 ; for h in headers: start = header.index(h, pos) ; ... ; pos = start + 1
            sv = idx[0].args[1].id
            outer_d = [a for a in d if enclosing(a, (ast.For, ast.While)) is None]
            inner_d = [a for a in d if enclosing(a, ast.For) is lp]
            res = stmt_of(idx[0])
            rname = U(res.targets[0]) if isinstance(res, ast.Assign) and res.value is idx[0] else None
            ok = len(d) == 2 and len(outer_d) == 1 and U(outer_d[0].value) == "0" and outer_d[0].lineno < lp.lineno and len(inner_d) == 1 and not guard_texts(inner_d[0], stop=lp) \
                and not guard_texts(idx[0], stop=lp) and inner_d[0].lineno > res.lineno and rname is not None and U(inner_d[0].value) in ("%s + 1" % rname, "1 + %s" % rname) \
                and len(assigns_to(lp.body, rname)) == 1
    cx.require(ok, idx[0] if idx else fn, "each header is located strictly after the previous column start (duplicate header text is handled)",
               construct=short(stmt_of(idx[0])) if idx else "(no .index(header, start))")
    pr = _pairing_ok(fn)
    cx.require(pr is not None, pr if pr is not None else fn, "column k spans from its header position to the next header position (the last to end of line)", construct=short(pr, 120) if pr is not None else "(no recognised pairing)")
    lps = [s for s in walk_body(fn.body) if isinstance(s, ast.For) and "table_lines[first_line + 1:last_line]" == U(s.iter) and enclosing(s, (ast.For, ast.While)) is None]
    ap = [x for x in find_calls(fn.body, attr="append") if U(x.func.value) == "table_data"]
    ok = len(lps) == 1 and len(ap) == 1 and enclosing(ap[0], ast.For) is lps[0]
    if ok:
        lp, cur = lps[0], U(lps[0].target)
        ok = set(guard_texts(ap[0], stop=lp)) == set([("%s.strip()" % cur, True)]) and not feat.loop_exits(lp)
        cells = [n for n in walk_body(lp.body) if isinstance(n, ast.Subscript) and isinstance(n.slice, ast.Slice) and U(n.value) == cur]
        okc = len(cells) == 1 and isinstance(cells[0].slice.lower, ast.Name) and isinstance(cells[0].slice.upper, ast.Name) and cells[0].slice.step is None \
            and isinstance(parent(cells[0]), ast.Attribute) and parent(cells[0]).attr == "strip"
        if okc:
            il = enclosing(cells[0], ast.For)
            okc = il is not None and il is not lp and "(%s, %s)" % (U(cells[0].slice.lower), U(cells[0].slice.upper)) in U(il.target) and "idx_pairs" in U(il.iter)
            st = [a for a in walk_body(il.body) if isinstance(a, ast.Assign) and isinstance(a.targets[0], ast.Subscript) and U(a.targets[0].value) == U(ap[0].args[0])] if okc else []
            okc = okc and len(st) == 1 and feat.flows_from(st[0].value, fn, lambda n: n is cells[0]) and not any(isinstance(x, (ast.Break, ast.Continue, ast.Return)) for x in walk_body(il.body))
            if okc:
                k = U(st[0].targets[0].slice)
                it = U(il.iter)
                okc = (k.startswith("col_headers[") and it.startswith("enumerate(")) or (it.startswith("zip(col_headers,") and U(il.target).startswith("(%s," % k))
        cx.require(okc, cells[0] if cells else lp, "a cell is the stripped slice of its column, stored under the column's header", construct=short(stmt_of(cells[0])) if cells else "(none)")
    cx.require(ok, lps[0] if lps else fn, "every non-blank row between heading and trailer yields one record, in order", construct="for line in table_lines[first_line + 1:last_line]: if line.strip(): ... append")
    fd = m.func("parse_delimited_table", "C15.R4")
    ap = [x for x in find_calls(fd.body, attr="append") if U(x.func.value) == "r"]
    lp = enclosing(ap[0], ast.For) if ap else None
    z = [x for x in ast.walk(fd) if isinstance(x, ast.Call) and call_name(x) == "zip" and len(x.args) == 2 and U(x.args[0]) == "headings" and call_name(parent(x)) == "dict"]
    zf = enclosing_function(z[0]) if z else None
    ok = len(z) == 1
    if ok:
        ok = feat.flows_from(z[0].args[1], zf, lambda n: isinstance(n, ast.Call) and call_attr(n) == "split" and [U(a) for a in n.args] == ["delim", "max_splits"])
    cx.require(ok, z[0] if z else fd, "a delimited row is split by the delimiter and zipped with the headings", construct=short(stmt_of(z[0])) if z else "(none)")
    ok = False
    what = "(no row collection)"
    if lp is not None and len(ap) == 1 and zf is fd:
        # accumulate loop in the function itself
        ok = enclosing(z[0], ast.For) is lp and feat.flows_from(ap[0].args[0], fd, lambda n: n is z[0]) and enclosing(lp, (ast.For, ast.While)) is None and not feat.loop_exits(lp)
        if ok:
            it = trace(lp.iter, fd)
            g = set(guard_texts(ap[0], stop=lp))
            cur = U(lp.target)
            ok = U(it) == "table_lines[first_line + 1:last_line]" and g in (set([("row", True)]), set([("%s.strip()" % cur, True)]))
        what = "for line in table_lines[first_line + 1:last_line]: if row: r.append(o)"
    elif z and zf is not fd:
        # comprehension over the content calling a local row builder:  [to_row(line) for line in content if line.strip()]
        comps = [r_.value for r_ in walk_body(fd.body) if isinstance(r_, ast.Return) and isinstance(r_.value, ast.ListComp)]
        if len(comps) == 1 and len(comps[0].generators) == 1:
            g0 = comps[0].generators[0]
            cur = U(g0.target)
            elt = comps[0].elt
            rb = [r_ for r_ in walk_body(zf.body) if isinstance(r_, ast.Return)]
            ok = U(trace(g0.iter, fd)) == "table_lines[first_line + 1:last_line]" and [U(i) for i in g0.ifs] == ["%s.strip()" % cur] \
                and isinstance(elt, ast.Call) and isinstance(elt.func, ast.Name) and elt.func.id == zf.name and [U(a) for a in elt.args] == [cur] \
                and len(rb) == 1 and feat.flows_from(rb[0].value, zf, lambda n: n is z[0])
            what = short(comps[0], 110)
    cx.require(ok, lp if lp is not None else fd, "every non-blank row after the heading yields one record, in order", construct=what)
    hd = [a for a in walk_body(fd.body) if isinstance(a, ast.Assign) and U(a.targets[0]) == "headings"]
    ok = len(hd) == 1 and any(isinstance(n, ast.Call) and call_attr(n) == "split" and U(n.func.value) == "header" and [U(a) for a in n.args] == ["header_delim"] for n in ast.walk(hd[0].value))
    cx.require(ok, hd[0] if hd else fd, "headings are the header split by the header delimiter", construct=short(hd[0]) if hd else "(none)")


def r5_ini_value_passthrough(cx):
    """The grammar of iniparser.parse_doc decides what a value is (continuation lines, inline comment marker, quoting).  The two mapping functions that
    wrap the parsed pieces into Directive / Section nodes must hand the parsed value on untouched: any operation applied to it there (a slice, a
    regex substitution, a split) changes option values after the grammar has delimited them, and the document no longer reads back as rendered."""
    cx.rule("C15.R5", "the INI tree builders pass the parsed value / children through unchanged", floor=2)
    m = cx.repo.module("insights.parsr.iniparser")
    pd = m.func("parse_doc", "C15.R5")
    for fname, ctor, kwname in (("to_directive", "Directive", "attrs"), ("to_section", "Section", "children")):
        fns = [n for n in pd.body if isinstance(n, FUNC_TYPES) and n.name == fname]
        if not fns:
            cx.unknown(pd, "no %s mapping function in parse_doc" % fname)
            continue
        fn = fns[0]
        ctor_calls = [x for x in find_calls(fn.body, name=ctor)]
        kv = kwarg(ctor_calls[0], kwname) if len(ctor_calls) == 1 else None
        if kv is None or not isinstance(kv, ast.Name):
            cx.unknown(fn, "%s(%s=<local>) not found in %s" % (ctor, kwname, fname))
            continue
        var = kv.id
        bad = []
        for u in [n for n in walk_body(fn.body) if isinstance(n, ast.Name) and n.id == var and isinstance(n.ctx, ast.Load)]:
            p_ = parent(u)
            if p_ is kv or u is kv:
                continue
            if isinstance(p_, ast.keyword) and p_.arg == kwname:
                continue
            if isinstance(p_, ast.Compare) and all(isinstance(o, (ast.Is, ast.IsNot)) for o in p_.ops):
                continue            # rest is (not) None
            if isinstance(p_, (ast.List, ast.Tuple)) and len(p_.elts) == 1:
                continue            # [rest]
            if isinstance(p_, (ast.If, ast.IfExp, ast.BoolOp, ast.UnaryOp)) and not isinstance(getattr(p_, "op", None), (ast.USub, ast.Invert)):
                continue            # truth test / selection between the value and a default
            if isinstance(p_, ast.Call) and call_name(p_) in ("isinstance", "list", "tuple") and u in p_.args:
                continue
            if isinstance(p_, (ast.Assign, ast.Return)):
                continue            # plain rebinding / returning of the value itself
            bad.append(u)
        # every (re)binding of the variable is the parsed piece itself, wrapped in a list at most
        for a in assigns_to(fn, var):
            v = a.value if isinstance(a, ast.Assign) else None
            if v is None:
                bad.append(a)
                continue
            if isinstance(v, (ast.Name, ast.Tuple)):        # name, rest = x
                continue
            allowed = all(isinstance(x, (ast.Name, ast.List, ast.Tuple, ast.IfExp, ast.Compare, ast.Constant, ast.Load, ast.Store, ast.Is, ast.IsNot, ast.BoolOp, ast.Or, ast.And, ast.Not, ast.UnaryOp, ast.Subscript))
                          or (isinstance(x, ast.Call) and call_name(x) in ("list", "tuple")) for x in ast.walk(v))
            subs = [x for x in ast.walk(v) if isinstance(x, ast.Subscript)]
            if not allowed or any(not (isinstance(x.value, ast.Name) and x.value.id != var and isinstance(x.slice, ast.Constant)) for x in subs):
                bad.append(a)
        cx.require(not bad, bad[0] if bad else fn, "%s hands the parsed %s to %s(%s=...) without operating on it" % (fname, "value" if kwname == "attrs" else "children", ctor, kwname),
                   construct=short(stmt_of(bad[0]) if bad and not isinstance(bad[0], ast.stmt) else bad[0], 100) if bad else "%s -> %s(%s=%s)" % (fname, ctor, kwname, var))


PURE_HELPERS = ("keyword_search", "split_kv_pairs", "get_active_lines", "parse_fixed_table", "parse_delimited_table", "calc_offset", "optlist_to_dict", "unsplit_lines")


def r6_stateless_helpers(cx):
    """'returns exactly the rows / pairs / cells': the shared helpers are functions of their arguments.  A module-level table that one call fills and a
    later call reads (a translation cache shared between tables of the same layout, a remembered header) makes the answer depend on earlier calls."""
    cx.rule("C15.R6", "the shared text helpers keep no state between calls (no module-level table is written or consulted)", floor=5)
    m = cx.repo.module("insights.parsers")
    for q in PURE_HELPERS:
        if not m.has(q):
            continue
        fn = m.get(q)
        bad = []
        for f in feat.region(m, fn):
            local = set(params(f)) | set(t.id for a in ast.walk(f) for t in ast.walk(a) if isinstance(t, ast.Name) and isinstance(t.ctx, ast.Store))
            for x in ast.walk(f):
                tgt = None
                if isinstance(x, ast.Subscript) and isinstance(x.ctx, (ast.Store, ast.Del)):
                    tgt = x.value
                elif isinstance(x, ast.Call) and isinstance(x.func, ast.Attribute) and x.func.attr in feat.MUTATORS:
                    tgt = x.func.value
                elif isinstance(x, ast.Global):
                    bad.append(x)
                if isinstance(tgt, ast.Name) and tgt.id not in local and m.top.get(tgt.id) is not None:
                    bad.append(x)
        cx.require(not bad, bad[0] if bad else fn, "%s neither fills nor consults a module-level table" % q, construct=short(bad[0], 80) if bad else "def %s" % q)


def run(cx):
    cx.extra["explanation"] = ("C15: normalisation-before-lookup taint rule over every IniConfigFile accessor (option -> lower, section -> strip) against the builder's stored keys, "
                               "matcher table / conjunction rule of keyword_search, first-separator and comment rules, slicing/zip shape of the two table helpers.")
    cx.undecided = ["round-trip equality of rendered tables / key-value documents / INI documents for all geometries (value level)"]
    cx.guard(r1_ini_normalisation)
    cx.guard(r2_keyword_search)
    cx.guard(r3_kv_and_comments)
    cx.guard(r4_tables)
    cx.guard(r5_ini_value_passthrough)
    cx.guard(r6_stateless_helpers)
