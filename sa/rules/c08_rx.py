"""C08.R5 - the recogniser patterns accept the reference languages (regex constants interpreted, not run)."""
import ast

from ..model import AnalysisError, FUNC_TYPES, U, call_name, const_str, walk_body, short, literal
from ..rx import Regex, Unsupported, finite_language, template_parts

PRE = ["", " ", "=", "(", "/", ":", "'", "\t", ",", "-", "."]
POST = ["", " ", ")", "/", ":", "'", ",", ";", "-", "."]


def _attr_const(cx, mod, cls, attr):
    """The constant assigned to ``self.<attr>`` in <cls>.__init__ (string or list)."""
    fn = mod.func("%s.__init__" % cls, "C08.R5")
    for a in walk_body(fn.body):
        if isinstance(a, ast.Assign) and U(a.targets[0]) == "self.%s" % attr:
            try:
                return a, literal(cx.repo, a.value)
            except ValueError:
                # implicit concatenation of raw strings in parentheses is a Constant already; anything else is unknown
                raise AnalysisError("C08.R5", "%s.%s is not a literal" % (cls, attr))
    # a constant kept on the class instead (never assigned through self anywhere in the class)
    c = mod.cls(cls, "C08.R5")
    cd = [a for a in c.body if isinstance(a, ast.Assign) and len(a.targets) == 1 and U(a.targets[0]) == attr]
    writes = [x for x in ast.walk(c) if isinstance(x, ast.Attribute) and isinstance(x.ctx, (ast.Store, ast.Del)) and x.attr == attr]
    if len(cd) == 1 and not writes:
        try:
            return cd[0], literal(cx.repo, cd[0].value)
        except ValueError:
            raise AnalysisError("C08.R5", "%s.%s is not a literal" % (cls, attr))
    raise AnalysisError("C08.R5", "no assignment to self.%s in %s.__init__" % (attr, cls))


def _boundary_assertions_only(tree):
    """Look-arounds occur only as the first / last items of the top-level sequence and assert a single character (class)."""
    items = list(tree)
    def is_assert(it):
        return str(it[0]) in ("ASSERT", "ASSERT_NOT")
    def single_char(it):
        sub = list(it[1][1])
        return len(sub) == 1 and str(sub[0][0]) in ("IN", "LITERAL", "NOT_LITERAL", "CATEGORY")
    def contains_assert(x):
        if isinstance(x, (list, tuple)):
            return any(contains_assert(y) for y in x)
        if hasattr(x, "data"):
            return any(contains_assert(y) for y in x.data)
        return str(x) in ("ASSERT", "ASSERT_NOT")
    i, j = 0, len(items)
    while i < j and is_assert(items[i]):
        if not single_char(items[i]):
            return False
        i += 1
    while j > i and is_assert(items[j - 1]):
        if not single_char(items[j - 1]):
            return False
        j -= 1
    return not any(contains_assert(list(it[1:])) for it in items[i:j])


def _ipv4(cx, thorough):
    m = cx.repo.module("insights.cleaner.ip")
    node, pat = _attr_const(cx, m, "IPv4", "pattern")
    try:
        R = Regex(pat)
    except Unsupported as u:
        cx.unknown(node, "IPv4 pattern uses a construct the interpreter does not support: %s" % u)
        return
    except Exception as e:
        cx.bad(node, "IPv4 pattern is a valid regular expression", construct="%r" % e)
        return
    allowed = set(["LITERAL", "IN", "BRANCH", "SUBPATTERN", "MAX_REPEAT", "AT"])
    extra_ops = R.ops - allowed
    if extra_ops <= set(["ASSERT", "ASSERT_NOT", "NEGATE", "CATEGORY", "RANGE", "NOT_LITERAL"]) and _boundary_assertions_only(R.tree):
        extra_ops = set()      # a one-character look-around at either end is a delimiter rule: covered by the context enumeration, octets stay independent
    if extra_ops:
        cx.unknown(node, "IPv4 pattern uses %s: the octet-wise independence argument needs a pattern without inner look-around / back-references" % sorted(extra_ops))
        return
    fillers = ["45", "7", "123", "255", "0"] if thorough else ["45", "200"]
    pres = PRE if thorough else ["", " ", "=", "."]
    posts = POST if thorough else ["", " ", ":", "."]
    n = 0
    fails = []

    def probe(quad, a, b):
        line = a + quad + b
        mt = R.search(line)
        got = R.group_text(line, mt, 1) if mt else None
        if not (mt and mt[0] == len(a) and got == quad) and len(fails) < 5:
            fails.append((line, got))
        return 1

    def quad_with(k, v, f):
        octs = ["10", "0", "0", "0"] if f == "0" else [f] * 4
        octs[k] = str(v)
        return None if octs[0] == "0" else ".".join(octs)
    # (a) every octet value at every position with every neighbour filler, two plain contexts
    for k in range(4):
        for v in range(1 if k == 0 else 0, 256):
            for f in fillers:
                q = quad_with(k, v, f)
                if q is None:
                    continue
                for a, b in (("", ""), (" ", " ")):
                    n += probe(q, a, b)
    # (b) every delimiter context; only the first and the last octet are adjacent to the context
    for k in (0, 3):
        for v in range(1 if k == 0 else 0, 256):
            q = quad_with(k, v, fillers[0])
            for a in pres:
                for b in posts:
                    n += probe(q, a, b)
    if fails:
        for line, got in fails[:3]:
            cx.bad(node, "every canonical dotted quad delimited by non-word characters is found by IPv4.pattern as group 1 in full (here the first match is %r)" % (got,),
                   construct="line %r -> group1 %r" % (line, got))
    else:
        cx.ok(node, "every canonical dotted quad (each octet value 0-255 at each position, %d delimiter contexts, %d neighbour fillers: %d interpreted matches) is returned by findall as group 1 in full" % (len(pres) * len(posts), len(fillers), n),
              construct="IPv4.pattern over %d reference lines" % n)
    # loopback is matched (and then ignored by the ignore list, C08.R6)
    mt = R.search("ip 127.0.0.1 x")
    cx.require(mt is not None and R.group_text("ip 127.0.0.1 x", mt, 1) == "127.0.0.1", node, "loopback is recognised like any address (it is exempted only by the ignore list)", construct="127.0.0.1")
    cx.extra.setdefault("regex_matches_interpreted", 0)
    cx.extra["regex_matches_interpreted"] += n


def _mac(cx, thorough):
    m = cx.repo.module("insights.cleaner.mac")
    node, pat = _attr_const(cx, m, "Mac", "pattern")
    try:
        R = Regex(pat, ignorecase=True)     # parse_line uses re.findall(self.pattern, line, re.I)
    except Unsupported as u:
        cx.unknown(node, "MAC pattern uses a construct the interpreter does not support: %s" % u)
        return
    hexd = "0123456789abcdef"
    pres = ["", " ", "=", "(", "'", "\t", ","] if thorough else ["", " ", "="]
    posts = ["", " ", ")", "'", ",", ";", "."] if thorough else ["", " ", ","]
    fillers = ["0a", "ff", "9c"] if thorough else ["0a"]
    n = 0
    fails = []

    def probe(mac, a, b):
        line = a + mac + b
        mt = R.search(line)
        got = R.group_text(line, mt, 1) if mt else None
        if not (mt and got == mac) and len(fails) < 5:
            fails.append((line, got))
        return 1
    for sep in (":", "-"):
        for upper in (False, True):
            # (a) every pair value at every position, plain contexts
            for k in range(6):
                for x in hexd:
                    for y in hexd:
                        for f in fillers:
                            pairs = [f] * 6
                            pairs[k] = x + y
                            mac = sep.join(pairs)
                            mac = mac.upper() if upper else mac
                            for a, b in (("", ""), (" ", " ")):
                                n += probe(mac, a, b)
            # (b) every delimiter context; only the first and the last pair are adjacent to the context
            # (only the very first and the very last hex digit touch the look-behind / look-ahead)
            for k in (0, 5):
                for x in hexd:
                    pairs = [fillers[0]] * 6
                    pairs[k] = (x + "a") if k == 0 else ("a" + x)
                    mac = sep.join(pairs)
                    mac = mac.upper() if upper else mac
                    for a in pres:
                        for b in posts:
                            n += probe(mac, a, b)
    if fails:
        for line, got in fails[:3]:
            cx.bad(node, "every MAC address (six hex pairs, uniform ':' or '-', either case) delimited by characters outside [0-9a-fA-F:-] is found by Mac.pattern as group 1 in full", construct="line %r -> group1 %r" % (line, got))
    else:
        cx.ok(node, "every MAC address shape (each pair value at each position, both separators, both cases, %d contexts: %d interpreted matches) is returned as group 1 in full" % (len(pres) * len(posts), n), construct="Mac.pattern over %d reference lines" % n)
    node2, ign = _attr_const(cx, m, "Mac", "_ignore_list")
    try:
        lang = set()
        for p in ign:
            lang |= set(finite_language(p))
        cx.require(lang == set(["00:00:00:00:00:00", "ff:ff:ff:ff:ff:ff"]), node2, "the MAC ignore list denotes exactly the all-zero and the broadcast address", construct="language of _ignore_list = %s" % sorted(lang))
    except Unsupported as u:
        cx.unknown(node2, "cannot enumerate the language of the MAC ignore list: %s" % u)
    cx.extra["regex_matches_interpreted"] = cx.extra.get("regex_matches_interpreted", 0) + n


PW_SHAPES = ["{k}: {s}", "{k}:{s}", "{k} : {s}", "{k}={s}", "{k} = {s}", "{k}=\"{s}\"", "{k}: \"{s}\"", "{k} = \"{s}\"", "{k} {s}", "{k} --md5 {s}", "  {k}={s} trailing", "auth {k}: {s}"]
PW_KEYS = ["password", "password_file2", "rootpassword"[4:]]
PW_SECRETS = ["hunter2", "S3cr3t_1", "a/b+c=d", "!@#$%^&*()", "x"]


def _password(cx, thorough):
    m = cx.repo.module("insights.cleaner.password")
    v = m.top.get("DEFAULT_PASSWORD_REGEXS")
    try:
        pats = literal(cx.repo, v)
    except Exception:
        cx.unknown(v if v is not None else m.tree.body[0], "DEFAULT_PASSWORD_REGEXS is not a literal list")
        return
    fn = m.func("Password.parse_line", "C08.R5")
    from .. import feat
    subs = feat.sub_calls(fn.body)
    tmpl = const_str(feat.resolve_const(m, fn, subs[0][2])) if subs else None
    if tmpl is None:
        cx.unknown(fn, "no literal replacement template")
        return
    parts = template_parts(tmpl)
    try:
        RS = [Regex(p) for p in pats]
    except Unsupported as u:
        cx.unknown(v, "password pattern not supported: %s" % u)
        return

    def clean(line):
        # emulates Password.parse_line: try each expression, stop at the first that changes the line
        for R in RS:
            new = R.sub(parts, line)
            if new != line:
                return new
        return line
    n = 0
    fails = []
    for shape in PW_SHAPES:
        for k in PW_KEYS:
            for s in PW_SECRETS:
                line = shape.format(k=k, s=s)
                n += 1
                out = clean(line)
                if s in out.replace(k, ""):
                    fails.append((line, out))
    # the second expression targets 'password *** <secret>'; report (INFO) when the first expression shadows it
    for s in ("my secret phrase", "hunter2"):
        line = "password ***** {s}".format(s=s)
        out = clean(line)
        if s in out:
            cx.info(v, "INFO: on %r the first expression matches the asterisks as the secret, the line changes and the second expression (meant for this shape) is never tried: result %r. "
                       "Not claimed: the property statement only covers a secret that directly follows the key." % (line, out))
    if fails:
        for line, out in fails[:3]:
            cx.bad(v, "a secret following a 'password' key (optional suffix, ':' or '=' with optional quotes/spaces, or '***') is masked", construct="%r -> %r" % (line, out))
    else:
        cx.ok(v, "for %d key/separator/secret reference lines the substitution removes the secret (group 3 is never re-emitted)" % n, construct="DEFAULT_PASSWORD_REGEXS with template %r" % tmpl)
    cx.extra["regex_matches_interpreted"] = cx.extra.get("regex_matches_interpreted", 0) + n


def _hostname(cx, thorough):
    m = cx.repo.module("insights.cleaner.hostname")
    fn = m.func("Hostname.parse_line", "C08.R5")
    comp = [x for x in walk_body(fn.body) if isinstance(x, ast.Call) and call_name(x) == "re.compile"]
    tmpl = None
    if comp and isinstance(comp[0].args[0], ast.BinOp) and isinstance(comp[0].args[0].op, ast.Mod):
        tmpl = const_str(comp[0].args[0].left)
    if tmpl is None:
        cx.unknown(fn, "the per-domain pattern is not '<literal template>' % domain")
        return
    n = 0
    fails = []
    for dom in ("example.org", "corp.internal", "lab"):
        try:
            R = Regex(tmpl % dom)
        except Unsupported as u:
            cx.unknown(comp[0], "hostname pattern not supported: %s" % u)
            return
        for label in ("host1", "web-01", "db_2", "a", "node7.rack3", "x.y.z", "UPPER"):
            hn = "%s.%s" % (label, dom)
            for a in ("", " ", "=", "(", "@", "/", "'"):
                for b in ("", " ", ")", ":", "/", ",", "'"):
                    line = a + hn + b
                    n += 1
                    got = R.findall(line)
                    if hn not in got:
                        fails.append((line, got))
    if fails:
        for line, got in fails[:3]:
            cx.bad(comp[0], "another host in the system's domain (label(.label)*.<domain>) is found in full by the per-domain pattern", construct="%r -> %r" % (line, got))
    else:
        cx.ok(comp[0], "host names of the shape label(.label)*.<domain> are found in full (%d interpreted matches over 3 domains)" % n, construct="template %r" % tmpl)
    cx.extra["regex_matches_interpreted"] = cx.extra.get("regex_matches_interpreted", 0) + n


def r5_languages(cx):
    cx.rule("C08.R5", "recogniser patterns accept the reference languages (regex constants interpreted with Python's backtracking semantics)", floor=5)
    thorough = cx.tier == "thorough"
    for f in (_ipv4, _mac, _password, _hostname):
        try:
            f(cx, thorough)
        except AnalysisError as e:
            cx.error(e.reason, "C08.R5")
