"""C09 - obfuscation is a consistent, injective, reported mapping (structural clauses)."""
import ast

from ..model import (AnalysisError, FUNC_TYPES, U, call_attr, call_name, dotted, enclosing, enclosing_function, guard_texts, guards_ex,
                     short, walk_body, walk_local, ancestors, parent, const_str, kwarg, names_in)
from ..util import params, find_calls, assigns_to, trace, stmt_of, has_exit, syn_dominates

OBF = [
    {"mod": "insights.cleaner.ip", "cls": "IPv4", "db": "_ip_db", "fn": "_ip2db", "scan": True},
    {"mod": "insights.cleaner.ip", "cls": "IPv6", "db": "_ipv6_db", "fn": "_ip2db", "scan": False},
    {"mod": "insights.cleaner.mac", "cls": "Mac", "db": "_mac_db", "fn": "_mac2db", "scan": False},
    {"mod": "insights.cleaner.hostname", "cls": "Hostname", "db": "_hn_db", "fn": "_hn2db", "scan": True},
]
OBF_CLASSES = ("IPv4", "IPv6", "Hostname", "Mac", "Keyword", "Password", "Pattern")
MUT = ("clear", "pop", "popitem", "update", "setdefault")


def r1_lifetime(cx, mods):
    cx.rule("C09.R1", "one set of obfuscator databases per cleaner, one cleaner per collection run", floor=12)
    for m in mods:
        for n in ast.walk(m.tree):
            if not isinstance(n, ast.Call):
                continue
            nm = call_attr(n)
            if nm in ("IPv4", "IPv6", "Hostname", "Mac", "Keyword") and (isinstance(n.func, ast.Name) or "cleaner" in U(n.func)):
                # is it the cleaner's class? (parsers have e.g. a Hostname parser: resolve)
                r = cx.repo.resolve(n.func)
                if not (r[0] == "def" and r[1].name.startswith("insights.cleaner")):
                    continue
                fn = enclosing_function(n)
                q = getattr(fn, "_qual", "<module>")
                cx.require(m.name == "insights.cleaner" and q == "Cleaner.__init__" and enclosing(n, (ast.For, ast.While)) is None, n,
                           "obfuscator %s is instantiated only in Cleaner.__init__, once" % nm, construct="%s in %s:%s" % (short(n), m.name, q))
            if nm == "Cleaner":
                r = cx.repo.resolve(n.func)
                if not (r[0] == "def" and r[1].name == "insights.cleaner"):
                    continue
                fn = enclosing_function(n)
                q = getattr(fn, "_qual", "<module>")
                ok = (m.name, q) in (("insights.collect", "collect"), ("insights.client.connection", "InsightsConnection._legacy_upload_archive"),
                                     ("insights.client.connection", "InsightsConnection.upload_archive")) or m.name.startswith("insights.client")
                ok = ok and enclosing(n, (ast.For, ast.While)) is None
                cx.require(ok, n, "a Cleaner is constructed once per run by the collection entry points (not per spec, not in a loop)", construct="%s in %s:%s" % (short(n), m.name, q))
    # database attributes are bound only in __init__ and never emptied
    for o in OBF + [{"mod": "insights.cleaner.keyword", "cls": "Keyword", "db": "_kw_db"}, {"mod": "insights.cleaner.hostname", "cls": "Hostname", "db": "_dn_db"}]:
        m = cx.repo.module(o["mod"])
        c = m.cls(o["cls"], "C09.R1")
        attr = "self." + o["db"]
        binds = []
        for n in ast.walk(c):
            if isinstance(n, ast.Assign) and any(U(t) == attr for t in n.targets):
                binds.append(n)
            if isinstance(n, ast.Call) and isinstance(n.func, ast.Attribute) and n.func.attr in ("clear", "pop", "popitem") and U(n.func.value) in (attr, "db"):
                cx.bad(n, "%s never forgets an issued pair during its lifetime" % o["cls"])
            if isinstance(n, ast.Delete) and any(isinstance(t, ast.Subscript) and U(t.value) in (attr, "db") for t in n.targets):
                cx.bad(n, "%s never forgets an issued pair during its lifetime" % o["cls"])
        ok = len(binds) == 1 and getattr(enclosing_function(binds[0]), "name", "") == "__init__" and U(binds[0].value) in ("dict()", "{}")
        cx.require(ok, binds[0] if binds else c, "%s.%s is created empty in __init__ and never rebound" % (o["cls"], o["db"]), construct=short(binds[0]) if binds else "(no binding)")


def _insertion(fn, db_attr):
    """The statement ``<db>[K] = V`` in ``fn`` (db possibly through a local alias)."""
    aliases = set([db_attr])
    for a in walk_body(fn.body):
        if isinstance(a, ast.Assign) and U(a.value) == db_attr and isinstance(a.targets[0], ast.Name):
            aliases.add(a.targets[0].id)
    out = []
    for a in walk_body(fn.body):
        if isinstance(a, ast.Assign):
            for t in a.targets:
                if isinstance(t, ast.Subscript) and U(t.value) in aliases:
                    out.append((a, t.slice, a.value))
    return out, aliases


def _derives_from_param(e, fn, depth=0):
    p = params(fn)[1:]
    if isinstance(e, ast.BinOp) and isinstance(e.op, ast.Mod) and isinstance(e.left, ast.Constant) and isinstance(e.left.value, str):
        return False    # a formatted (generated) value
    if isinstance(e, ast.Name):
        ds = assigns_to(fn, e.id)
        if ds and all(isinstance(d, ast.Assign) and isinstance(d.value, ast.BinOp) and isinstance(d.value.op, ast.Mod) and isinstance(d.value.left, ast.Constant) for d in ds):
            return False
    ns = names_in(e)
    if ns & set(p):
        return True
    if depth > 3:
        return False
    for n in ns:
        for d in assigns_to(fn, n):
            if isinstance(d, ast.Assign) and _derives_from_param(d.value, fn, depth + 1) and not any(isinstance(c, ast.Call) and call_attr(c) in ("join", "format", "hexdigest") for c in ast.walk(d.value)):
                return True
    return False


def r2_r3_r4(cx):
    for o in OBF:
        m = cx.repo.module(o["mod"])
        c = m.cls(o["cls"])
        fn = m.func("%s.%s" % (o["cls"], o["fn"]))
        db_attr = "self." + o["db"]
        ins, aliases = _insertion(fn, db_attr)
        cx.rule("C09.R2", "a new pair is issued only after the whole table was searched for the original", floor=4)
        if len(ins) != 1:
            cx.bad(fn, "%s.%s inserts a new pair at exactly one site" % (o["cls"], o["fn"]), construct="%d insertion sites" % len(ins))
            continue
        st, K, V = ins[0]
        param = params(fn)[1]
        k_orig = _derives_from_param(K, fn) and not any(isinstance(c, ast.Call) for c in ast.walk(K) if call_attr(c) in ("join", "format"))
        v_orig = _derives_from_param(V, fn) and not any(isinstance(c, ast.Call) and call_attr(c) in ("join", "format") for c in ast.walk(V))
        if k_orig == v_orig:
            cx.unknown(st, "cannot tell which side of the inserted pair is the original")
            continue
        orig_side = "key" if k_orig else "value"
        if o["scan"]:
            # the scan may live in the function itself or in a look-up helper whose result the function tests
            scan_fn, via = fn, None
            loops = [s for s in walk_body(fn.body) if isinstance(s, ast.For) and call_attr(s.iter) == "items" and U(s.iter.func.value) in aliases | set([db_attr])]
            if not loops:
                for a in walk_body(fn.body):
                    if isinstance(a, ast.Assign) and isinstance(a.value, ast.Call) and U(a.value.func).startswith("self.") and isinstance(a.targets[0], ast.Name):
                        kc, h = cx.repo.lookup_method(c, a.value.func.attr)
                        if h is not None:
                            hl = [s for s in walk_body(h.body) if isinstance(s, ast.For) and call_attr(s.iter) == "items" and U(s.iter.func.value) in (db_attr, "db")]
                            if hl and a.value.args and _derives_from_param(a.value.args[0], fn):
                                scan_fn, via, loops = h, a, hl
            if not loops:
                cx.bad(fn, "%s.%s scans the table for the original before issuing" % (o["cls"], o["fn"]), construct="(no scan loop)")
                continue
            scan = loops[0]
            kv = [U(e) for e in scan.target.elts]
            ovar = kv[0] if orig_side == "key" else kv[1]
            svar = kv[1] if orig_side == "key" else kv[0]
            cmps = [x for x in walk_body(scan.body) if isinstance(x, ast.Compare) and isinstance(x.ops[0], ast.Eq)]
            ok = bool(cmps) and U(cmps[0].left) == ovar and _derives_from_param(cmps[0].comparators[0], scan_fn)
            cx.require(ok, cmps[0] if cmps else scan, "%s: the scan compares the *original* side of every entry with the looked-up original" % o["cls"],
                       construct=short(cmps[0]) if cmps else "(no comparison)")
            found_atom = (U(cmps[0]), True) if cmps else None
            early = [x for x in walk_body(scan.body) if isinstance(x, (ast.Continue, ast.Break, ast.Return)) and found_atom not in guard_texts(x, stop=scan)]
            cx.require(not early, early[0] if early else scan, "%s: no entry is skipped by the scan (a jump out of the scan is allowed only once the original was found)" % o["cls"],
                       construct=short(early[0]) + " guarded by %s" % sorted(guard_texts(early[0], stop=scan)) if early else "for %s in %s" % (U(scan.target), U(scan.iter)))
            # what the scan produces when it finds the original: an early return, a value variable, and/or a flag
            in_found = [n for n in walk_body(scan.body) if found_atom in guard_texts(n, stop=scan)]
            ret_in_loop = [n for n in in_found if isinstance(n, ast.Return)]
            flags = [a for a in in_found if isinstance(a, ast.Assign) and U(a.value) == "True"]
            flag = U(flags[0].targets[0]) if flags else None
            vals = [a for a in in_found if isinstance(a, ast.Assign) and isinstance(a.targets[0], ast.Name) and a.targets[0].id != flag]
            valvar = U(vals[0].targets[0]) if vals else None
            found_value = ret_in_loop[0].value if ret_in_loop else (vals[0].value if vals else None)
            g = set(guard_texts(st))
            if via is not None:
                res = U(via.targets[0])
                notfound = ("%s is None" % res, True) in g or (res, False) in g
                helper_ok = bool(ret_in_loop) or valvar is not None
                guard_ok = notfound and helper_ok and syn_dominates(via, st)
            elif ret_in_loop:
                guard_ok = syn_dominates(scan, st) or any(syn_dominates(scan, a) for a in [st] + list(ancestors(st)) if isinstance(a, ast.stmt))
            else:
                guard_ok = ((flag is not None and (flag, False) in g) or (valvar is not None and (("%s is None" % valvar, True) in g or (valvar, False) in g))) and \
                    (syn_dominates(scan, st) or any(syn_dominates(scan, a) for a in ancestors(st) if isinstance(a, ast.stmt)))
            cx.require(guard_ok, st, "%s: the insertion is reached only when the scan of the whole table found nothing" % o["cls"],
                       construct="%s guarded by %s" % (short(st), sorted(g)))
            cx.rule("C09.R4", "roles (original, substitute) agree between issue, reuse, substitution and the reported mapping", floor=10)
            ok = found_value is not None and svar in names_in(found_value) and ovar not in names_in(found_value)
            cx.require(ok, found_value if found_value is not None else scan, "%s: a known original is answered with the substitute side of its entry" % o["cls"], construct=short(found_value) if found_value is not None else "(none)")
            if not ret_in_loop and via is None:
                rets = [r for r in walk_body(fn.body) if isinstance(r, ast.Return)]
                found_ret = [r for r in rets if (flag and (flag, True) in guard_texts(r)) or (valvar and (("%s is None" % valvar, False) in guard_texts(r) or (valvar, True) in guard_texts(r)))]
                cx.require(bool(found_ret) and valvar is not None and U(found_ret[0].value) == valvar, found_ret[0] if found_ret else fn,
                           "%s: the found substitute is returned" % o["cls"], construct=short(found_ret[0]) if found_ret else "(none)")
            elif via is not None:
                res = U(via.targets[0])
                rets = [r for r in walk_body(fn.body) if isinstance(r, ast.Return) and (("%s is None" % res, False) in guard_texts(r) or (res, True) in guard_texts(r))]
                cx.require(bool(rets) and U(rets[0].value) == res, rets[0] if rets else fn, "%s: the found substitute is returned" % o["cls"], construct=short(rets[0]) if rets else "(none)")
            else:
                cx.ok(ret_in_loop[0], "%s: the found substitute is returned straight from the scan" % o["cls"], construct=short(ret_in_loop[0]))
        else:
            g = set(guard_texts(st))
            k = U(K)
            want1 = ("%s in %s" % (k, db_attr), False)
            want2 = ("%s in %s.values()" % (k, db_attr), False)
            cx.require(want1 in g, st, "%s: the insertion is reached only when the original is not yet a key of the table" % o["cls"], construct="%s guarded by %s" % (short(st), sorted(g)))
            cx.require(want2 in g, st, "%s: an already issued substitute is never obfuscated again (guard on the table's values)" % o["cls"], construct="%s guarded by %s" % (short(st), sorted(g)))
            rets = [r for r in walk_body(fn.body) if isinstance(r, ast.Return) and ("%s in %s" % (k, db_attr), True) in guard_texts(r)]
            cx.rule("C09.R4", "roles (original, substitute) agree between issue, reuse, substitution and the reported mapping", floor=10)
            cx.require(bool(rets) and U(rets[0].value) == "%s[%s]" % (db_attr, k), rets[0] if rets else fn, "%s: a known original is answered with its stored substitute" % o["cls"],
                       construct=short(rets[0]) if rets else "(none)")
        # R3 fresh keys
        cx.rule("C09.R3", "a newly issued substitute differs from every substitute issued before", floor=2)
        if o["cls"] == "IPv4":
            nd = assigns_to(fn, U(K))
            texts = sorted(U(a.value) for a in nd)
            ok = len(nd) == 2 and any(t in ("max(db.keys()) + 1", "max(%s.keys()) + 1" % db_attr, "max(db) + 1") for t in texts) and any("self._start_ip" in t for t in texts)
            if ok:
                mx = [a for a in nd if "max(" in U(a.value)][0]
                ok = any(t in ("len(%s)" % db_attr, "len(db)", "db", db_attr) and p for t, p in guard_texts(mx)) or ("len(%s) > 0" % db_attr, True) in guard_texts(mx)
                inc = mx.value
                ok = ok and isinstance(inc, ast.BinOp) and isinstance(inc.op, ast.Add) and isinstance(inc.right, ast.Constant) and isinstance(inc.right.value, int) and inc.right.value > 0
            cx.require(ok, nd[0] if nd else fn, "IPv4: the new key is max(existing keys) + k with k > 0 (start constant when the table is empty), hence unused",
                       construct=" | ".join(texts))
        if o["cls"] == "Hostname":
            inc = [a for a in walk_body(fn.body) if isinstance(a, ast.AugAssign) and U(a.target) == "self._hostname_count" and isinstance(a.op, ast.Add)]
            nd = assigns_to(fn, U(K))
            ok = len(inc) == 1 and len(nd) == 1 and "self._hostname_count" in U(nd[0].value) and syn_dominates(inc[0], nd[0]) and \
                set(guard_texts(inc[0])) == set(guard_texts(nd[0])) == set(guard_texts(st))
            cx.require(ok, nd[0] if nd else fn, "Hostname: the counter is incremented on the issuing path before the new name is formatted from it",
                       construct="%s ; %s" % (short(inc[0]) if inc else "?", short(nd[0]) if nd else "?"))
            # nobody else decrements / resets the counter
            cls_writes = [n for n in ast.walk(c) if (isinstance(n, ast.AugAssign) and U(n.target) == "self._hostname_count" and not isinstance(n.op, ast.Add)) or
                          (isinstance(n, ast.Assign) and any(U(t) == "self._hostname_count" for t in n.targets) and getattr(enclosing_function(n), "name", "") != "__init__")]
            cx.require(not cls_writes, cls_writes[0] if cls_writes else c, "Hostname: the counter only grows", construct=short(cls_writes[0]) if cls_writes else "no reset of _hostname_count")
        # R4 mapping roles
        cx.rule("C09.R4", "roles (original, substitute) agree between issue, reuse, substitution and the reported mapping", floor=10)
        mp = m.func("%s.mapping" % o["cls"], "C09.R4")
        loops = [s for s in walk_body(mp.body) if isinstance(s, ast.For)]
        dicts = [d for d in walk_body(mp.body) if isinstance(d, ast.Dict)]
        comps = [x for x in walk_body(mp.body) if isinstance(x, (ast.ListComp, ast.GeneratorExp)) and isinstance(x.elt, ast.Dict)]
        if not dicts or not (loops or comps):
            cx.unknown(mp, "mapping() does not build {'original':..., 'obfuscated':...} per table entry")
            continue
        if comps:
            gen = comps[0].generators[0]
            it, tgt = gen.iter, gen.target
            complete = len(comps[0].generators) == 1 and not gen.ifs
            lp = comps[0]
        else:
            lp = loops[0]
            it, tgt = lp.iter, lp.target
            complete = not has_exit(lp.body) and not [g for g in guard_texts(dicts[0], stop=lp)]
        cx.require(U(it) == "%s.items()" % db_attr and complete, lp,
                   "%s.mapping() lists every entry of the table the substitution uses" % o["cls"], construct="for %s in %s" % (U(tgt), U(it)))
        kv = [U(e) for e in tgt.elts]
        d = dict((const_str(k), v) for k, v in zip(dicts[0].keys, dicts[0].values))
        ovar = kv[0] if orig_side == "key" else kv[1]
        svar = kv[1] if orig_side == "key" else kv[0]
        ok = set(d) == set(["original", "obfuscated"]) and ovar in names_in(d["original"]) and svar not in names_in(d["original"]) and \
            svar in names_in(d["obfuscated"]) and ovar not in names_in(d["obfuscated"])
        cx.require(ok, dicts[0], "%s.mapping(): 'original' is the %s of an entry and 'obfuscated' the other side, as at the insertion site" % (o["cls"], orig_side),
                   construct="%s  (insertion: %s)" % (short(dicts[0]), short(st)))
        # generate_report uses the same table
        gr = m.func("%s.generate_report" % o["cls"], "C09.R4")
        lps = [s for s in walk_body(gr.body) if isinstance(s, ast.For)]
        via_mapping = bool(lps) and U(lps[0].iter) == "self.mapping()" and isinstance(lps[0].target, ast.Name) and not has_exit(lps[0].body)
        cx.require(bool(lps) and (U(lps[0].iter) == "%s.items()" % db_attr or via_mapping), lps[0] if lps else gr, "%s.generate_report() lists the same table" % o["cls"],
                   construct="for %s in %s" % (U(lps[0].target), U(lps[0].iter)) if lps else "(no loop)")
        if via_mapping:
            # rows are taken from mapping() (whose roles were checked above): the column order must still match the header
            fm = [x for x in find_calls(lps[0].body, attr="format")]
            hdr = [const_str(e) for e in ast.walk(gr) if isinstance(e, ast.Constant) and isinstance(e.value, str) and e.value.startswith("Obfuscated ")]
            ev_ = U(lps[0].target)
            ok = bool(fm) and bool(hdr) and [U(a) for a in fm[0].args] == ["%s['obfuscated']" % ev_, "%s['original']" % ev_] and hdr[0].split(",")[1].startswith("Original") \
                and not guard_texts(fm[0], stop=lps[0])
            cx.require(ok, fm[0] if fm else lps[0], "%s report rows are (obfuscated, original) of every mapping() entry under the header '%s'" % (o["cls"], hdr[0] if hdr else "?"))
        elif lps:
            fm = [x for x in find_calls(lps[0].body, attr="format")]
            hdr = [const_str(e) for e in ast.walk(gr) if isinstance(e, ast.Constant) and isinstance(e.value, str) and e.value.startswith("Obfuscated ")]
            if fm and hdr:
                kv2 = [U(e) for e in lps[0].target.elts]
                o2 = kv2[0] if orig_side == "key" else kv2[1]
                s2 = kv2[1] if orig_side == "key" else kv2[0]
                ok = len(fm[0].args) == 2 and s2 in names_in(fm[0].args[0]) and o2 in names_in(fm[0].args[1]) and hdr[0].split(",")[1].startswith("Original")
                cx.require(ok, fm[0], "%s report rows are (obfuscated, original) under the header '%s'" % (o["cls"], hdr[0]))


def r4_keyword(cx):
    cx.rule("C09.R4", "roles (original, substitute) agree between issue, reuse, substitution and the reported mapping", floor=10)
    m = cx.repo.module("insights.cleaner.keyword")
    pl = m.func("Keyword.parse_line", "C09.R4")
    adds = [x for x in find_calls(pl.body, attr="add") if U(x.func.value) == "self._obfuscated"]
    lp = [s for s in pl.body if isinstance(s, ast.For)]
    ok = len(adds) == 1 and bool(lp) and set(guard_texts(adds[0], stop=lp[0])) == set([("%s in line" % U(adds[0].args[0]), True)])
    cx.require(ok, adds[0] if adds else pl, "a keyword is marked as replaced only when it occurred in a line", construct=short(adds[0]) if adds else "(none)")
    mp = m.func("Keyword.mapping", "C09.R4")
    lps = [s for s in walk_body(mp.body) if isinstance(s, ast.For)]
    dicts = [d for d in walk_body(mp.body) if isinstance(d, ast.Dict)]
    comps = [x for x in walk_body(mp.body) if isinstance(x, (ast.ListComp, ast.GeneratorExp)) and isinstance(x.elt, ast.Dict)]
    if comps:
        it, tgt = comps[0].generators[0].iter, comps[0].generators[0].target
        ok = bool(dicts) and U(it) == "self._obfuscated" and not comps[0].generators[0].ifs
    else:
        it, tgt = (lps[0].iter, lps[0].target) if lps else (None, None)
        ok = bool(lps) and bool(dicts) and U(it) == "self._obfuscated"
    if ok:
        k = U(tgt)
        d = dict((const_str(kk), U(v)) for kk, v in zip(dicts[0].keys, dicts[0].values))
        ok = d == {"original": k, "obfuscated": "self._kw_db[%s]" % k}
    cx.require(ok, dicts[0] if dicts else mp, "Keyword.mapping() lists exactly the keywords that occurred, each with the substitute stored for it",
               construct=short(dicts[0]) if dicts else "(none)")
    rp = [x for x in find_calls(pl.body, attr="replace")]
    lpv = [U(e) for e in lp[0].target.elts] if lp else []
    ok = bool(rp) and U(lp[0].iter) == "self._kw_db.items()" and [U(a) for a in rp[0].args] == lpv
    cx.require(ok, rp[0] if rp else pl, "the substitute written into the line is the one stored in the table that mapping() reads", construct=short(rp[0]) if rp else "(none)")
    db = m.func("Keyword._keywords2db", "C09.R4")
    st = [a for a in walk_body(db.body) if isinstance(a, ast.Assign) and U(a.targets[0]).startswith("self._kw_db[")]
    cnt = [a for a in walk_body(db.body) if isinstance(a, ast.AugAssign) and U(a.target) == "k_count"]
    lpk = enclosing(st[0], ast.For) if st else None
    if cnt:
        ok = bool(st) and "k_count" in U(trace(st[0].value, db)) and enclosing(cnt[0], ast.For) is lpk and not guard_texts(cnt[0], stop=lpk)
    else:
        # for <counter>, keyword in enumerate(keywords)
        ok = bool(st) and lpk is not None and isinstance(lpk.iter, ast.Call) and call_name(lpk.iter) == "enumerate" and isinstance(lpk.target, ast.Tuple) and \
            U(lpk.target.elts[0]) in names_in(trace(st[0].value, db))
    cx.require(ok, st[0] if st else db, "each keyword gets its own numbered substitute (counter advanced once per keyword)", construct=short(st[0]) if st else "(none)")


def r4_substitution_uses_lookup(cx):
    cx.rule("C09.R4", "roles (original, substitute) agree between issue, reuse, substitution and the reported mapping", floor=10)
    for o in OBF:
        m = cx.repo.module(o["mod"])
        pl = m.func("%s.parse_line" % o["cls"], "C09.R4")
        reps = [x for x in ast.walk(pl) if isinstance(x, ast.Call) and call_attr(x) == "replace" and len(x.args) >= 2]
        ok_any = False
        for x in reps:
            fn = enclosing_function(x)
            old, new = x.args[0], x.args[1]
            src = trace(new, fn)
            if isinstance(src, ast.Call) and U(src.func) == "self.%s" % o["fn"]:
                arg = U(src.args[0])
                if o["cls"] == "Hostname" and U(old) == "self._hostname":
                    ok = arg == "self._fqdn"
                    cx.require(ok, x, "Hostname: the short name is replaced by the substitute issued for the system's own FQDN")
                else:
                    ok = arg == U(old)
                    cx.require(ok, x, "%s: the text replaced is exactly the original that was looked up (substitute = %s(original))" % (o["cls"], o["fn"]))
                ok_any = ok_any or ok
        if not ok_any:
            cx.bad(pl, "%s.parse_line replaces each recognised original by %s(original)" % (o["cls"], o["fn"]), construct="(no line.replace(x, self.%s(x)))" % o["fn"])


def run(cx):
    repo = cx.repo
    cx.extra["explanation"] = ("C09: who-constructs obfuscators / cleaners, append-only databases, lookup-before-issue guards, fresh-key construction, and role agreement "
                               "(which side of a table entry is the original) between insertion, reuse, substitution, mapping() and the CSV report.")
    cx.undecided = ["injectivity/consistency over whole histories with textual collisions (a substitute equal to a later original)", "MAC/IPv6 hash-prefix collisions",
                    "INFO: Keyword report rows are (original, substitute) under the header 'Replaced Keyword,Original Keyword' (ambiguous wording, not claimed)"]
    names = ["insights.cleaner", "insights.cleaner.ip", "insights.cleaner.mac", "insights.cleaner.hostname", "insights.cleaner.keyword", "insights.collect", "insights.client.connection"]
    anchor = [repo.module(n) for n in names]
    mods = repo.all_modules() if cx.tier == "thorough" else anchor
    cx.guard(r1_lifetime, mods)
    cx.guard(r2_r3_r4)
    cx.guard(r4_keyword)
    cx.guard(r4_substitution_uses_lookup)
    # necessary conditions shared with C08/C10: "every occurrence gets the same substitute" needs the substitution to cover every occurrence
    # on the line (C08.R6), and "the mapping pairs originals that occurred" needs each obfuscator to see the text before a later stage
    # (keyword replacement) rewrites it, i.e. the fixed stage order (C10.R1)
    from . import c08, c10
    cx.borrow(c08.r6_global_substitution, "C08.R6", "C09.R5", "every occurrence of a recognised original on a line is replaced (C08.R6), in the fixed stage order (C10.R1)")
    cx.borrow(c08.r7_stage_failure_propagates, "C08.R7", "C09.R5", "every occurrence of a recognised original on a line is replaced (C08.R6), in the fixed stage order (C10.R1)")
    cx.borrow(c10.r1_hash_free, "C10.R1", "C09.R5", "every occurrence of a recognised original on a line is replaced (C08.R6), in the fixed stage order (C10.R1)")
