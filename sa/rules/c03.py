"""C03 - a failing component affects only its dependents and is always accounted for."""
import ast
import builtins

from ..model import (AnalysisError, FUNC_TYPES, U, call_attr, call_name, dotted, enclosing, enclosing_function, guard_texts,
                     short, walk_body, walk_local, ancestors, local_names, parent)
from ..cfg import CFG, handler_names, is_catch_all
from ..util import params, find_calls, assigns_to, trace, stmt_of, has_exit
from .c01 import main_loop, delegate_process_calls, _is_component_type

DR = "insights.core.dr"
PL = "insights.core.plugins"
EXC = "insights.core.exceptions"

# calls that cannot raise in practice, allowed inside the engine's own handlers / finally
BENIGN = set([
    "log.debug", "log.info", "log.warning", "log.warn", "log.error", "log.exception", "log.isEnabledFor",
    "traceback.format_exc", "time.time", "sys.exc_info", "str", "repr", "len", "list", "tuple", "sorted", "isinstance", "issubclass", "getattr",
    "get_name", "dr.get_name", "stringify_requirements", "dr.stringify_requirements",
    "get_registry_points", "dr.get_registry_points", "get_component_type",
    "BLACKLISTED_SPECS.append", "BLACKLISTED_SPECS.extend",
])
BENIGN_ATTRS = set(["add_exception", "fire_observers", "split", "rsplit", "partition", "rpartition", "join", "format", "items", "get", "alarm"])


def exc_table(repo):
    """name -> set of ancestor names (repo exceptions + builtins)."""
    tbl = {}
    for n in dir(builtins):
        o = getattr(builtins, n)
        if isinstance(o, type) and issubclass(o, BaseException):
            tbl[n] = set(c.__name__ for c in o.__mro__[1:])
    m = repo.module(EXC)
    pending = dict((q, c) for q, c in m.classes())
    for _ in range(6):
        for q, c in pending.items():
            anc = set()
            for b in c.bases:
                bn = U(b).split(".")[-1]
                anc.add(bn)
                anc |= tbl.get(bn, set())
            tbl[q] = anc
    tbl.setdefault("CalledProcessError", set(["Exception", "BaseException", "object"]))
    return tbl


def is_benign_call(c):
    n = call_name(c)
    if n in BENIGN:
        return True
    if isinstance(c.func, ast.Attribute) and c.func.attr in BENIGN_ATTRS:
        return True
    return False


def reraises(handler):
    for n in walk_body(handler.body):
        if isinstance(n, ast.Raise):
            # a raise caught by an inner try inside the handler does not escape; keep simple: any raise counts
            return n
    return None


def r1_no_escape(cx):
    cx.rule("C03.R1", "nothing escapes the execution loop or the observer loop", floor=8)
    m = cx.repo.module(DR)
    fn = m.func("run_components", "C03.R1")
    loop, comp, comps, broker = main_loop(cx, fn)
    tries = [s for s in loop.body if isinstance(s, ast.Try)]
    if len(tries) != 1:
        cx.bad(loop, "the loop body is one try statement (plus the timing assignment)", construct="%d try statements in the loop body" % len(tries))
        return
    tr = tries[0]
    for s in loop.body:
        if s is tr:
            continue
        calls = find_calls(s)
        ok = isinstance(s, (ast.Assign, ast.Expr)) and all(is_benign_call(c) for c in calls) and not any(isinstance(x, ast.Subscript) for x in walk_local(s))
        cx.require(ok, s, "a statement of the loop body outside the try cannot raise (only benign calls)")
    calls, _ = delegate_process_calls(loop, comp)
    for c in calls:
        cx.require(any(a is tr for a in ancestors(c)) and any(stmt_of(c) is x or any(stmt_of(c) is y for y in ast.walk(x)) for x in tr.body), c,
                   "the execution call is inside the try body")
    # the guard test itself is inside the try (membership tests call __contains__/__hash__ of user components)
    if not tr.handlers:
        cx.bad(tr, "the try has handlers", construct="try without except")
        return
    last = tr.handlers[-1]
    cx.require(is_catch_all(last), last, "the last handler catches Exception (every failure of a component is contained)",
               construct="except %s" % (U(last.type) if last.type is not None else ""))
    names = [handler_names(h) for h in tr.handlers]
    flat = [n for ns in names for n in ns]
    cx.require("MissingRequirements" in flat and flat.index("MissingRequirements") < len(flat) - 1, tr,
               "a MissingRequirements arm precedes the catch-all (a missing dependency is never recorded as a failure)", construct="handlers: %s" % flat)
    cx.require("SkipComponent" in flat and flat.index("SkipComponent") < len(flat) - 1, tr,
               "a SkipComponent arm precedes the catch-all (a deliberate skip is never recorded as a failure)", construct="handlers: %s" % flat)
    for h in tr.handlers:
        r = reraises(h)
        cx.require(r is None, r if r is not None else h, "handler '%s' does not raise" % ",".join(handler_names(h)),
                   construct=short(r) if r is not None else "except %s" % ",".join(handler_names(h)))
        for c in find_calls(h.body):
            if is_benign_call(c):
                cx.ok(c, "call inside a handler is in the benign table (cannot raise past the loop)")
            else:
                cx.unknown(c, "call inside an exception handler of run_components is not in the benign-call table; cannot prove that nothing escapes")
    if not tr.finalbody:
        cx.bad(tr, "observers are fired in a finally block (once per attempted component, whatever happened)", construct="try without finally")
    else:
        fo = [c for c in find_calls(tr.finalbody, attr="fire_observers")]
        cx.require(len(fo) == 1 and U(fo[0].func.value) == broker and U(fo[0].args[0]) == comp and not guard_texts(fo[0], stop=tr), tr,
                   "finally fires the observers exactly once for the loop's component, unconditionally",
                   construct=short(fo[0]) if fo else "finally without fire_observers")
        allfo = [c for c in ast.walk(loop) if isinstance(c, ast.Call) and call_attr(c) == "fire_observers"]
        cx.require(len(allfo) == 1, allfo[-1] if allfo else tr, "observers are fired exactly once per attempted component (only in finally)",
                   construct="%d fire_observers calls in the execution loop" % len(allfo))
        for c in find_calls(tr.finalbody):
            if not is_benign_call(c):
                cx.unknown(c, "call inside finally of run_components is not in the benign-call table")
        for n in walk_body(tr.finalbody):
            if isinstance(n, (ast.Raise, ast.Return, ast.Break, ast.Continue)):
                cx.bad(n, "finally neither raises nor jumps")
    # fire_observers swallows observer failures
    fo = m.func("Broker.fire_observers", "C03.R1")
    ocalls = []
    for c in find_calls(fo.body):
        if isinstance(c.func, ast.Name) and c.func.id in _loop_vars(fo) and len(c.args) == 2:
            ocalls.append(c)
    if not ocalls:
        cx.bad(fo, "fire_observers calls each observer", construct="(no observer call found)")
    for c in ocalls:
        t = enclosing(c, ast.Try)
        ok = t is not None and any(is_catch_all(h) and reraises(h) is None for h in t.handlers) and any(stmt_of(c) is s for s in t.body)
        cx.require(ok, c, "each observer call is inside a try whose catch-all handler does not re-raise")
        if ok:
            h = [h for h in t.handlers if is_catch_all(h)][0]
            for cc in find_calls(h.body):
                if not is_benign_call(cc):
                    cx.unknown(cc, "call inside the observer handler is not in the benign-call table")
                # an observer is an arbitrary callable (functools.partial, an object with __call__): asking for its name can itself raise,
                # and an exception raised inside the handler escapes through the 'finally' of the execution loop
                if (call_name(cc) or "").split(".")[-1] in ("get_name", "get_simple_name") and cc.args and U(cc.args[0]) == U(c.func):
                    cx.bad(cc, "the observer handler does nothing that can raise: it does not inspect the observer object (get_name(<observer>) fails for a callable without __name__)",
                           construct=short(stmt_of(cc), 110))
    for c in find_calls(fo.body):
        if c in ocalls or enclosing(c, ast.Try) is not None:
            continue
        if not is_benign_call(c):
            cx.unknown(c, "call in fire_observers outside the protected region is not in the benign-call table")
    for n in walk_body(fo.body):
        if isinstance(n, ast.Raise):
            cx.bad(n, "fire_observers never raises")


def _loop_vars(fn):
    out = set()
    for n in walk_body(fn.body):
        if isinstance(n, ast.For):
            for t in ast.walk(n.target):
                if isinstance(t, ast.Name):
                    out.add(t.id)
    return out


def r2_ladder(cx, mods, anchor_names):
    cx.rule("C03.R2", "no except arm is shadowed by an earlier arm for a superclass", floor=10)
    tbl = exc_table(cx.repo)
    for m in mods:
        for n in ast.walk(m.tree):
            if not isinstance(n, ast.Try):
                continue
            seen = []
            for h in n.handlers:
                hn = handler_names(h)
                shadow = None
                for name in hn:
                    for prev in seen:
                        if prev == name or prev in tbl.get(name, ()):
                            shadow = (name, prev)
                if shadow and len(hn) == 1:
                    if m.name in anchor_names:
                        cx.bad(h, "handler for %s is unreachable: an earlier arm catches its superclass %s" % shadow,
                               construct="except %s after except %s" % shadow)
                    else:
                        cx.info(h, "G2: handler for %s shadowed by earlier %s" % shadow)
                elif m.name in anchor_names:
                    cx.ok(h, "handler is not shadowed by an earlier arm", construct="except %s (after %s)" % (",".join(hn), ",".join(seen) or "-"))
                seen.extend(hn)


def add_exception_sites(mods):
    out = []
    for m in mods:
        for n in ast.walk(m.tree):
            if isinstance(n, ast.Call) and call_attr(n) == "add_exception" and isinstance(n.func, ast.Attribute):
                out.append((m, n))
    return out


def _comp_plus_points(it, comp_text):
    """[<comp>] + list(get_registry_points(<comp>)): the component itself first, then each of its registry points."""
    if isinstance(it, ast.BinOp) and isinstance(it.op, ast.Add) and U(it.left) == "[%s]" % comp_text:
        r = it.right
        if isinstance(r, ast.Call) and call_name(r) in ("list", "sorted", "tuple") and r.args:
            r = r.args[0]
        return isinstance(r, ast.Call) and call_attr(r) == "get_registry_points" and bool(r.args) and U(r.args[0]) == comp_text
    return False


def _registry_loop(node, comp_text):
    """The enclosing ``for v in get_registry_points(<comp>) [or [<comp>]]`` loop, if any."""
    for a in ancestors(node):
        if isinstance(a, ast.For):
            it = a.iter
            base = it
            if isinstance(it, ast.BoolOp) and isinstance(it.op, ast.Or):
                base = it.values[0]
            if isinstance(base, ast.Call) and call_attr(base) == "get_registry_points" and base.args and U(base.args[0]) == comp_text:
                return a
            if _comp_plus_points(it, comp_text):
                return a
        if isinstance(a, FUNC_TYPES):
            break
    return None


def r3_attribution(cx, sites):
    cx.rule("C03.R3", "every add_exception records against the failing component or a registry point of it", floor=17)
    for m, c in sites:
        if not c.args:
            cx.unknown(c, "add_exception without positional component")
            continue
        t = c.args[0]
        tt = U(t)
        fn = enclosing_function(c)
        q = getattr(fn, "_qual", "<module>")
        cls = enclosing(c, ast.ClassDef)
        if m.name == DR and q == "run_components":
            loop, comp, comps, broker = main_loop(cx, fn)
            rl = _registry_loop(c, comp)
            ok = tt == comp or (rl is not None and tt == U(rl.target))
            cx.require(ok, c, "in run_components the failure is recorded against the loop's component or one of its registry points")
        elif cls is not None and _is_component_type(cx.repo, cls):
            rl = _registry_loop(c, "self.component")
            ok = tt == "self.component" or (rl is not None and tt == U(rl.target))
            if not ok:
                r = cx.repo.resolve(t)
                what = "a module-level %s" % ("class" if r[0] == "def" and isinstance(r[3], ast.ClassDef) else "binding") if r[0] in ("def", "const", "module") else "another value"
                cx.bad(c, "inside %s the failure must be recorded against self.component (or a registry point of it); '%s' is %s" % (q, tt, what))
            else:
                cx.ok(c, "recorded against self.component or a registry point of self.component")
        elif m.name == "insights.core.serde" and q.startswith("marshal"):
            outer = m.func("marshal", "C03.R3")
            p0 = params(outer)[0]
            part = [x for x in find_calls(outer.body, name=("partial", "functools.partial")) if x.args and U(x.args[0]) == fn.name]
            ok = tt in params(fn) and len(part) == 1 and len(part[0].args) >= 2 and U(part[0].args[1]) == p0 and params(fn).index(tt) == 0
            cx.require(ok, c, "marshal records a serialisation failure against the component being marshalled")
        else:
            cx.unknown(c, "add_exception call site outside the engine (run_components, ComponentType.invoke/process, serde.marshal): attribution cannot be classified")


def _handler_of(node):
    return enclosing(node, ast.ExceptHandler)


def r4_record_before_skip(cx, mods):
    cx.rule("C03.R4", "every error arm that turns into a skip records the exception at least once on every path", floor=8)

    def nonempty(it):
        if isinstance(it, ast.BoolOp) and isinstance(it.op, ast.Or):
            last = it.values[-1]
            return isinstance(last, (ast.List, ast.Tuple)) and len(last.elts) > 0
        return isinstance(it, (ast.List, ast.Tuple)) and len(it.elts) > 0
    for m in mods:
        for q, c in m.classes():
            if not _is_component_type(cx.repo, c):
                continue
            for fn in c.body:
                if not (isinstance(fn, FUNC_TYPES) and fn.name in ("invoke", "process")):
                    continue
                cfg = None
                for h in [n for n in walk_body(fn.body) if isinstance(n, ast.ExceptHandler)]:
                    hn = handler_names(h)
                    if hn == ["SkipComponent"]:
                        continue    # deliberate skip: R6
                    sinks = []
                    for n in walk_body(h.body):
                        if isinstance(n, ast.Raise) and n.exc is not None and "SkipComponent" in U(n.exc):
                            sinks.append(n)
                        if isinstance(n, ast.Assign) and U(n.value) == "True" and any(U(t) == "exception" for t in n.targets):
                            sinks.append(n)
                    if not sinks:
                        # an error arm that neither skips nor flags: must still record (continue_on_error arms)
                        recs = find_calls(h.body, attr="add_exception")
                        if recs:
                            cx.ok(h, "error arm records the exception", construct="except %s in %s" % (",".join(hn), q + "." + fn.name))
                        continue
                    if cfg is None:
                        cfg = CFG(fn, nonempty_iter=nonempty)
                    hnode = cfg.node(h)
                    recs = set(cfg.stmt_node_containing(x) for x in find_calls(h.body, attr="add_exception"))
                    recs.discard(None)
                    for s in sinks:
                        snode = cfg.node(s)
                        ok = bool(recs) and cfg.must_pass(hnode, snode, recs)
                        path = None
                        if not ok:
                            path = "except %s -> %s without executing add_exception (%s)" % (
                                ",".join(hn), short(s), "loop over a possibly empty collection" if recs else "no add_exception in the arm")
                        if ok:
                            cx.ok(s, "every path from 'except %s' to the skip executes add_exception at least once" % ",".join(hn),
                                  construct="except %s: ... %s" % (",".join(hn), short(s)))
                        else:
                            cx.bad(s, "every path from 'except %s' to the skip executes add_exception at least once (a for over a possibly empty collection does not count)" % ",".join(hn),
                                   construct="except %s: ... %s" % (",".join(hn), short(s)), path=path)


def r5_traceback(cx, sites):
    cx.rule("C03.R5", "every recorded failure carries a traceback", floor=15)
    for m, c in sites:
        h = _handler_of(c)
        fn = enclosing_function(c)
        if h is None:
            if m.name == "insights.core.serde":
                # ex_tb parameter comes from traceback.format_exc() in call_serializer
                outer = m.func("marshal", "C03.R5")
                fe = [x for x in ast.walk(outer) if isinstance(x, ast.Call) and call_name(x) == "traceback.format_exc"]
                cx.require(len(c.args) >= 3 and bool(fe), c, "marshal passes the formatted traceback")
            else:
                tb0 = c.args[2] if len(c.args) >= 3 else None
                for k0 in c.keywords:
                    if k0.arg == "tb":
                        tb0 = k0.value
                if isinstance(tb0, ast.Call) and call_name(tb0) == "traceback.format_exc":
                    # no exception is being handled where this call is evaluated: on Python 3 the text is 'NoneType: None'
                    cx.bad(c, "the traceback is formatted while the exception is being handled (traceback.format_exc() outside the except block has nothing to format)", construct=short(c, 100))
                elif isinstance(tb0, ast.Name) and fn is not None and any(isinstance(a, ast.Assign) and any(U(t) == tb0.id for t in a.targets) and isinstance(a.value, ast.Call)
                                                                        and call_name(a.value) == "traceback.format_exc" and _handler_of(a) is not None for a in walk_body(fn.body)) \
                        and all(_handler_of(a) is not None or U(a.value) in ("None", "''") for a in walk_body(fn.body) if isinstance(a, ast.Assign) and any(U(t) == tb0.id for t in a.targets)):
                    cx.ok(c, "the traceback recorded after the try was formatted inside the handler", construct=short(c, 100))
                else:
                    cx.unknown(c, "add_exception outside an except handler")
            continue
        if handler_names(h) == ["MissingRequirements"]:
            cx.ok(c, "missing requirements carry no traceback (not a failure)")
            continue
        tb = c.args[2] if len(c.args) >= 3 else None
        for k in c.keywords:
            if k.arg == "tb":
                tb = k.value
        ok = False
        if tb is not None:
            src = tb
            if isinstance(tb, ast.Name):
                defs = [a for a in walk_body(h.body) if isinstance(a, ast.Assign) and any(U(t) == tb.id for t in a.targets)]
                if len(defs) == 1:
                    src = defs[0].value
            ok = isinstance(src, ast.Call) and call_name(src) == "traceback.format_exc"
        cx.require(ok, c, "third argument is traceback.format_exc() evaluated inside the same handler")
        # the exception recorded is the one bound by the handler
        if len(c.args) >= 2:
            cx.require(h.name is not None and U(c.args[1]) == h.name, c, "the recorded exception is the one caught by the enclosing handler",
                       rule="C03.R5")


def r6_skip_gating(cx, sites):
    cx.rule("C03.R6", "a deliberate skip is recorded only when skip recording is on", floor=2)
    for m, c in sites:
        h = _handler_of(c)
        if h is None or handler_names(h) != ["SkipComponent"]:
            continue
        g = guard_texts(c, stop=h)
        ok = any(t.endswith(".store_skips") and p for t, p in g)
        cx.require(ok, c, "add_exception for a SkipComponent is guarded by broker.store_skips")
        # '... and then against the skipping component itself': a skip is never mirrored to the specs the component implements or is built on
        a0 = U(c.args[0]) if c.args else "?"
        lp_ = enclosing(c, ast.For)
        mirrored = lp_ is not None and any(a is h for a in ancestors(lp_)) and a0 == U(lp_.target) and "get_registry_points" in U(lp_.iter)
        own = a0 in ("self.component", "component") and not mirrored
        cx.require(own, c, "a deliberate skip is recorded against the skipping component itself (not against a registry point)", construct=short(c, 90))
    # and every SkipComponent arm in the engine either records under the gate or does nothing else that records
    mm = cx.repo.module(DR)
    fn = mm.func("Broker.__init__", "C03.R6")
    d = [a for a in walk_body(fn.body) if isinstance(a, ast.Assign) and any(U(t) == "self.store_skips" for t in a.targets)]
    cx.require(len(d) == 1 and U(d[0].value) == "False", d[0] if d else fn, "skip recording is off by default", construct=short(d[0]) if d else "(no store_skips default)")


def r7_registry_mirror(cx):
    cx.rule("C03.R7", "a generic failure is recorded against the component and mirrored to its registry points", floor=2)
    m = cx.repo.module(DR)
    fn = m.func("run_components", "C03.R7")
    loop, comp, comps, broker = main_loop(cx, fn)
    tr = [s for s in loop.body if isinstance(s, ast.Try)]
    if not tr:
        raise AnalysisError("C03.R7", "no try in run_components loop")
    hs = [h for h in tr[0].handlers if is_catch_all(h)]
    if not hs:
        cx.bad(tr[0], "catch-all arm exists", construct="(no except Exception)")
        return
    h = hs[0]
    direct = [c for c in find_calls(h.body, attr="add_exception") if c.args and U(c.args[0]) == comp and not guard_texts(c, stop=h) and enclosing(c, ast.For) is loop]
    combined = [c for c in find_calls(h.body, attr="add_exception") if _registry_loop(c, comp) is not None and _comp_plus_points(_registry_loop(c, comp).iter, comp)
                and U(c.args[0]) == U(_registry_loop(c, comp).target) and not guard_texts(c, stop=h)]
    direct = direct or combined
    cx.require(len(direct) >= 1, h, "the catch-all arm records the failure against the component itself, unconditionally",
               construct=short(direct[0]) if direct else "except Exception: (no add_exception(%s, ...))" % comp)
    mir = [c for c in find_calls(h.body, attr="add_exception") if _registry_loop(c, comp) is not None and U(c.args[0]) == U(_registry_loop(c, comp).target)]
    cx.require(len(mir) >= 1, h, "the catch-all arm also records against every registry point of the component",
               construct=short(mir[0]) if mir else "except Exception: (no loop over get_registry_points(%s))" % comp)
    for c_ in mir:
        g_ = guard_texts(c_, stop=_registry_loop(c_, comp))
        cx.require(not g_, c_, "every failing implementation is recorded against the registry point, whatever was recorded there before (which of two failing implementations ran first must not matter)",
                   construct="%s under %s" % (short(c_, 60), sorted(g_)) if g_ else short(c_, 60))
    # BlacklistedSpec arm records too
    bl = [h2 for h2 in tr[0].handlers if handler_names(h2) == ["BlacklistedSpec"]]
    for h2 in bl:
        rec = [c for c in find_calls(h2.body, attr="add_exception") if U(c.args[0]) == comp and not guard_texts(c, stop=h2) and enclosing(c, ast.For) is loop]
        cx.require(bool(rec), h2, "a deny-listed spec is recorded against the component", construct=short(rec[0]) if rec else "except BlacklistedSpec")


def r8_recorder(cx):
    cx.rule("C03.R8", "Broker.add_exception records failures (list + traceback) and keeps missing requirements apart", floor=3)
    m = cx.repo.module(DR)
    fn = m.func("Broker.add_exception", "C03.R8")
    ps = params(fn)
    if len(ps) < 4:
        raise AnalysisError("C03.R8", "add_exception signature changed: %s" % ps)
    comp, ex, tb = ps[1], ps[2], ps[3]
    mr = ("isinstance(%s, MissingRequirements)" % ex)
    app = [c for c in find_calls(fn.body, attr="append") if U(c.func.value) == "self.exceptions[%s]" % comp]
    ok = len(app) == 1 and U(app[0].args[0]) == ex and guard_texts(app[0]) == set([(mr, False)])
    cx.require(ok, app[0] if app else fn, "every exception other than MissingRequirements is appended to exceptions[component]",
               construct=short(app[0]) if app else "(no append to self.exceptions[component])")
    st = [a for a in walk_body(fn.body) if isinstance(a, ast.Assign) and any(U(t) == "self.tracebacks[%s]" % ex for t in a.targets)]
    ok = len(st) == 1 and U(st[0].value) == tb and guard_texts(st[0]) == set([(mr, False)])
    cx.require(ok, st[0] if st else fn, "its traceback is stored under tracebacks[exception]", construct=short(st[0]) if st else "(no store into self.tracebacks[ex])")
    # MissingRequirements branch stores only into missing_requirements
    others = []
    for n in walk_body(fn.body):
        if isinstance(n, (ast.Assign, ast.Call)) and (mr, True) in guard_texts(n):
            if isinstance(n, ast.Call) and call_attr(n) in ("append",):
                others.append(n)
            if isinstance(n, ast.Assign) and not any(U(t).startswith("self.missing_requirements[") for t in n.targets):
                others.append(n)
    cx.require(not others, others[0] if others else fn, "a missing dependency is stored only as missing_requirements, never as an exception",
               construct=short(others[0]) if others else "MissingRequirements branch")
    init = m.func("Broker.__init__", "C03.R8")
    d = [a for a in walk_body(init.body) if isinstance(a, ast.Assign) and any(U(t) == "self.exceptions" for t in a.targets)]
    cx.require(len(d) == 1 and U(d[0].value) == "defaultdict(list)", d[0] if d else init, "exceptions is a per-component list table", construct=short(d[0]) if d else "(none)")


def r8b_exceptions_hashable(cx, mods):
    """Broker.add_exception files the traceback under tracebacks[<exception object>]: every exception class of the package must stay hashable.  A class that
    defines __eq__ without __hash__ is unhashable on Python 3 - the TypeError is then raised inside the handler that was recording the failure."""
    cx.rule("C03.R8", "Broker.add_exception records failures (list + traceback) and keeps missing requirements apart", floor=3)
    n = 0
    for m in mods:
        for q, c in m.classes():
            try:
                is_exc = cx.repo.is_subclass(c, "builtins:Exception") or any(U(b).endswith(("Exception", "Error")) for b in c.bases)
            except Exception:
                is_exc = any(U(b).endswith(("Exception", "Error")) for b in c.bases)
            if not is_exc:
                continue
            n += 1
            names = set(st.name for st in c.body if isinstance(st, FUNC_TYPES)) | set(t.id for st in c.body if isinstance(st, ast.Assign) for t in st.targets if isinstance(t, ast.Name))
            if "__eq__" in names and "__hash__" not in names:
                cx.bad(c, "exception class %s stays hashable (it is used as the key of Broker.tracebacks)" % c.name, construct="class %s defines __eq__ without __hash__" % c.name)
    cx.ok(mods[0].tree.body[0], "%d exception classes swept: none defines __eq__ without __hash__" % n, construct="%d exception classes" % n) if n else None


def r9_content_before_skip(cx, mods):
    """ContentException is a subclass of the skip signal but is an *error* that must be recorded: wherever a
    plugin-level try has an arm for SkipComponent, an arm that records ContentException must come first."""
    cx.rule("C03.R9", "a content error is never swallowed by a skip arm (ContentException subclasses SkipComponent)", floor=2)
    tbl = exc_table(cx.repo)
    if "SkipComponent" not in tbl.get("ContentException", ()):
        cx.ok(cx.repo.module(EXC).cls("ContentException"), "ContentException is no longer a SkipComponent: nothing to order", construct="class ContentException")
        return
    for m in mods:
        if m.name != PL:
            continue
        for q, c in m.classes():
            if not _is_component_type(cx.repo, c):
                continue
            for fn in c.body:
                if not (isinstance(fn, FUNC_TYPES) and fn.name in ("invoke", "process")):
                    continue
                for tr in [n for n in walk_body(fn.body) if isinstance(n, ast.Try)]:
                    names = [handler_names(h) for h in tr.handlers]
                    sk = [i for i, n in enumerate(names) if "SkipComponent" in n]
                    if not sk:
                        continue
                    ce = [i for i, n in enumerate(names) if "ContentException" in n]
                    calls_component = any(U(x.func) == "self.component" or (call_attr(x) == "invoke" and U(x.func.value).startswith("super(")) for x in find_calls(tr.body))
                    if not calls_component:
                        continue
                    ok = bool(ce) and ce[0] < sk[0] and bool(find_calls(tr.handlers[ce[0]].body, attr="add_exception"))
                    cx.require(ok, tr.handlers[sk[0]], "%s.%s: an arm recording ContentException precedes the SkipComponent arm (otherwise a content error raised by the component is treated as a deliberate skip and recorded nowhere)" % (q, fn.name),
                               construct="handlers: %s" % [",".join(n) for n in names])
    # PluginType.invoke and the single-value arm of parser.invoke: ContentException arm present and recording
    pm = cx.repo.module(PL)
    for q in ("PluginType.invoke", "datasource.invoke", "parser.invoke"):
        fn = pm.func(q, "C03.R9")
        arms = [h for h in walk_body(fn.body) if isinstance(h, ast.ExceptHandler) and "ContentException" in handler_names(h)]
        cx.require(bool(arms) and all(find_calls(h.body, attr="add_exception") for h in arms), fn, "%s has an arm that records ContentException" % q, construct="%d ContentException arms" % len(arms))


def r10_alarm_pairing(cx, mods):
    """A time limit armed for one component must be disarmed on every exit, or it fires inside an innocent component."""
    cx.rule("C03.R10", "a datasource time limit (signal.alarm) is disarmed on every exit path", floor=1)
    n = 0
    for m in mods:
        if not m.name.startswith("insights.core"):
            continue
        for q, fn in m.functions():
            arms = [x for x in find_calls(fn.body, name="signal.alarm") if not (x.args and isinstance(x.args[0], ast.Constant) and x.args[0].value == 0)]
            if not arms:
                continue
            n += 1
            dis = [x for x in find_calls(fn.body, name="signal.alarm") if x.args and isinstance(x.args[0], ast.Constant) and x.args[0].value == 0]
            ok = False
            for d in dis:
                for a in ancestors(d):
                    if isinstance(a, ast.Try) and any(stmt_of(d) is s or any(stmt_of(d) is y for y in ast.walk(s)) for s in a.finalbody):
                        # the protected region (component call or generator yield) is inside this try's body
                        prot = [x for x in walk_body(a.body) if (isinstance(x, ast.Call) and U(x.func) in ("self.component",)) or isinstance(x, (ast.Yield, ast.YieldFrom))]
                        armed_before = all((arm.lineno, arm.col_offset) < (a.body[0].lineno, a.body[0].col_offset) or any(arm is y for s2 in a.body for y in ast.walk(s2)) for arm in arms)
                        if prot and armed_before:
                            ok = True
                    if isinstance(a, FUNC_TYPES):
                        break
            cx.require(ok, arms[0], "%s arms signal.alarm and disarms it (signal.alarm(0)) in the finally of the try that protects the timed region, so a failing datasource never leaves a pending alarm" % q,
                       construct="%s: %d arming call(s), %d disarming call(s)%s" % (q, len(arms), len(dis), "" if ok else " - none in a finally around the timed region"))
    if n == 0:
        cx.info(None, "no signal.alarm based time limit found in insights.core (nothing to pair)")
        cx.ok(cx.repo.module(PL).cls("datasource"), "no alarm-based time limit: nothing can stay armed", construct="(no signal.alarm)")


def g1_bare_vs_self(cx, mods):
    """Generic cross-reference lint: bare name resolving to a module-level binding in a
    method that also uses self.<same name> (INFO only; the property rule is R3)."""
    for m in mods:
        for q, fn in m.functions():
            if not params(fn) or params(fn)[0] != "self":
                continue
            selfattrs = set(n.attr for n in walk_body(fn.body) if isinstance(n, ast.Attribute) and isinstance(n.value, ast.Name) and n.value.id == "self")
            loc = local_names(fn)
            for n in walk_body(fn.body):
                if isinstance(n, ast.Name) and isinstance(n.ctx, ast.Load) and n.id in selfattrs and n.id not in loc and (n.id in m.defs or n.id in m.top):
                    par = parent(n)
                    if isinstance(par, ast.Call) and par.func is n:
                        continue
                    if isinstance(par, ast.Attribute):
                        continue
                    cx.info(n, "G1: bare name '%s' resolves to a module-level binding while the method also uses self.%s" % (n.id, n.id), construct=short(stmt_of(n)))


def r3b_registry_points_not_memoised_partially(cx):
    """Failures are also recorded against the registry points get_registry_points(component) returns; its answer depends on BOTH parameters
    (the walk direction flag flips between dependencies and dependents), so a memo keyed on the component alone hands one direction's answer to the other."""
    cx.rule("C03.R3", "exceptions are recorded against the failing component (or a registry point of it)", floor=5)
    m = cx.repo.module(DR)
    fn = m.func("get_registry_points", "C03.R3")
    ps = params(fn)
    stores = [a for a in walk_body(fn.body) if isinstance(a, ast.Assign) and isinstance(a.targets[0], ast.Subscript) and isinstance(a.targets[0].value, ast.Name)
              and m.top.get(a.targets[0].value.id) is not None]
    bad = []
    for a in stores:
        key = a.targets[0].slice
        names = set(x.id for x in ast.walk(trace(key, fn) if isinstance(key, ast.Name) else key) if isinstance(x, ast.Name))
        if not set(ps) <= names:
            bad.append(a)
    cx.require(not bad, bad[0] if bad else fn, "get_registry_points is not memoised under a key that leaves out one of its parameters",
               construct=short(bad[0]) if bad else "no partial memo in get_registry_points")


def run(cx):
    repo = cx.repo
    cx.extra["explanation"] = ("C03: exception-escape discipline of the execution loop and the observer loop, shadowing of except arms, attribution / traceback / gating of "
                               "every add_exception call site, must-pass-through 'record before skip' on the CFG of every invoke (zero-iteration loop edges included), body of the recorder.")
    cx.undecided = ["'produces exactly the value it would have produced anyway' (value equality across runs)", "observers' own side effects"]
    anchor = [repo.module(DR), repo.module(PL), repo.module("insights.core.serde"), repo.module(EXC)]
    mods = repo.all_modules() if cx.tier == "thorough" else anchor
    anchor_names = set(a.name for a in anchor)
    sites = add_exception_sites(mods)
    cx.guard(r1_no_escape)
    cx.guard(r2_ladder, mods, anchor_names)
    cx.guard(r3_attribution, sites)
    cx.guard(r3b_registry_points_not_memoised_partially)
    cx.guard(r4_record_before_skip, mods)
    cx.guard(r5_traceback, sites)
    cx.guard(r6_skip_gating, sites)
    cx.guard(r7_registry_mirror)
    cx.guard(r8_recorder)
    cx.guard(r8b_exceptions_hashable, mods)
    # a dependent is dropped only when its requirements are really absent (presence, not value, of the group members): C02.R3 re-checked
    from . import c02
    cx.borrow(c02.r3_iff, "C02.R3", "C03.R11", "a component unaffected by a failure still finds its requirements met: the missing test is a presence test (C02.R3)")
    cx.guard(r9_content_before_skip, mods)
    cx.guard(r10_alarm_pairing, mods)
    # a failure recorded for one component (or for the specs it implements) must not keep any other component - or the same one, on a second
    # evaluation with the same broker - from being attempted: the execution guard knows the four engine conditions only (C02.R5 re-checked)
    cx.borrow(c02.r5b_nothing_else_suppresses, "C02.R5b", "C03.R12", "recorded failures never feed back into the execution guard (C02.R5 re-checked)")
    if cx.tier == "thorough":
        cx.guard(g1_bare_vs_self, mods)
