"""C16 - client options resolve by precedence, and offline means no network."""
import ast

from ..model import (AnalysisError, FUNC_TYPES, U, call_attr, call_name, dotted, enclosing, enclosing_function, guard_texts, guards_ex,
                     short, walk_body, walk_local, ancestors, parent, const_str, kwarg, literal)
from ..util import params, find_calls, assigns_to, trace, stmt_of, has_exit, syn_dominates, lexically_before
from .. import feat
from ..absint import Interp, State, Unsupported, T, F, UNK, unroll_literal_loops, desugar_quantifiers

CFG = "insights.client.config"
OFFLINE_VETO = ["to_json", "status", "test_connection", "checkin", "unregister", "check_results", "diagnosis"]


def self_calls(fn):
    """Top-level ``self.<m>(...)`` statement calls of a function, in order."""
    out = []
    for st in fn.body:
        if isinstance(st, ast.Expr) and isinstance(st.value, ast.Call) and U(st.value.func).startswith("self."):
            out.append((st, st.value.func.attr, st.value))
    return out


def r1_layering(cx):
    cx.rule("C16.R1", "options are layered file < environment < command line, then implied, then validated", floor=5)
    m = cx.repo.module(CFG)
    fn = m.func("InsightsConfig.load_all", "C16.R1")
    seq = [(n, c) for st, n, c in self_calls(fn)]
    names = [n for n, c in seq]
    want = ["_load_config_file", "_load_env", "_load_command_line", "_imply_options", "_validate_options"]
    # the first _load_command_line(conf_only=True) only extracts the conf path
    core = [n for n, c in seq if not (n == "_load_command_line" and kwarg(c, "conf_only") is not None and U(kwarg(c, "conf_only")) == "True")]
    cx.require(core == want, fn, "load_all calls file loader, env loader, full CLI loader, _imply_options, _validate_options in this order, each unconditionally",
               construct="load_all: %s" % names)
    extra = [st for st in fn.body if not isinstance(st, (ast.Expr, ast.Return))]
    cx.require(not extra, extra[0] if extra else fn, "no conditional step in load_all", construct=short(extra[0]) if extra else "straight-line")
    for loader in ("_load_config_file", "_load_env", "_load_command_line"):
        f = m.func("InsightsConfig.%s" % loader, "C16.R1")
        ups = [x for x in find_calls(f.body, attr="_update_dict")]
        direct = [n for n in walk_body(f.body) if (isinstance(n, ast.Call) and call_name(n) == "setattr") or
                  (isinstance(n, ast.Assign) and any(isinstance(t, ast.Attribute) and U(t.value) == "self" and not t.attr.startswith("_") for t in n.targets)) or
                  (isinstance(n, ast.Call) and U(n.func) == "self.__dict__.update")]
        cx.require(bool(ups) and not direct, f, "%s merges only through _update_dict (later layers override earlier ones, unknown names filtered)" % loader,
                   construct="%d _update_dict calls, %d direct writes" % (len(ups), len(direct)))
    ud = m.func("InsightsConfig._update_dict", "C16.R1")
    last = ud.body[-1]
    ok = isinstance(last, ast.Expr) and isinstance(last.value, ast.Call) and U(last.value.func) == "self.__dict__.update" and len(last.value.args) == 1 and isinstance(last.value.args[0], ast.Name)
    if ok:
        w = last.value.args[0].id
        src = [a for a in assigns_to(ud, w)]
        ok = w == params(ud)[1] and not src or (len(src) == 1 and ("%s.items()" % params(ud)[1]) in U(src[0].value))
    if not ok and isinstance(last, ast.Expr) and isinstance(last.value, ast.Call) and U(last.value.func) == "self.__dict__.update" and len(last.value.args) == 1:
        # a filtered copy of the incoming dict (the filter itself is C16.R3's business)
        a_ = last.value.args[0]
        ok = isinstance(a_, (ast.Call, ast.DictComp)) and ("%s.items()" % params(ud)[1]) in U(a_) or any(("%s.items()" % w_) in U(a_) for w_ in [U(t.targets[0]) for t in walk_body(ud.body) if isinstance(t, ast.Assign) and ("%s.items()" % params(ud)[1]) in U(t.value)])
    cx.require(ok, last, "_update_dict ends by updating the instance dict (override semantics)", construct=short(last))


def r2_cli_suppress(cx):
    cx.rule("C16.R2", "the command line contributes only options that were actually given", floor=1)
    m = cx.repo.module(CFG)
    fn = m.func("InsightsConfig._load_command_line", "C16.R2")
    adds = [x for x in find_calls(fn.body, attr="add_argument") if any(isinstance(k, ast.keyword) and k.arg is None for k in x.keywords)]
    if not adds:
        cx.unknown(fn, "no add_argument(*optnames, **o) call")
        return
    for x in adds:
        opts = [k.value for k in x.keywords if k.arg is None][0]
        st = [a for a in walk_body(fn.body) if isinstance(a, ast.Assign) and U(a.targets[0]) == "%s['default']" % U(opts)]
        ok = len(st) == 1 and U(st[0].value) == "argparse.SUPPRESS" and (syn_dominates(st[0], x) or lexically_before(st[0], x)) \
            and guard_texts(st[0], stop=enclosing(x, ast.For)) <= guard_texts(x, stop=enclosing(x, ast.For)) and enclosing(st[0], ast.For) is enclosing(x, ast.For)
        cx.require(ok, x, "every CLI option is registered with default=argparse.SUPPRESS (an option not given does not override file/env values)",
                   construct="%s ; %s" % (short(st[0]) if st else "(no default assignment)", short(x)))
    # whatever this function caches in self._cli_opts is later taken for the whole command line (the early-return guard): every pass must
    # register every option and parse strictly - a conf-only pre-pass that keeps just '--conf' silently drops the other switches
    ps_ = set(params(fn)[1:])
    dep = []
    for x_ in find_calls(fn.body, attr="add_argument"):
        for t_, p_ in guard_texts(x_):
            if any(isinstance(n_, ast.Name) and n_.id in ps_ for n_ in ast.walk(ast.parse(t_, mode="eval"))):
                dep.append(x_)
    for c_ in [n_ for n_ in ast.walk(fn) if isinstance(n_, ast.comprehension) and "DEFAULT_OPTS" in U(n_.iter)]:
        if any(isinstance(n_, ast.Name) and n_.id in ps_ for i_ in c_.ifs for n_ in ast.walk(i_)):
            dep.append(c_.ifs[0])
    cx.require(not dep, dep[0] if dep else fn, "every option that has command-line flags is registered in every pass (which options are registered never depends on a parameter such as conf_only)",
               construct=short(dep[0], 100) if dep else "registration independent of %s" % sorted(ps_))
    pk = [x for x in find_calls(fn.body, attr="parse_known_args")]
    cx.require(not pk, pk[0] if pk else fn, "the command line is parsed strictly (parse_args), never partially", construct=short(pk[0]) if pk else "parser.parse_args()")
    pa = [x for x in find_calls(fn.body, attr="parse_args")]
    up = [x for x in find_calls(fn.body, attr="_update_dict") if U(x.args[0]) == "self._cli_opts"]
    cx.require(bool(pa) and bool(up), fn, "the parsed options are merged as the last layer", rule="C16.R2", construct="self._cli_opts = vars(options); self._update_dict(self._cli_opts)")


def r3_unknown_filtered(cx):
    cx.rule("C16.R3", "unknown option names never become settings", floor=3)
    m = cx.repo.module(CFG)
    fn = m.func("InsightsConfig._update_dict", "C16.R3")
    d0 = params(fn)[1]
    upd = [x for x in find_calls(fn.body) if U(x.func) == "self.__dict__.update"]
    d = U(upd[0].args[0]) if len(upd) == 1 and upd[0].args and isinstance(upd[0].args[0], ast.Name) else d0    # the working dict (the parameter itself or a filtered copy)
    un = [a for a in walk_body(fn.body) if isinstance(a, ast.Assign) and U(a.targets[0]) == "unknown_opts"]

    def _setdiff(t):
        t = t.replace(".keys()", "")
        if ".difference(" in t and t.endswith(")"):
            a, b = t[:-1].split(".difference(", 1)
            t = "%s - %s" % (a, b)
        # a module constant that is nothing but the key set of DEFAULT_OPTS (bound once, DEFAULT_OPTS is never mutated) reads as DEFAULT_OPTS
        for nm, v in m.top.items():
            if U(v).replace(".keys()", "") in ("frozenset(DEFAULT_OPTS)", "set(DEFAULT_OPTS)", "tuple(DEFAULT_OPTS)", "list(DEFAULT_OPTS)", "sorted(DEFAULT_OPTS)") \
                    and len([x for x in ast.walk(m.tree) if isinstance(x, ast.Name) and x.id == nm and isinstance(x.ctx, (ast.Store, ast.Del))]) == 1:
                t = t.replace(nm, "DEFAULT_OPTS")
        return t.replace("set(DEFAULT_OPTS)", "DEFAULT_OPTS").replace("list(%s)" % d, d)
    ok = len(un) == 1 and _setdiff(U(un[0].value)) == "set(%s) - DEFAULT_OPTS" % d
    cx.require(ok, un[0] if un else fn, "unknown = keys of the incoming dict that are not in DEFAULT_OPTS", construct=short(un[0]) if un else "(none)")
    pops = [x for x in find_calls(fn.body, attr="pop") if U(x.func.value) == d]
    ok = False
    if pops and len(upd) == 1:
        lp = enclosing(pops[0], ast.For)
        ok = lp is not None and U(lp.iter) == "unknown_opts" and U(pops[0].args[0]) == U(lp.target) and not guard_texts(pops[0], stop=lp) and not has_exit(lp.body) \
            and syn_dominates(lp, upd[0]) and not guard_texts(lp) and U(upd[0].args[0]) == d \
            and not [a for a in assigns_to(fn, d) + assigns_to(fn, "unknown_opts") if un and a.lineno > un[0].lineno] \
            and not [c for c in find_calls(fn.body) if isinstance(c.func, ast.Attribute) and U(c.func.value) == "unknown_opts"
                     and c.func.attr in ("difference_update", "intersection_update", "discard", "remove", "pop", "clear", "symmetric_difference_update")]
    def _filtered_update(call_):
        """self.__dict__.update(<copy of the working dict without the unknown keys>): dict((k, v) for k, v in d.items() if k not in unknown_opts) / dict comprehension."""
        if not (call_.args and len(call_.args) == 1):
            return False
        a_ = call_.args[0]
        a_ = trace(a_, fn) if isinstance(a_, ast.Name) else a_
        g_ = None
        if isinstance(a_, ast.Call) and call_name(a_) == "dict" and len(a_.args) == 1 and isinstance(a_.args[0], (ast.GeneratorExp, ast.ListComp)) and isinstance(a_.args[0].elt, ast.Tuple):
            g_, kv_ = a_.args[0].generators, [U(e_) for e_ in a_.args[0].elt.elts]
        elif isinstance(a_, ast.DictComp):
            g_, kv_ = a_.generators, [U(a_.key), U(a_.value)]
        if g_ is None or len(g_) != 1 or not isinstance(g_[0].target, ast.Tuple):
            return False
        tg_ = [U(e_) for e_ in g_[0].target.elts]
        return tg_ == kv_ and U(g_[0].iter) == "%s.items()" % d and [U(i_) for i_ in g_[0].ifs] == ["%s not in unknown_opts" % tg_[0]]
    if not ok and not pops and len(upd) == 1 and _filtered_update(upd[0]) and not guard_texts(upd[0]):
        ok = not [a for a in assigns_to(fn, "unknown_opts") if un and a.lineno > un[0].lineno]
    cx.require(ok, pops[0] if pops else (upd[0] if upd else fn), "every unknown key is removed before the instance dict is updated, unconditionally",
               construct="for u in unknown_opts: dict_.pop(u, None) ; self.__dict__.update(dict_)")
    flt = [a for a in fn.body if isinstance(a, ast.Assign) and U(a.targets[0]) == d]
    ok = len(flt) == 1 and U(flt[0].value) == "dict(((k, v) for k, v in %s.items() if k not in self._init_attrs))" % d0 and (not upd or syn_dominates(flt[0], upd[0])) and (not un or syn_dominates(flt[0], un[0]))
    cx.require(ok, flt[0] if flt else fn, "names of existing attributes/methods are filtered out first (a setting cannot clobber a method)", construct=short(flt[0], 120) if flt else "(none)")
    # the only other dynamic-key writers of the instance
    c = m.cls("InsightsConfig", "C16.R3")
    for n in ast.walk(c):
        if isinstance(n, ast.Call) and call_name(n) == "setattr" and U(n.args[0]) == "self":
            f = enclosing_function(n)
            cx.require(f is not None and f.name == "__setitem__", n, "setattr(self, <computed name>, ...) occurs only in __setitem__", construct="%s in %s" % (short(n), getattr(f, "name", "?")))
        if isinstance(n, ast.Call) and U(n.func) == "self.__dict__.update":
            f = enclosing_function(n)
            cx.require(f is not None and f.name == "_update_dict", n, "self.__dict__.update occurs only in _update_dict", construct="in %s" % getattr(f, "name", "?"))


def r4b_env_names(cx):
    """The environment layer addresses option <name> as INSIGHTS_<NAME>.  The expression that turns a variable name back into the option name is
    folded, as a constant expression, for the variable of every declared option (in upper, lower and mixed case): it must give that option's name."""
    cx.rule("C16.R4b", "INSIGHTS_<NAME> maps to option <name> for every declared option", floor=60)
    m = cx.repo.module(CFG)
    env = m.func("InsightsConfig._load_env", "C16.R4b")
    do = m.top.get("DEFAULT_OPTS")
    names = [k.value for k in do.keys if isinstance(k, ast.Constant) and isinstance(k.value, str)] if isinstance(do, ast.Dict) else []
    if len(names) < 60:
        cx.unknown(env, "DEFAULT_OPTS is not a literal table")
        return
    key_expr, kvar = None, None
    for n in ast.walk(env):
        gens = None
        if isinstance(n, (ast.GeneratorExp, ast.ListComp)) and isinstance(n.elt, ast.Tuple) and len(n.elt.elts) == 2:
            gens, ke = n.generators, n.elt.elts[0]
        elif isinstance(n, ast.DictComp):
            gens, ke = n.generators, n.key
        if gens and len(gens) == 1 and "os.environ" in U(gens[0].iter):
            t = gens[0].target
            kvar = t.elts[0].id if isinstance(t, ast.Tuple) and isinstance(t.elts[0], ast.Name) else t.id if isinstance(t, ast.Name) else None
            key_expr = ke
            break
    if key_expr is None:
        for lp in [x for x in ast.walk(env) if isinstance(x, ast.For) and "os.environ" in U(x.iter)]:
            t = lp.target
            kvar = t.elts[0].id if isinstance(t, ast.Tuple) and isinstance(t.elts[0], ast.Name) else t.id if isinstance(t, ast.Name) else None
            for a in walk_body(lp.body):
                if isinstance(a, ast.Assign) and isinstance(a.targets[0], ast.Subscript) and not isinstance(a.targets[0].slice, ast.Constant):
                    key_expr = trace(a.targets[0].slice, env) if isinstance(a.targets[0].slice, ast.Name) else a.targets[0].slice
                    break
            if key_expr is not None:
                break
    if key_expr is None or kvar is None:
        cx.unknown(env, "the expression deriving the option name from the environment variable name was not found")
        return
    for nm in names:
        got = {}
        try:
            for var in ("INSIGHTS_" + nm.upper(), "insights_" + nm, "Insights_" + nm.upper()):
                got[var] = feat.fold_str_expr(key_expr, {kvar: var})
        except feat.NotConstant as e:
            cx.unknown(key_expr, "option-name expression is not a foldable string expression: %s" % e)
            return
        wrong = dict((k, v) for k, v in got.items() if v != nm)
        cx.require(not wrong, key_expr, "INSIGHTS_%s sets option '%s'" % (nm.upper(), nm), construct="%s with %s" % (short(key_expr, 70), "; ".join("%s -> %r" % kv for kv in sorted(wrong.items())) if wrong else "%s=INSIGHTS_%s -> %r" % (kvar, nm.upper(), nm)))


def r4_coercion(cx):
    cx.rule("C16.R4", "numeric and boolean coercion agree between the environment and the file loader; every option has a default", floor=4)
    m = cx.repo.module(CFG)
    env = m.func("InsightsConfig._load_env", "C16.R4")
    # view: the loop over the table of numeric options is unrolled; every store insights_env_opts['<k>'] = <conv>(...) is then explicit
    unroll_literal_loops(env)
    convs = {}
    bad_store = None
    for a in walk_body(env.body):
        if isinstance(a, ast.Assign) and isinstance(a.targets[0], ast.Subscript) and U(a.targets[0].value) == "insights_env_opts" and isinstance(a.targets[0].slice, ast.Constant):
            k = a.targets[0].slice.value
            v = a.value
            while isinstance(v, ast.IfExp) and isinstance(v.test, ast.Compare) and len(v.test.ops) == 1 and isinstance(v.test.ops[0], (ast.Eq, ast.NotEq)) \
                    and isinstance(v.test.left, ast.Constant) and isinstance(v.test.comparators[0], ast.Constant):
                eq = v.test.left.value == v.test.comparators[0].value
                v = v.body if eq == isinstance(v.test.ops[0], ast.Eq) else v.orelse
            if isinstance(v, ast.Call) and call_name(v) in ("int", "float") and len(v.args) == 1 and U(trace(v.args[0], env)) in ("insights_env_opts['%s']" % k, U(v.args[0])) \
                    and (U(v.args[0]) == "insights_env_opts['%s']" % k or any(U(d.value) == "insights_env_opts['%s']" % k for d in assigns_to(env, U(v.args[0])))):
                convs.setdefault(k, set()).add(call_name(v))
            else:
                bad_store = a
    ok = convs == {"retries": set(["int"]), "cmd_timeout": set(["int"]), "http_timeout": set(["float"])} and bad_store is None
    cx.require(ok, bad_store if bad_store is not None else env, "environment: retries, cmd_timeout -> int, http_timeout -> float", construct="%s" % sorted((k, sorted(v)) for k, v in convs.items()))
    # environment booleans: 'true' -> True, 'false' -> False (the constant, not merely something falsy-then-replaced), anything else unchanged
    bf = [n for n in ast.walk(env) if isinstance(n, FUNC_TYPES) and n.name == "_boolify"]
    if not bf:
        # whatever function the environment values are passed through (nested or module level), found from its use
        for n in ast.walk(env):
            if isinstance(n, (ast.GeneratorExp, ast.ListComp)) and isinstance(n.elt, ast.Tuple) and len(n.elt.elts) == 2 and "os.environ" in U(n.generators[0].iter) \
                    and isinstance(n.elt.elts[1], ast.Call) and isinstance(n.elt.elts[1].func, ast.Name) and len(n.elt.elts[1].args) == 1:
                nm_ = n.elt.elts[1].func.id
                bf = [x for x in ast.walk(env) if isinstance(x, FUNC_TYPES) and x.name == nm_] or ([m.get(nm_)] if m.has(nm_) and isinstance(m.get(nm_), FUNC_TYPES) else [])
    okb = False
    seen_ = []
    if bf:
        bp = params(bf[0])[0]
        rets_ = [r for r in walk_body(bf[0].body) if isinstance(r, ast.Return) and r.value is not None]
        cases_ = {}
        for r in rets_:
            g_ = set(guard_texts(r))
            seen_.append("%s under %s" % (U(r.value), sorted(g_)))
            if U(r.value) == "True" and ("%s.lower() == 'true'" % bp, True) in g_:
                cases_["true"] = True
            elif U(r.value) == "False" and ("%s.lower() == 'false'" % bp, True) in g_:
                cases_["false"] = True
            elif U(r.value) == bp:
                cases_["other"] = True
            else:
                cases_["bad"] = True
        # a lowered temporary (lowered = v.lower()) is the same test
        if set(cases_) != set(["true", "false", "other"]):
            low = [a for a in walk_body(bf[0].body) if isinstance(a, ast.Assign) and U(a.value) == "%s.lower()" % bp and isinstance(a.targets[0], ast.Name)]
            if len(low) == 1:
                ln = low[0].targets[0].id
                cases_ = {}
                for r in rets_:
                    g_ = set(guard_texts(r))
                    if U(r.value) == "True" and ("%s == 'true'" % ln, True) in g_:
                        cases_["true"] = True
                    elif U(r.value) == "False" and ("%s == 'false'" % ln, True) in g_:
                        cases_["false"] = True
                    elif U(r.value) == bp:
                        cases_["other"] = True
                    else:
                        cases_["bad"] = True
        okb = set(cases_) == set(["true", "false", "other"])
    cx.require(okb, bf[0] if bf else env, "environment booleans: 'true' gives True, 'false' gives the constant False, anything else is kept (a value that can switch an option OFF)",
               construct="; ".join(seen_) or "(no _boolify)")
    fl = m.func("InsightsConfig._load_config_file", "C16.R4")
    # the file layer must hand values over as written: a parser class with %-interpolation rejects (and thereby drops the whole file on) any value with a bare '%'
    ctors = [x for x in ast.walk(fl) if isinstance(x, ast.Call) and U(x.func).split(".")[-1] in ("RawConfigParser", "ConfigParser", "SafeConfigParser")]
    okp = bool(ctors) and all(U(x.func).split(".")[-1] == "RawConfigParser" or (kwarg(x, "interpolation") is not None and U(kwarg(x, "interpolation")) == "None") for x in ctors)
    cx.require(okp, ctors[0] if ctors else fl, "the configuration file is read with a parser that does not interpolate '%' (RawConfigParser, or interpolation=None)",
               construct=short(ctors[0]) if ctors else "(no parser constructed)")
    gi = [x for x in find_calls(fl.body, attr="getint")]
    gf = [x for x in find_calls(fl.body, attr="getfloat")]
    gb = [x for x in find_calls(fl.body, attr="getboolean")]
    ok = bool(gi) and set(t for t, p in guard_texts(gi[0], stop=enclosing(gi[0], ast.For)) if p) == set(["key in ('retries', 'cmd_timeout')"]) and \
        bool(gf) and set(t for t, p in guard_texts(gf[0], stop=enclosing(gf[0], ast.For)) if p) == set(["key == 'http_timeout'"])
    cx.require(ok, gi[0] if gi else fl, "file: the same three numeric options are coerced with getint / getfloat", construct="getint: retries, cmd_timeout; getfloat: http_timeout")
    ok = bool(gb) and ("key in DEFAULT_BOOLS", True) in guard_texts(gb[0], stop=enclosing(gb[0], ast.For))
    cx.require(ok, gb[0] if gb else fl, "file: every option whose default is a bool is read with getboolean", construct="if key in DEFAULT_BOOLS ...: getboolean")
    db = m.top.get("DEFAULT_BOOLS")
    cx.require(db is not None and "type(v) is bool" in U(db) and "DEFAULT_KVS" in U(db), db if db is not None else fl, "DEFAULT_BOOLS is derived from the defaults table", construct="DEFAULT_BOOLS = %s" % short(db, 100))
    do = m.top.get("DEFAULT_OPTS")
    missing = []
    n = 0
    if isinstance(do, ast.Dict):
        for k, v in zip(do.keys, do.values):
            n += 1
            if isinstance(v, ast.Dict) and not any(const_str(kk) == "default" for kk in v.keys if kk is not None):
                missing.append(const_str(k))
    cx.require(isinstance(do, ast.Dict) and n >= 60 and not missing, do if do is not None else fl, "every entry of DEFAULT_OPTS has a 'default' (%d options)" % n, construct="options without default: %s" % missing)
    cx.extra["client_options"] = n


def obligations():
    obs = []
    obs.append(("offline => no_upload", {"offline": T}, ("holds", "no_upload", T)))
    obs.append(("offline => not register", {"offline": T}, ("holds", "register", F)))
    obs.append(("offline => not auto_update", {"offline": T}, ("holds", "auto_update", F)))
    for x in OFFLINE_VETO:
        obs.append(("offline and %s => rejected" % x, {"offline": T, x: T}, ("rejected",)))
    obs.append(("offline and to_json (via quiet => diagnosis) => rejected", {"offline": T, "to_json": T, "quiet": T}, ("rejected",)))
    obs.append(("output_dir => no_upload", {"output_dir": T}, ("holds", "no_upload", T)))
    obs.append(("output_dir => not keep_archive", {"output_dir": T}, ("holds", "keep_archive", F)))
    obs.append(("output_file => no_upload", {"output_file": T}, ("holds", "no_upload", T)))
    obs.append(("output_file => not keep_archive", {"output_file": T}, ("holds", "keep_archive", F)))
    obs.append(("output_dir and output_file => rejected", {"output_dir": T, "output_file": T}, ("rejected",)))
    obs.append(("obfuscate_hostname without obfuscate => rejected", {"obfuscate_hostname": T, "obfuscate": F}, ("rejected",)))
    obs.append(("obfuscate_hostname accepted => obfuscate", {"obfuscate_hostname": T}, ("holds", "obfuscate", T)))
    # the implications are about the FINAL configuration: an option that is only switched on inside _imply_options (after its own
    # consequences were drawn) must still have them
    for a, c, v in (("offline", "no_upload", T), ("offline", "register", F), ("offline", "auto_update", F), ("output_dir", "no_upload", T), ("output_file", "no_upload", T)):
        obs.append(("%s switched on by an implication => %s%s" % (a, "" if v == T else "not ", c), {a: F}, ("late", c, v, a)))
    obs.append(("enable_schedule and disable_schedule => rejected", {"enable_schedule": T, "disable_schedule": T}, ("rejected",)))
    obs.append(("payload without content_type => rejected", {"payload": T, "content_type": F, "app": F, "compliance": F, "compliance_policies": F, "compliance_assign": F, "compliance_unassign": F}, ("rejected",)))
    return obs


def cone_of_influence(cls, methods, seed):
    """Attributes whose value can influence the seed attributes or a raise guarded by them (fixed point)."""
    def _guards(n):
        # only lexical nesting: an earlier "if X: raise" merely removes paths, it does not influence later values
        return [(e, p) for e, p, o in guards_ex(n) if o == "nest"]
    fns = []
    todo = list(methods)
    seen = set()
    table = dict((st.name, st) for st in cls.body if isinstance(st, FUNC_TYPES))
    while todo:
        n = todo.pop()
        if n in seen or n not in table:
            continue
        seen.add(n)
        fns.append(table[n])
        for c in find_calls(table[n].body):
            if U(c.func).startswith("self.") and c.func.attr in table:
                todo.append(c.func.attr)

    def attrs(e):
        return set(x.attr for x in ast.walk(e) if isinstance(x, ast.Attribute) and isinstance(x.value, ast.Name) and x.value.id == "self")
    rel = set(seed)
    changed = True
    while changed:
        changed = False
        for fn in fns:
            for n in walk_body(fn.body):
                add = set()
                if isinstance(n, (ast.Assign, ast.AugAssign)):
                    tg = n.targets if isinstance(n, ast.Assign) else [n.target]
                    tnames = set(t.attr for t in tg if isinstance(t, ast.Attribute) and U(t.value) == "self")
                    if tnames & rel:
                        add |= attrs(n.value)
                        for e, p in _guards(n):
                            add |= attrs(e)
                elif isinstance(n, ast.Raise):
                    g = set()
                    for e, p in _guards(n):
                        g |= attrs(e)
                    # a raise only removes paths; it matters when its guard mentions a seed attribute
                    if g & set(seed):
                        add |= g
                elif isinstance(n, ast.Return):
                    for e, p in _guards(n):
                        pass
                if not add <= rel:
                    rel |= add
                    changed = True
    return rel


def r5_implication_table(cx):
    cx.rule("C16.R5", "implication and rejection table of _imply_options ; _validate_options for all configurations", floor=20)
    m = cx.repo.module(CFG)
    cls = m.cls("InsightsConfig", "C16.R5")
    la = m.func("InsightsConfig.load_all", "C16.R5")
    tail = [n for st, n, c in self_calls(la) if n in ("_imply_options", "_validate_options")]
    if tail != ["_imply_options", "_validate_options"]:
        cx.bad(la, "load_all finishes with _imply_options then _validate_options (the composition that is interpreted)", construct="tail: %s" % tail)
        return
    # view: loops over literal tables are unrolled, so that the cone of influence and the interpreter see plain guarded statements
    table = dict((st.name, st) for st in cls.body if isinstance(st, FUNC_TYPES))
    todo, seen = ["_imply_options", "_validate_options"], set()
    while todo:
        n = todo.pop()
        if n in seen or n not in table:
            continue
        seen.add(n)
        unroll_literal_loops(table[n])
        desugar_quantifiers(table[n])
        for c in find_calls(table[n].body):
            if U(c.func).startswith("self.") and c.func.attr in table:
                todo.append(c.func.attr)
        dyn = [c for c in ast.walk(table[n]) if isinstance(c, ast.Call) and call_name(c) in ("getattr", "setattr") and c.args and U(c.args[0]) == "self"]
        if dyn:
            cx.unknown(dyn[0], "dynamic attribute access '%s' in %s: the truthiness interpretation cannot follow it" % (short(dyn[0]), n))
            return
    peak = 0
    for title, assume, want in obligations():
        seed = set(assume) | (set([want[1]]) if want[0] in ("holds", "late") else set())
        rel = cone_of_influence(cls, ["_imply_options", "_validate_options"], seed)
        final_live = set([want[1]]) if want[0] == "holds" else set([want[1], want[3]]) if want[0] == "late" else set()

        def interpret(assumption):
            it = Interp(cls, relevant=rel)
            live_mid = final_live | it.reads_of(it.methods["_validate_options"])
            states = it.run_method("_imply_options", [State(attrs=assumption)], 0, live_mid)
            states = it.run_method("_validate_options", states, 0, final_live)
            return it, states
        try:
            it, states = interpret(assume)
        except Unsupported as u:
            cx.error("abstract interpretation cannot handle the code: %s" % u, "C16.R5")
            return
        peak = max(peak, it.peak)
        done = [s for s in states if s.status == "running"]
        rej = [s for s in states if s.status == "rejected"]
        if want[0] == "late":
            # accepted paths on which the antecedent ends up truthy (or unknown) although it started falsy
            node = m.func("InsightsConfig._imply_options")
            _, attr, val, ante = want
            on = [s for s in done if s.attrs.get(ante, UNK) != F]
            bad = [s for s in on if s.attrs.get(attr, UNK) != val]
            if bad:
                s = bad[0]
                cx.bad(node, "%s: '%s' is switched on after its implications were drawn, and '%s' is not %s on that path" % (title, ante, attr, "truthy" if val == T else "falsy"),
                       construct="assume %s -> %s=%s, %s=%s" % (_fmt(assume), ante, s.attrs.get(ante, UNK), attr, s.attrs.get(attr, UNK)), path="decisions: " + "; ".join(s.trace[-14:]))
            else:
                cx.ok(node, "%s: on %d accepted paths '%s' is never switched on late (or its consequence holds)" % (title, len(done), ante),
                      construct="assume %s -> %d accepted paths, %d with %s on" % (_fmt(assume), len(done), len(on), ante))
            continue
        if want[0] == "holds" and any(s.attrs.get(want[1], UNK) == UNK for s in done):
            # the value still depends on unassumed options: decide by case split over the cone of influence
            free = sorted(a for a in rel if a not in assume)
            if len(free) <= 12:
                import itertools
                done, rej = [], []
                for combo in itertools.product((T, F), repeat=len(free)):
                    a2 = dict(assume)
                    a2.update(zip(free, combo))
                    try:
                        it2, st2 = interpret(a2)
                    except Unsupported as u:
                        cx.error("abstract interpretation cannot handle the code: %s" % u, "C16.R5")
                        return
                    for s in st2:
                        if s.status == "running":
                            s.trace = ["case %s" % _fmt(dict(zip(free, combo)))] + s.trace
                            done.append(s)
                        elif s.status == "rejected":
                            rej.append(s)
        node = m.func("InsightsConfig._validate_options") if want[0] == "rejected" else m.func("InsightsConfig._imply_options")
        if want[0] == "rejected":
            if not done:
                cx.ok(node, "%s: every path (%d) ends in ValueError" % (title, len(rej)), construct="assume %s -> %d rejected, 0 accepted" % (_fmt(assume), len(rej)))
            else:
                s = done[0]
                cx.bad(node, "%s: the combination must be rejected with an error, but a path reaches the normal exit" % title,
                       construct="assume %s -> accepted" % _fmt(assume), path="decisions: " + "; ".join(s.trace[-14:]))
        else:
            _, attr, val = want
            bad = [s for s in done if s.attrs.get(attr, UNK) == (F if val == T else T)]
            unk = [s for s in done if s.attrs.get(attr, UNK) == UNK]
            if bad:
                s = bad[0]
                cx.bad(node, "%s: on an accepted path '%s' is definitely %s" % (title, attr, "falsy" if val == T else "truthy"),
                       construct="assume %s -> %s=%s" % (_fmt(assume), attr, s.attrs.get(attr)), path="decisions: " + "; ".join(s.trace[-14:]))
            elif unk:
                s = unk[0]
                cx.error("%s: cannot prove %s=%s on an accepted path (value unknown after: %s)" % (title, attr, val, "; ".join(s.trace[-8:])), "C16.R5")
            else:
                cx.ok(node, "%s: holds on all %d accepted paths (%d rejected)" % (title, len(done), len(rej)), construct="assume %s -> %s=%s on %d accepted paths" % (_fmt(assume), attr, val, len(done)))
    cx.extra["absint_peak_states"] = peak
    cx.extra["absint_obligations"] = len(obligations())


def _fmt(assume):
    return ", ".join("%s=%s" % (k, "true" if v == T else "false") for k, v in sorted(assume.items()))


def r6_constructor(cx):
    cx.rule("C16.R6", "the constructor applies defaults first and the same imply/validate discipline", floor=2)
    m = cx.repo.module(CFG)
    fn = m.func("InsightsConfig.__init__", "C16.R6")
    seq = [(n, c) for st, n, c in self_calls(fn)]
    names = [n for n, c in seq]
    cx.require(names[-2:] == ["_imply_options", "_validate_options"], fn, "__init__ ends with _imply_options(); _validate_options()", construct="%s" % names)
    ups = [c for n, c in seq if n == "_update_dict"] + [x for x in find_calls(fn.body, attr="_update_dict") if stmt_of(x) not in fn.body]
    first = [c for n, c in seq if n == "_update_dict"]
    cx.require(bool(first) and U(first[0].args[0]) == "DEFAULT_KVS", first[0] if first else fn, "built-in defaults are installed first (lowest layer)", construct=short(first[0]) if first else "(none)")


def run(cx):
    cx.extra["explanation"] = ("C16: call-order rule on load_all, argparse.SUPPRESS rule, unknown-key filter before the instance-dict update, coercion tables, and a path-sensitive abstract "
                               "interpretation of _imply_options ; _validate_options over the truthiness lattice that discharges the offline/output/obfuscation implication and rejection table "
                               "for all values of the other options at once.")
    cx.assumptions.append("C16.R5: opaque tests (os.path.exists(...), comparisons with constants, membership in tables) are assumed satisfiable both ways independently; "
                          "os.path.abspath(x) and x + <str> preserve truthiness; calls that are not methods of the class do not modify options.")
    cx.undecided = ["argparse's own parsing", "boolean spellings accepted by RawConfigParser.getboolean", "that no other code mutates the config after load_all"]
    cx.guard(r1_layering)
    cx.guard(r2_cli_suppress)
    cx.guard(r3_unknown_filtered)
    cx.guard(r4_coercion)
    cx.guard(r4b_env_names)
    cx.guard(r5_implication_table)
    cx.guard(r6_constructor)
