"""C14.R6 (table part) - every strptime-directive pattern accepts the full strftime range of its directive."""
from ..rx import Regex, Unsupported

RANGES = {
    "d": ["%02d" % i for i in range(1, 32)] + ["%2d" % i for i in range(1, 10)],
    # blank-padded one-digit values are what many logs carry (syslog day, old MariaDB hour) and what strptime accepts for these directives
    "m": ["%02d" % i for i in range(1, 13)] + ["%2d" % i for i in range(1, 10)],
    "H": ["%02d" % i for i in range(0, 24)] + ["%2d" % i for i in range(0, 10)],
    "I": ["%02d" % i for i in range(1, 13)] + ["%2d" % i for i in range(1, 10)],
    "M": ["%02d" % i for i in range(0, 60)],
    "S": ["%02d" % i for i in range(0, 61)],
    "y": ["%02d" % i for i in range(0, 100)],
    "Y": ["%04d" % i for i in (1, 999, 1000, 1969, 1970, 1999, 2000, 2024, 2038, 2099, 9999)] + ["%04d" % i for i in range(1990, 2060)],
    "f": ["%06d" % i for i in (0, 1, 9, 10, 99999, 100000, 123456, 999999)],
    "w": [str(i) for i in range(0, 7)],
}
NAMES = {
    "a": ["Mon", "Tue", "Wed", "Thu", "Fri", "Sat", "Sun"],
    "b": ["Jan", "Feb", "Mar", "Apr", "May", "Jun", "Jul", "Aug", "Sep", "Oct", "Nov", "Dec"],
    "A": ["Monday", "Wednesday", "Saturday"],
    "B": ["January", "September", "May"],
    "p": ["AM", "PM"],
}


def directive_table(cx, tnode, table):
    n = 0
    for d, words in sorted(list(RANGES.items()) + list(NAMES.items())):
        if d not in table:
            cx.bad(tnode, "strftime directive %%%s is in the conversion table" % d, construct="(missing '%s')" % d)
            continue
        pat = table[d]
        try:
            R = Regex(pat)
        except Unsupported as u:
            cx.unknown(tnode, "pattern for %%%s uses an unsupported construct: %s" % (d, u))
            continue
        except Exception as e:
            cx.bad(tnode, "pattern for %%%s is a valid regular expression" % d, construct="%r: %r" % (pat, e))
            continue
        miss = [w for w in words if not R.fullmatch(w)]
        n += len(words)
        cx.require(not miss, tnode, "the pattern for %%%s accepts every value strftime can produce for it (%d reference values)" % (d, len(words)),
                   construct="%%%s: %r%s" % (d, pat, (" rejects %s" % miss[:6]) if miss else ""))
    cx.extra["directive_reference_values"] = n
