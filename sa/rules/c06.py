"""C06 - collection stays in its root, honours the deny list, writes only beneath the archive."""
import ast

from ..model import (AnalysisError, FUNC_TYPES, U, call_attr, call_name, dotted, enclosing, enclosing_function, guard_texts, guards_ex,
                     short, walk_body, walk_local, ancestors, parent, const_str, kwarg)
from ..util import params, find_calls, assigns_to, trace, stmt_of, has_exit, syn_dominates

SF = "insights.core.spec_factory"
BL = "insights.core.blacklist"
DECL_FACTORIES = ["simple_file", "glob_file", "first_file", "foreach_collect", "simple_command", "command_with_args",
                  "foreach_execute", "container_execute", "container_collect"]
IO_CALLS = set(["open", "safe_open", "codecs.open", "io.open", "call", "check_output", "check_call", "Popen", "subprocess.call", "subprocess.check_output",
                "subprocess.Popen", "subprocess.check_call", "subprocess.run", "os.popen", "os.system", "streams.connect", "streams.stream"])
IO_ATTRS = set(["shell_out", "check_output", "connect", "stream", "read_text", "read_bytes"])


def provider_classes(cx, mods):
    """ContentProvider subclasses (ClassDef nodes) found in ``mods``."""
    out = []
    for m in mods:
        for q, c in m.classes():
            try:
                if cx.repo.is_subclass(c, SF + ":ContentProvider"):
                    out.append(c)
            except Exception:
                pass
    return out


def _derives(expr, fn, what):
    """Does ``expr`` trace (through locals) to os.path.realpath(self.<what>)?"""
    e = trace(expr, fn)
    t = U(e)
    return t in ("os.path.realpath(self.%s)" % what, "realpath(self.%s)" % what, "os.path.abspath(os.path.realpath(self.%s))" % what)


def _ends_in_sep(expr, fn):
    """Provably <real root> followed by a path separator?"""
    e = trace(expr, fn)
    if isinstance(e, ast.Call) and call_name(e) in ("os.path.join", "join") and len(e.args) == 2 and const_str(e.args[1]) == "" and _derives(e.args[0], fn, "root"):
        return True
    if isinstance(e, ast.BinOp) and isinstance(e.op, ast.Add) and U(e.right) in ("os.sep", "os.path.sep", "'/'"):
        l = e.left
        if _derives(l, fn, "root"):
            return True
        if isinstance(l, ast.Call) and call_attr(l) == "rstrip" and _derives(l.func.value, fn, "root"):
            return True
    return False


def r1_containment(cx, classes):
    cx.rule("C06.R1", "the root-containment test compares whole path components and its failing branch raises", floor=2)
    sf = cx.repo.module(SF)
    fp = sf.cls("FileProvider", "C06.R1")
    targets = []
    for c in classes:
        if cx.repo.is_subclass(c, SF + ":FileProvider"):
            for st in c.body:
                if isinstance(st, FUNC_TYPES) and st.name == "validate":
                    targets.append((c, st))
    if not any(c is fp for c, _ in targets):
        cx.bad(fp, "FileProvider defines validate() with the containment test", construct="(FileProvider.validate missing)")
        return
    for c, fn in targets:
        if c is not fp:
            sup = [x for x in find_calls(fn.body, attr="validate") if U(x.func.value).startswith("super(")]
            if sup and not guard_texts(sup[0]):
                cx.ok(fn, "override of validate delegates unconditionally to the inherited validate", construct="%s.validate" % c.name)
                continue
        cands = []
        for n in walk_body(fn.body):
            if isinstance(n, ast.Call):
                a = call_attr(n)
                cn = call_name(n)
                if a == "startswith" and isinstance(n.func, ast.Attribute) and _derives(n.func.value, fn, "path"):
                    cands.append(("startswith", n))
                elif cn in ("os.path.commonpath", "commonpath", "os.path.commonprefix", "commonprefix"):
                    cands.append((cn.split(".")[-1], n))
                elif cn in ("os.path.relpath", "relpath") and n.args and _derives(n.args[0], fn, "path"):
                    cands.append(("relpath", n))
                elif a in ("relative_to", "is_relative_to"):
                    cands.append((a, n))
        if not cands:
            cx.bad(fn, "%s.validate contains a test that the real path lies inside the real root (mechanism removed)" % c.name,
                   construct="def %s.validate (no containment test on realpath(self.path))" % c.name)
            continue
        for kind, n in cands:
            if kind == "startswith":
                arg = n.args[0] if n.args else None
                if arg is not None and _ends_in_sep(arg, fn):
                    cx.ok(n, "prefix test against the real root followed by a path separator (component-aware)")
                elif arg is not None and _derives(arg, fn, "root"):
                    cx.bad(n, "bare str.startswith(realpath(root)) is a text-prefix test: a sibling directory whose name extends the root's name passes (known-bad idiom)")
                    continue
                else:
                    cx.unknown(n, "startswith argument is neither <real root>+separator nor the bare real root")
                    continue
            elif kind == "commonprefix":
                cx.bad(n, "os.path.commonprefix is character based, not component based (known-bad idiom)")
                continue
            elif kind == "commonpath":
                cmpn = parent(n)
                ok = isinstance(cmpn, ast.Compare) and len(cmpn.ops) == 1 and isinstance(cmpn.ops[0], (ast.Eq, ast.NotEq)) and _derives(cmpn.comparators[0], fn, "root")
                if not ok:
                    cx.unknown(n, "commonpath result is not compared with the real root")
                    continue
                cx.ok(n, "commonpath([...]) compared with the real root (component-aware)")
            elif kind == "relpath":
                cx.ok(n, "relpath-based containment (component-aware)")
            else:
                cx.ok(n, "pathlib relative_to (component-aware)")
            # failing branch raises, and is not conditional on anything else
            iff = enclosing(n, ast.If)
            if iff is None or not any(x is n for x in ast.walk(iff.test)):
                cx.unknown(n, "containment test is not the condition of an if statement")
                continue
            raises = [r for r in iff.body if isinstance(r, ast.Raise)] or [r for r in iff.orelse if isinstance(r, ast.Raise)]
            cx.require(bool(raises), iff, "the branch for an out-of-root path raises", construct="if %s: ..." % short(iff.test, 100))
            if raises:
                g = guards_ex(raises[0])
                extra = [(U(e), p, o) for e, p, o in g if o in ("nest", "exit-return", "exit-jump", "exit-other") and not any(x is n for x in ast.walk(e)) and
                         "resolved" not in U(e) and "realpath" not in U(e)]
                # atoms belonging to the containment condition itself are those inside iff.test
                test_atoms = set()
                from ..model import _flatten_atom
                tmp = []
                _flatten_atom(iff.test, True, tmp)
                test_atoms = set(U(e) for e, p in tmp)
                extra = [x for x in extra if x[0] not in test_atoms]
                cx.require(not extra, raises[0], "the containment check applies in every context (no other condition lets an out-of-root path through)",
                           construct="raise guarded additionally by %s" % extra if extra else short(raises[0]))


def init_chain_calls_validate(cx, c):
    """Walk the __init__ chain of provider class ``c``; return (ok, why, node)."""
    repo = cx.repo
    cur = c
    after = None
    for _ in range(8):
        kc, init = repo.lookup_method(cur, "__init__", after=after)
        if init is None:
            return False, "no __init__ found", c
        # unconditional top-level self.validate()
        for st in init.body:
            if isinstance(st, ast.Expr) and isinstance(st.value, ast.Call) and U(st.value.func) == "self.validate":
                return True, "%s.__init__ calls self.validate() unconditionally" % kc.name, st
        sup = [st for st in init.body if isinstance(st, ast.Expr) and isinstance(st.value, ast.Call) and call_attr(st.value) == "__init__" and U(st.value.func.value).startswith("super(")]
        cond = [x for x in find_calls(init.body, attr="validate") if U(x.func) == "self.validate"]
        if cond:
            return False, "%s.__init__ calls self.validate() only conditionally" % kc.name, cond[0]
        if not sup:
            return False, "%s.__init__ neither validates nor delegates to a validating base constructor" % kc.name, init
        after = kc
        cur = c
    return False, "constructor chain too deep", c


def r2_validation(cx, classes):
    cx.rule("C06.R2", "every provider that can read a file or run a command validates (deny list, filters) on every constructor path", floor=12)
    sf = cx.repo.module(SF)
    repo = cx.repo
    for c in classes:
        name = c.name
        if name in ("ContentProvider",):
            continue
        if name == "DatasourceProvider" and c._mod.name == SF:
            cx.ok(c, "DatasourceProvider carries ready-made content (reads no file, runs no command): exempt", construct="class DatasourceProvider")
            continue
        ok, why, node = init_chain_calls_validate(cx, c)
        cx.require(ok, node, "constructing %s always runs validate(): %s" % (name, why), construct="%s: %s" % (name, why))
        # overrides of validate outside the two base classes
        for st in c.body:
            if isinstance(st, FUNC_TYPES) and st.name == "validate" and name not in ("FileProvider", "CommandOutputProvider"):
                sup = [x for x in find_calls(st.body, attr="validate") if U(x.func.value).startswith("super(")]
                cx.require(bool(sup) and not guard_texts(sup[0]), st, "an override of validate() keeps the inherited checks (calls super().validate() unconditionally)",
                           construct="def %s.validate" % name)
    for cname, allow, arg in (("FileProvider", "allow_file", "'/' + self.relative_path"), ("CommandOutputProvider", "allow_command", "self.cmd")):
        fn = sf.func("%s.validate" % cname, "C06.R2")
        host = ("isinstance(self.ctx, HostContext)", True)
        # deny list
        raises = [r for r in walk_body(fn.body) if isinstance(r, ast.Raise) and r.exc is not None and "BlacklistedSpec" in U(r.exc)]
        if not raises:
            cx.bad(fn, "%s.validate raises BlacklistedSpec for deny-listed items" % cname, construct="(no raise BlacklistedSpec)")
        for r in raises:
            g = guards_ex(r)
            atoms = set((U(e), p) for e, p, o in g if o in ("nest", "exit-return", "exit-jump"))
            want = ("blacklist.%s(%s)" % (allow, arg), False)
            harmful = [(U(e), p, o) for e, p, o in g if (U(e), p) not in (host, want) and o != "exit-raise"]
            cx.require(host in atoms and want in atoms and not harmful, r,
                       "under HostContext, 'not blacklist.%s(%s)' alone leads to BlacklistedSpec (no further condition can let a deny-listed item through)" % (allow, arg),
                       construct="raise BlacklistedSpec guarded by %s" % sorted((U(e), p) for e, p, o in g if o != "exit-raise"))
        # no filters
        raises = [r for r in walk_body(fn.body) if isinstance(r, ast.Raise) and r.exc is not None and "NoFilterException" in U(r.exc)]
        if not raises:
            cx.bad(fn, "%s.validate refuses a filterable spec without filters (NoFilterException)" % cname, construct="(no raise NoFilterException)")
        for r in raises:
            g = guards_ex(r)
            atoms = set((U(e), p) for e, p, o in g if o in ("nest", "exit-return", "exit-jump"))
            want = set([host, ("self._filterable", True), ("self._filters", False)])
            harmful = [(U(e), p, o) for e, p, o in g if (U(e), p) not in want and o != "exit-raise"]
            cx.require(want <= atoms and not harmful, r, "under HostContext, 'filterable and no filters' alone leads to NoFilterException",
                       construct="raise NoFilterException guarded by %s" % sorted((U(e), p) for e, p, o in g if o != "exit-raise"))
        # the deny checks come before anything is opened/executed in validate itself
    filterable_provenance(cx, sf, "C06.R2")


def filterable_provenance(cx, sf, rid):
    """_filterable is 'any registry point of the datasource is filterable' over dr.get_registry_points (transitive), _filters the look-up for the same datasource,
    both computed before validate() runs (shared by C06.R2 and C07.R4)."""
    for cname in ("FileProvider", "CommandOutputProvider"):
        init = sf.func("%s.__init__" % cname, rid)
        f1 = [a for a in walk_body(init.body) if isinstance(a, ast.Assign) and U(a.targets[0]) == "self._filterable"]
        f2 = [a for a in walk_body(init.body) if isinstance(a, ast.Assign) and U(a.targets[0]) == "self._filters"]
        ok1 = len(f1) == 1 and "s.filterable for s in dr.get_registry_points(self.ds)" in U(f1[0].value) and U(f1[0].value).startswith("any(")
        ok2 = len(f2) == 1 and U(f2[0].value).startswith("filters.get_filters(self.ds")
        vcall = [st for st in init.body if isinstance(st, ast.Expr) and isinstance(st.value, ast.Call) and U(st.value.func) == "self.validate"]
        order = bool(vcall) and all(syn_dominates(a, vcall[0]) for a in f1 + f2)
        cx.require(ok1 and ok2 and order, init, "%s computes _filterable (any registry point filterable, over the whole dependent tree) and _filters (get_filters(ds)) before validate()" % cname,
                   construct="%s; %s" % (short(f1[0], 90) if f1 else "?", short(f2[0], 70) if f2 else "?"))


def r3_no_direct_io(cx):
    cx.rule("C06.R3", "declarative factories touch files and commands only through provider objects", floor=9)
    sf = cx.repo.module(SF)
    # every class that registers its instances as datasources is a factory, whether it is one of the nine frozen declarative kinds or a new one
    others = []
    for q, c in sf.classes():
        if q in DECL_FACTORIES or "." in q:
            continue
        regs = False
        try:
            chain = cx.repo.mro(c)
        except Exception:
            chain = [c]
        for kc_ in chain:
            init_ = [st for st in kc_.body if isinstance(st, FUNC_TYPES) and st.name == "__init__"]
            if init_:
                regs = any(isinstance(x, ast.Call) and isinstance(x.func, ast.Call) and (call_attr(x.func) == "datasource" or call_name(x.func) == "datasource") for x in ast.walk(init_[0]))
                break
        if regs:
            others.append(q)
    for name in DECL_FACTORIES + others:
        c = sf.cls(name, "C06.R3")
        kc, call = cx.repo.lookup_method(c, "__call__")
        if call is None:
            if name in DECL_FACTORIES:
                cx.unknown(c, "factory without __call__")
            continue
        bad = []
        for x in find_calls(call.body):
            cn = call_name(x)
            a = call_attr(x)
            if cn in IO_CALLS or (isinstance(x.func, ast.Attribute) and a in IO_ATTRS):
                bad.append(x)
        if bad:
            for x in bad:
                cx.bad(x, "factory %s.__call__ opens/executes directly instead of going through a validating provider (deny list and containment bypassed)" % name)
            continue
        if name not in DECL_FACTORIES:
            cx.ok(call, "factory %s.__call__ does not open or execute anything directly" % name, construct="%s.__call__" % name)
            continue
        ctor = [x for x in find_calls(call.body) if U(x.func) == "self.kind" or (isinstance(x.func, ast.Name) and x.func.id.endswith("Provider"))]
        cx.require(bool(ctor), call, "factory %s builds its result from provider constructors only" % name,
                   construct="%s.__call__ -> %s" % (name, ", ".join(sorted(set(U(x.func) for x in ctor))) or "(no provider constructed)"))


def _pred_ok(P, c, f, fn):
    """Is P(c, f) 'c equals f, or c starts with f followed by a space'?"""
    t = U(P)
    accepted = set([
        "%s == %s or %s.startswith(%s + ' ')" % (c, f, c, f),
        "%s.startswith(%s + ' ') or %s == %s" % (c, f, c, f),
        "%s == %s or %s.startswith('%%s ' %% %s)" % (c, f, c, f),
    ])
    if t in accepted:
        return True
    if isinstance(P, ast.BoolOp) and isinstance(P.op, ast.And) and len(P.values) == 2:
        a, b = P.values
        if U(a) != "%s.startswith(%s)" % (c, f):
            return False
        if not (isinstance(b, ast.BoolOp) and isinstance(b.op, ast.Or) and len(b.values) == 2):
            return False
        x, y = b.values
        if not (isinstance(x, ast.Compare) and isinstance(x.ops[0], ast.Eq)):
            return False
        cl = trace(x.left, fn)
        eq = U(cl) == "len(%s)" % c and U(x.comparators[0]) == "len(%s)" % f
        sp = U(y) == "%s[len(%s)] == ' '" % (c, f)
        return eq and sp
    return False


def _matcher_ok(fn, setname, repo=None):
    rets = [r for r in walk_body(fn.body) if isinstance(r, ast.Return)]
    if len(rets) != 1:
        return False, "expected a single return"
    v = rets[0].value
    c = params(fn)[0]
    if not (isinstance(v, ast.UnaryOp) and isinstance(v.op, ast.Not) and isinstance(v.operand, ast.Call)):
        return False, "expected 'return not <some deny entry matches>'"
    call = v.operand
    if call_name(call) == "any":
        gen = call.args[0]
        if not isinstance(gen, (ast.GeneratorExp, ast.ListComp)) or len(gen.generators) != 1:
            return False, "expected one generator"
        g = gen.generators[0]
        if U(g.iter) != setname or g.ifs:
            return False, "iterates %s, expected %s without filter" % (U(g.iter), setname)
        ok = _pred_ok(gen.elt, c, U(g.target), fn)
        return ok, "" if ok else "per-entry test is '%s', expected 'equal, or prefix followed by a space'" % U(gen.elt)
    # a shared helper: helper(c, SET)
    if repo is not None and isinstance(call.func, ast.Name) and len(call.args) == 2 and U(call.args[0]) == c and U(call.args[1]) == setname:
        r = repo.resolve(call.func)
        if r[0] == "def" and isinstance(r[3], FUNC_TYPES):
            h = r[3]
            hc, hs = params(h)[:2]
            body = [s for s in h.body if not (isinstance(s, ast.Expr) and isinstance(s.value, ast.Constant))]
            # form 1: return any(P for e in entries)
            if len(body) == 1 and isinstance(body[0], ast.Return) and isinstance(body[0].value, ast.Call) and call_name(body[0].value) == "any":
                gen = body[0].value.args[0]
                g = gen.generators[0]
                ok = U(g.iter) == hs and not g.ifs and _pred_ok(gen.elt, hc, U(g.target), h)
                return ok, "" if ok else "helper per-entry test is '%s'" % U(gen.elt)
            # form 2: for e in entries: if P: return True ; return False
            if len(body) == 2 and isinstance(body[0], ast.For) and U(body[0].iter) == hs and isinstance(body[1], ast.Return) and U(body[1].value) == "False":
                lp = body[0]
                if len(lp.body) == 1 and isinstance(lp.body[0], ast.If) and not lp.body[0].orelse and len(lp.body[0].body) == 1 and U(lp.body[0].body[0]) == "return True":
                    ok = _pred_ok(lp.body[0].test, hc, U(lp.target), h)
                    return ok, "" if ok else "helper per-entry test is '%s'" % U(lp.body[0].test)
                return False, "the helper must keep looking at the other entries when one entry does not match (return only on a match)"
    return False, "deny test not recognised: %s" % U(v)


def r4_deny_matcher(cx):
    cx.rule("C06.R4", "deny-list matching and the routing of the user's deny configuration", floor=7)
    bl = cx.repo.module(BL)
    for fname, setname, adder in (("allow_file", "_FILE_FILTERS", "add_file"), ("allow_command", "_COMMAND_FILTERS", "add_command")):
        fn = bl.func(fname, "C06.R4")
        ok, why = _matcher_ok(fn, setname, cx.repo)
        cx.require(ok, fn, "%s denies an item equal to a deny entry or starting with it followed by a space%s" % (fname, "" if ok else " (%s)" % why),
                   construct=short(fn.body[-1], 150))
        ad = bl.func(adder, "C06.R4")
        adds = find_calls(ad.body, attr="add")
        cx.require(len(adds) == 1 and U(adds[0].func.value) == setname and U(adds[0].args[0]) == params(ad)[0] and not guard_texts(adds[0]), ad,
                   "%s stores the entry in %s" % (adder, setname), construct=short(adds[0]) if adds else "(no add)")
    co = cx.repo.module("insights.collect")
    ab = co.func("apply_blacklist", "C06.R4")
    for key, sink in (("files", "add_file"), ("commands", "add_command")):
        loops = [s for s in ab.body if isinstance(s, ast.For) and isinstance(s.iter, ast.Call) and call_attr(s.iter) == "get" and s.iter.args and const_str(s.iter.args[0]) == key]
        if not loops:
            cx.bad(ab, "apply_blacklist iterates the '%s' section of the deny configuration" % key, construct="(no loop over cfg.get('%s'))" % key)
            continue
        lp = loops[0]
        tv = U(lp.target)
        calls = [x for x in find_calls(lp.body) if call_attr(x) in ("add_file", "add_command", "add_pattern", "add_keyword")]
        ok = len(calls) == 1 and call_attr(calls[0]) == sink and U(calls[0].args[0]) == tv and not has_exit(lp.body)
        if ok:
            g = guard_texts(calls[0], stop=lp)
            ok = g <= set([("_check_and_skip_component(%s)" % tv, False)])
        cx.require(ok, calls[0] if calls else lp, "every '%s' entry that is not a symbolic spec name is added with blacklist.%s" % (key, sink),
                   construct=short(calls[0]) if calls else "(no blacklist.%s)" % sink)
    sk = [n for n in ab.body if isinstance(n, FUNC_TYPES) and n.name == "_skip_component"]
    ok = False
    if sk:
        se = find_calls(sk[0].body, attr="set_enabled")
        ok = len(se) == 1 and U(se[0].args[0]) == params(sk[0])[0] and (U(kwarg(se[0], "enabled")) == "False" if kwarg(se[0], "enabled") is not None else (len(se[0].args) > 1 and U(se[0].args[1]) == "False"))
    cx.require(ok, sk[0] if sk else ab, "components / symbolic names on the deny list are disabled (dr.set_enabled(component, enabled=False))",
               construct=short(se[0]) if sk and se else "(no set_enabled(..., False))")


def serializer_functions(cx, mods):
    out = []
    for m in mods:
        for q, fn in m.functions():
            for d in fn.decorator_list:
                if isinstance(d, ast.Call) and call_name(d) in ("serializer", "serde.serializer") and d.args:
                    out.append((m, fn, d.args[0]))
    return out


def _rel_sources_ok(e, obj):
    """Is ``e`` built only from obj.relative_path / obj.save_as / basename / relative constants / rel?"""
    if isinstance(e, ast.Constant) and isinstance(e.value, str):
        return not e.value.startswith("/") and ".." not in e.value
    t = U(e)
    if t in ("%s.relative_path" % obj, "%s.save_as" % obj, "rel", "os.path.basename(%s.relative_path)" % obj):
        return True
    if isinstance(e, ast.Call) and call_name(e) in ("os.path.join",):
        return all(_rel_sources_ok(a, obj) for a in e.args)
    if isinstance(e, ast.IfExp):
        return _rel_sources_ok(e.body, obj) and _rel_sources_ok(e.orelse, obj)
    if isinstance(e, ast.BoolOp):
        return all(_rel_sources_ok(v, obj) for v in e.values)
    return False


def r5_destinations(cx, mods, classes):
    cx.rule("C06.R5", "persisted files are created beneath the given root: destinations are root-joined and built from sanitised relative names", floor=25)
    sf = cx.repo.module(SF)
    sers = [(m, fn, t) for m, fn, t in serializer_functions(cx, mods)]
    prov_sers = []
    for m, fn, t in sers:
        r = cx.repo.resolve(t)
        if r[0] == "def" and isinstance(r[3], ast.ClassDef) and cx.repo.is_subclass(r[3], SF + ":ContentProvider"):
            prov_sers.append((m, fn, r[3]))
    if len(prov_sers) < 6:
        cx.error("expected at least 6 provider serializers, found %d" % len(prov_sers))
    for m, fn, c in prov_sers:
        ps = params(fn)
        obj, root = ps[0], ps[1]
        writes = [x for x in find_calls(fn.body, attr="write") if U(x.func.value) == obj]
        if len(writes) != 1:
            cx.bad(fn, "serializer of %s writes the content exactly once through obj.write(dst)" % c.name, construct="%d obj.write calls" % len(writes))
            continue
        dst = trace(writes[0].args[0], fn)
        ok = isinstance(dst, ast.Call) and call_name(dst) == "os.path.join" and len(dst.args) == 2 and U(dst.args[0]) == root
        cx.require(ok, writes[0], "serializer of %s writes to os.path.join(<given root>, rel)" % c.name, construct="dst = %s" % short(dst))
        if not ok:
            continue
        relname = U(dst.args[1])
        for a in assigns_to(fn, relname):
            cx.require(_rel_sources_ok(a.value, obj), a, "'%s' is built only from the provider's relative_path / save_as / basename and relative constant directories" % relname)
        other = [x for x in find_calls(fn.body) if call_name(x) in IO_CALLS]
        cx.require(not other, other[0] if other else fn, "serializer of %s creates files only through obj.write" % c.name, construct=short(other[0]) if other else "no direct file creation in %s" % fn.name)
    # sanitised sources: stores to self.relative_path / self.save_as
    for c in classes:
        for st in ast.walk(c):
            if isinstance(st, ast.Assign):
                for t in st.targets:
                    if U(t) == "self.relative_path":
                        cx.require(_sanitised(st.value), st, "%s stores a relative_path that cannot be absolute (lstrip('/'), mangle_command, or a join of such parts)" % c.name)
    for name in DECL_FACTORIES:
        c = sf.cls(name, "C06.R5")
        for st in ast.walk(c):
            if isinstance(st, ast.Assign) and any(U(t) == "self.save_as" for t in st.targets):
                cx.require(_sanitised_save_as(st.value), st, "factory %s strips leading '/' from save_as (a joined destination cannot discard the root)" % name)
    # mangle_command maps '/' away
    mg = cx.repo.module("insights.util.mangle")
    fn = mg.func("mangle_command", "C06.R5")
    # taint "may contain '/'" through the function: the parameter is tainted; replacing '/' by a slash-free constant cleans; slicing, stripping and
    # substitutions of other patterns by slash-free constants preserve; everything else taints
    tainted = dict((p_, True) for p_ in params(fn))

    def _pattern_of(e):
        """Literal regex of a pattern argument / compiled-pattern receiver, or None."""
        if const_str(e) is not None:
            return const_str(e)
        if isinstance(e, ast.Name) and mg.top.get(e.id) is not None:
            v = mg.top.get(e.id)
            if isinstance(v, ast.Call) and call_name(v) == "re.compile" and v.args:
                return const_str(v.args[0])
        if isinstance(e, ast.IfExp):
            a_, b_ = _pattern_of(e.body), _pattern_of(e.orelse)
            return a_ if a_ is not None and b_ is not None and ((a_ == "/") == (b_ == "/")) else None
        if isinstance(e, ast.Name):
            ds = [a for a in walk_body(fn.body) if isinstance(a, ast.Assign) and U(a.targets[0]) == e.id]
            ps_ = [_pattern_of(a.value) for a in ds]
            if ps_ and all(x is not None for x in ps_) and len(set(x == "/" for x in ps_)) == 1:
                return ps_[0]
        return None

    def _may_slash(e):
        if isinstance(e, ast.Constant):
            return isinstance(e.value, str) and "/" in e.value
        if isinstance(e, ast.Name):
            return tainted.get(e.id, True)
        if isinstance(e, ast.Subscript):
            return _may_slash(e.value)
        if isinstance(e, ast.Call):
            a = call_attr(e)
            if call_name(e) == "re.sub" and len(e.args) >= 3:
                pat, repl, subj = e.args[0], e.args[1], e.args[2]
                if _may_slash(repl):
                    return True
                return False if _pattern_of(pat) == "/" else _may_slash(subj)
            if a == "sub" and isinstance(e.func, ast.Attribute) and len(e.args) >= 2 and _pattern_of(e.func.value) is not None:
                repl, subj = e.args[0], e.args[1]
                if _may_slash(repl):
                    return True
                return False if _pattern_of(e.func.value) == "/" else _may_slash(subj)
            if a == "replace" and isinstance(e.func, ast.Attribute) and len(e.args) == 2:
                if _may_slash(e.args[1]):
                    return True
                return False if const_str(e.args[0]) == "/" else _may_slash(e.func.value)
            if a in ("strip", "lstrip", "rstrip", "lower", "upper") and isinstance(e.func, ast.Attribute):
                return _may_slash(e.func.value)
        return True
    rets_clean = []
    stmts = sorted([x for x in walk_body(fn.body) if isinstance(x, (ast.Assign, ast.Return))], key=lambda x: (x.lineno, x.col_offset))
    for st_ in stmts:
        if isinstance(st_, ast.Assign) and isinstance(st_.targets[0], ast.Name):
            new_ = _may_slash(st_.value)
            nested = enclosing(st_, (ast.If, ast.For, ast.While, ast.Try)) is not None
            tainted[st_.targets[0].id] = (tainted.get(st_.targets[0].id, False) or new_) if nested else new_
        elif isinstance(st_, ast.Return) and st_.value is not None:
            rets_clean.append(not _may_slash(st_.value))
    ok = bool(rets_clean) and all(rets_clean)
    cx.require(ok, fn, "mangle_command replaces every '/' and nothing re-introduces one afterwards (a mangled command is a single file name)",
               construct="'/' taint of the returned value: %s" % ["clean" if c_ else "may contain '/'" for c_ in rets_clean])
    # who may create files in spec_factory / serde
    allowed = set([(SF, "ContentProvider.write"), (SF, "RawFileProvider.write"), ("insights.core.serde", "Hydration.dehydrate")])
    for mn in (SF, "insights.core.serde"):
        m = cx.repo.module(mn)
        for n in ast.walk(m.tree):
            if not isinstance(n, ast.Call):
                continue
            cn = call_name(n)
            creates = False
            if cn in ("open", "safe_open", "codecs.open", "io.open"):
                mode = n.args[1] if len(n.args) > 1 else kwarg(n, "mode")
                mv = const_str(mode) if mode is not None else "r"
                creates = mv is None or any(ch in mv for ch in "wax+")
            elif cn in ("fs.ensure_path", "os.makedirs", "os.mkdir", "shutil.copy", "shutil.copy2", "shutil.copyfile", "shutil.move", "os.rename", "os.replace", "os.symlink", "os.link",
                        "tempfile.NamedTemporaryFile", "tempfile.TemporaryFile", "tempfile.mkstemp", "tempfile.mkdtemp", "tempfile.SpooledTemporaryFile", "NamedTemporaryFile", "mkstemp", "mkdtemp"):
                creates = True
            elif cn == "call" and n.args and "cp" in U(n.args[0]):
                creates = True
            if creates:
                fn = enclosing_function(n)
                q = getattr(fn, "_qual", "<module>")
                if (mn, q) in allowed and q.endswith(".write"):
                    # inside the two writers every created path must derive from the destination parameter
                    dstp = params(fn)[1]
                    names = set(x.id for a in list(n.args) + [k.value for k in n.keywords] for x in ast.walk(a) if isinstance(x, ast.Name))
                    if cn == "call":
                        # the copy command: cp <source> <destination>, nothing else - an option that stops following links (-a, -d, -P, -R, --no-dereference ...)
                        # stores the link itself, and the next file saved at that archive path is then written through it, outside the archive
                        argv = trace(n.args[0], fn) if isinstance(n.args[0], ast.Name) else n.args[0]
                        okv = isinstance(argv, (ast.List, ast.Tuple)) and len(argv.elts) == 3 and U(argv.elts[2]) == dstp and not any(isinstance(e_, ast.Starred) for e_ in argv.elts)
                        cx.require(okv, n, "%s copies with 'cp <source> <destination>' and no option (links are followed: a regular file is stored)" % q, construct=short(n, 100))
                    cx.require(dstp in names, n, "%s creates files only at (or beneath the directory of) the destination it was given; a scratch file elsewhere (e.g. the system temp directory) leaves collected content outside the archive when a fault hits before the move" % q,
                               construct="%s in %s" % (short(n, 90), q))
                    continue
                cx.require((mn, q) in allowed, n, "files are created only by ContentProvider.write, RawFileProvider.write and Hydration.dehydrate, each under the root it was given",
                           construct="%s in %s" % (short(n, 80), q))
    # DatasourceProvider call sites: literal save_as must be relative (INFO sweep)
    n_sites = 0
    for m in mods:
        for n in ast.walk(m.tree):
            if isinstance(n, ast.Call) and call_attr(n) == "DatasourceProvider":
                n_sites += 1
                sa = kwarg(n, "save_as")
                if sa is not None and const_str(sa) is not None and const_str(sa).startswith("/"):
                    cx.bad(n, "a DatasourceProvider is constructed with an absolute literal save_as (the join with the archive root would discard the root)")
    cx.extra["datasource_provider_sites_swept_for_absolute_save_as"] = n_sites


def _sanitised(e):
    if isinstance(e, ast.Constant) and e.value is None:
        return True
    if isinstance(e, ast.Call):
        a = call_attr(e)
        if a == "lstrip" and e.args and const_str(e.args[0]) == "/":
            return True
        if call_name(e) == "mangle_command":
            return True
        if call_name(e) == "os.path.join" and len(e.args) >= 2:
            return all(_sanitised(x) or (isinstance(x, ast.Constant) and isinstance(x.value, str) and not x.value.startswith("/")) for x in e.args[1:])
    return False


def _sanitised_save_as(e):
    if isinstance(e, ast.IfExp):
        return _sanitised_save_as(e.body) and (U(e.orelse) == "None")
    if isinstance(e, ast.Call):
        a = call_attr(e)
        if a in ("lstrip", "strip") and e.args and const_str(e.args[0]) == "/":
            return True
        if call_name(e) == "os.path.join" and len(e.args) == 2 and const_str(e.args[1]) == "":
            return _sanitised_save_as(e.args[0])
    if isinstance(e, ast.Constant) and e.value is None:
        return True
    return False


def run(cx):
    repo = cx.repo
    cx.extra["explanation"] = ("C06: idiom rule on the containment test (semantic-role candidates), must-call of validate() on every provider constructor chain, exact guards of the "
                               "deny-list and no-filter refusals, who-may-call for direct I/O in factories, shape of the deny matcher and its configuration routing, "
                               "taint of persisted destinations (root-joined, sanitised relative names), who-may-create-files.")
    cx.undecided = ["'..' segments inside relative_path at write time", "symlink races between validate() and load()", "non-declarative datasources calling shell_out themselves",
                    "DatasourceProvider.save_as is caller supplied (literal call-site sweep only)"]
    anchor = [repo.module(SF), repo.module(BL), repo.module("insights.collect"), repo.module("insights.core.serde"), repo.module("insights.util.mangle")]
    if cx.tier == "thorough":
        mods = repo.all_modules()
    else:
        mods = anchor + [repo.module(n) for n in repo.module_names("insights.specs.datasources")]
    classes = provider_classes(cx, mods)
    if len(classes) < 10:
        cx.error("expected at least 10 ContentProvider classes, found %d" % len(classes), "C06.R2")
    cx.guard(r1_containment, classes)
    cx.guard(r2_validation, classes)
    cx.guard(r3_no_direct_io)
    cx.guard(r4_deny_matcher)
    cx.guard(r5_destinations, mods, classes)
