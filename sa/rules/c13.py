"""C13 - package version comparison is RPM's ordering (operator coherence, field order, look-ups)."""
import ast

from ..model import (AnalysisError, FUNC_TYPES, U, call_attr, call_name, dotted, enclosing, guard_texts, short, walk_body, const_str, parent)
from ..util import params, find_calls, assigns_to, trace, stmt_of
from ..absint import unroll_literal_loops
from .. import feat

IR = "insights.parsers.installed_rpms"
RV = "insights.parsers.rpm_vercmp"
OPS = {"__eq__": lambda s: s == 0, "__ne__": lambda s: s != 0, "__lt__": lambda s: s < 0, "__le__": lambda s: s <= 0, "__gt__": lambda s: s > 0, "__ge__": lambda s: s >= 0}
SYM = {"__eq__": ast.Eq, "__ne__": ast.NotEq, "__lt__": ast.Lt, "__le__": ast.LtE, "__gt__": ast.Gt, "__ge__": ast.GtE}


class Unknown(Exception):
    pass


class FieldAccess(Exception):
    """The operator reads package fields itself instead of deriving from the one comparison."""


class _Return(Exception):
    def __init__(self, v):
        self.v = v


class _Raised(Exception):
    pass


def _cmp(op, a, b):
    if isinstance(op, ast.Eq):
        return a == b
    if isinstance(op, ast.NotEq):
        return a != b
    if isinstance(op, ast.Lt):
        return a < b
    if isinstance(op, ast.LtE):
        return a <= b
    if isinstance(op, ast.Gt):
        return a > b
    if isinstance(op, ast.GtE):
        return a >= b
    raise Unknown("comparison operator %s" % type(op).__name__)


class OpInterp(object):
    """Abstract evaluation of the rich comparison methods of InstalledRpm for one sign ``s`` of
    rpm_version_compare(self, other); operands are same-named InstalledRpm instances."""

    def __init__(self, cls, s):
        self.cls = cls
        self.s = s
        self.methods = dict((st.name, st) for st in cls.body if isinstance(st, FUNC_TYPES))
        self.depth = 0

    def call(self, name, swapped):
        if name not in self.methods:
            raise Unknown("method %s not defined" % name)
        self.depth += 1
        if self.depth > 12:
            raise Unknown("recursion too deep in %s" % name)
        fn = self.methods[name]
        ps = params(fn)
        env = {ps[0]: "B" if swapped else "A", ps[1]: "A" if swapped else "B"}
        try:
            self.block(fn.body, env)
            r = None
        except _Return as e:
            r = e.v
        self.depth -= 1
        return r

    def block(self, stmts, env):
        for st in stmts:
            if isinstance(st, ast.Expr) and isinstance(st.value, ast.Constant):
                continue
            if isinstance(st, ast.If):
                if self.ev(st.test, env):
                    self.block(st.body, env)
                else:
                    self.block(st.orelse, env)
            elif isinstance(st, ast.Return):
                raise _Return(self.ev(st.value, env) if st.value is not None else None)
            elif isinstance(st, ast.Raise):
                raise _Raised()
            elif isinstance(st, ast.Assign) and len(st.targets) == 1 and isinstance(st.targets[0], ast.Name):
                env[st.targets[0].id] = self.ev(st.value, env)
            else:
                raise Unknown("statement %s" % short(st))

    def orient(self, a, b, env):
        """+1 if (a, b) is (self, other) orientation A,B ; -1 if B,A."""
        x, y = env.get(U(a)), env.get(U(b))
        if (x, y) == ("A", "B"):
            return 1
        if (x, y) == ("B", "A"):
            return -1
        raise Unknown("operands %s, %s" % (U(a), U(b)))

    def ev(self, e, env):
        if isinstance(e, ast.Constant):
            return e.value
        if isinstance(e, ast.Name):
            if e.id in env and env[e.id] not in ("A", "B"):
                return env[e.id]
            raise Unknown("name %s" % e.id)
        if isinstance(e, ast.UnaryOp) and isinstance(e.op, ast.Not):
            return not self.ev(e.operand, env)
        if isinstance(e, ast.UnaryOp) and isinstance(e.op, ast.USub):
            return -self.ev(e.operand, env)
        if isinstance(e, ast.BoolOp):
            if isinstance(e.op, ast.And):
                v = True
                for x in e.values:
                    v = self.ev(x, env)
                    if not v:
                        return v
                return v
            v = False
            for x in e.values:
                v = self.ev(x, env)
                if v:
                    return v
            return v
        if isinstance(e, ast.Call):
            n = call_name(e)
            if n == "isinstance" and U(e.args[0]) in env:
                return True
            if n in ("rpm_version_compare",) and len(e.args) == 2:
                return self.s * self.orient(e.args[0], e.args[1], env)
            if isinstance(e.func, ast.Attribute) and e.func.attr in OPS and len(e.args) == 1:
                o = self.orient(e.func.value, e.args[0], env)
                return self.call(e.func.attr, swapped=(o == -1))
            raise Unknown("call %s" % short(e))
        if isinstance(e, ast.Compare) and len(e.ops) == 1:
            l, r = e.left, e.comparators[0]
            lt, rt = U(l), U(r)
            # self.name != other.name  (same-named operands)
            if isinstance(l, ast.Attribute) and isinstance(r, ast.Attribute) and l.attr == r.attr == "name":
                return _cmp(e.ops[0], 0, 0)
            if lt in env and rt in env and env[lt] in ("A", "B") and env[rt] in ("A", "B"):
                # self == other etc. -> the class's own operator
                for nm, k in SYM.items():
                    if isinstance(e.ops[0], k):
                        o = self.orient(l, r, env)
                        return self.call(nm, swapped=(o == -1))
                if isinstance(e.ops[0], ast.Is):
                    return False
            return _cmp(e.ops[0], self.ev(l, env), self.ev(r, env))
        if any(isinstance(n, ast.Attribute) and isinstance(n.value, ast.Name) and env.get(n.value.id) in ("A", "B") and not n.attr.startswith("__") and n.attr != "name"
               and not (isinstance(parent(n), ast.Call) and parent(n).func is n)
               for n in ast.walk(e)):
            raise FieldAccess(short(e, 90))
        raise Unknown("expression %s" % short(e))


def r1_operator_coherence(cx):
    cx.rule("C13.R1", "all six rich comparison operators agree with the sign of one comparison", floor=18)
    m = cx.repo.module(IR)
    cls = m.cls("InstalledRpm", "C13.R1")
    total = any("total_ordering" in U(d) for d in cls.decorator_list)
    defined = set(st.name for st in cls.body if isinstance(st, FUNC_TYPES))
    for name, expect in sorted(OPS.items()):
        if name not in defined:
            if total and name not in ("__eq__",):
                cx.ok(cls, "%s derived by functools.total_ordering" % name, construct="@total_ordering")
                continue
            if name == "__ne__":
                cx.ok(cls, "__ne__ defaults to the negation of __eq__ (Python 3)", construct="(no __ne__)")
                continue
            cx.bad(cls, "InstalledRpm defines %s" % name, construct="(missing %s)" % name)
            continue
        for s in (-1, 0, 1):
            try:
                got = OpInterp(cls, s).call(name, swapped=False)
            except _Raised:
                cx.bad(cls, "%s does not raise for same-named packages" % name, construct="%s with compare=%d raises" % (name, s))
                continue
            except FieldAccess as fa:
                cx.bad(m.get("InstalledRpm." + name), "%s is derived from rpm_version_compare alone, like the other operators; deciding on a field of the packages (version text, arch, ...) makes it disagree with them (spellings RPM treats as equal; same version, other arch: neither <, == nor >)" % name,
                       construct="%s evaluates %s" % (name, fa))
                break
            except Unknown as u:
                cx.unknown(m.get("InstalledRpm." + name), "abstract evaluation of %s cannot interpret: %s" % (name, u))
                break
            ok = bool(got) == expect(s) and isinstance(got, bool)
            cx.require(ok, m.get("InstalledRpm." + name), "%s(a, b) is %s when rpm_version_compare(a, b) has sign %+d" % (name, expect(s), s),
                       construct="%s | sign %+d -> %r" % (name, s, got))
    # the sign interpretation above takes 'other is a package' for granted: the type test must accept every package class, i.e. name the class
    # that defines the ordering (a test against type(self) / self.__class__ makes a subclass instance and a base instance mutually unordered)
    for name in sorted(OPS):
        if name not in defined:
            continue
        fn_ = m.get("InstalledRpm." + name)
        for c_ in [x for x in ast.walk(fn_) if isinstance(x, ast.Call) and call_name(x) == "isinstance" and len(x.args) == 2]:
            k_ = c_.args[1]
            names_ = [U(e_) for e_ in k_.elts] if isinstance(k_, ast.Tuple) else [U(k_)]
            cx.require(cls.name in names_, c_, "%s accepts every %s (sub)class instance as the other operand" % (name, cls.name), construct=short(c_, 80))
    eq = m.func("InstalledRpm.__eq__", "C13.R1")
    rs = [r for r in walk_body(eq.body) if isinstance(r, ast.Raise)]
    ok = bool(rs) and ("self.name != other.name", True) in guard_texts(rs[0]) or bool(rs) and ("self.name == other.name", False) in guard_texts(rs[0])
    cx.require(ok, rs[0] if rs else eq, "packages of different names are not ordered (comparison raises)", construct=short(rs[0], 90) if rs else "(none)")


class CmpInterp(object):
    """Abstract evaluation of rpm_version_compare(left, right) for signs (e, v, r) of epoch, version, release."""

    def __init__(self, fn, e, v, r, mod=None, depth=0):
        self.fn = fn
        self.mod = mod
        self.depth = depth
        self.sig = {"epoch": e, "version": v, "release": r}
        ps = params(fn)
        self.L, self.R = ps[0], ps[1]

    def run(self):
        env = {}
        try:
            self.block(self.fn.body, env)
        except _Return as e:
            return e.v
        return None

    def block(self, stmts, env):
        for st in stmts:
            if isinstance(st, ast.Expr) and isinstance(st.value, ast.Constant):
                continue
            if isinstance(st, ast.If):
                if self.ev(st.test, env):
                    self.block(st.body, env)
                else:
                    self.block(st.orelse, env)
            elif isinstance(st, ast.Return):
                raise _Return(self.ev(st.value, env))
            elif isinstance(st, ast.Assign) and len(st.targets) == 1:
                t = st.targets[0]
                if isinstance(t, ast.Name):
                    env[t.id] = self.ev(st.value, env)
                elif isinstance(t, ast.Tuple) and isinstance(st.value, ast.Tuple) and len(t.elts) == len(st.value.elts):
                    for a, b in zip(t.elts, st.value.elts):
                        env[a.id] = self.ev(b, env)
                else:
                    raise Unknown("assignment %s" % short(st))
            else:
                raise Unknown("statement %s" % short(st))

    def field(self, e):
        """('L'|'R', field) for left.<field> / int(left.<field>)."""
        if isinstance(e, ast.Call) and call_name(e) == "int" and len(e.args) == 1:
            e = e.args[0]
        if isinstance(e, ast.Attribute) and isinstance(e.value, ast.Name) and e.value.id in (self.L, self.R):
            return ("L" if e.value.id == self.L else "R", e.attr)
        return None

    def ev(self, e, env):
        if isinstance(e, ast.Constant):
            return e.value
        if isinstance(e, ast.UnaryOp) and isinstance(e.op, ast.USub):
            return -self.ev(e.operand, env)
        if isinstance(e, ast.UnaryOp) and isinstance(e.op, ast.Not):
            return not self.ev(e.operand, env)
        if isinstance(e, ast.Name):
            if e.id in env:
                return env[e.id]
            raise Unknown("name %s" % e.id)
        f = self.field(e)
        if f is not None:
            return f
        if isinstance(e, ast.Call) and call_name(e) in ("_rpm_vercmp", "rpm_vercmp._rpm_vercmp") and len(e.args) == 2:
            try:
                a, b = self.ev(e.args[0], env), self.ev(e.args[1], env)
            except Unknown as u_:
                if "MISMATCH" in str(u_):
                    raise
                a = b = None
            if not (isinstance(a, tuple) and isinstance(b, tuple)):
                raise Unknown("MISMATCH: _rpm_vercmp is not applied to one field of each package (%s vs %s): version and release must be compared separately, in that order" % (short(e.args[0], 40), short(e.args[1], 40)))
            if a[1] != b[1]:
                raise Unknown("MISMATCH: _rpm_vercmp compares %s of one package with %s of the other" % (a[1], b[1]))
            if a[1] not in self.sig:
                raise Unknown("field %s" % a[1])
            if (a[0], b[0]) == ("L", "R"):
                return self.sig[a[1]]
            if (a[0], b[0]) == ("R", "L"):
                return -self.sig[a[1]]
            raise Unknown("MISMATCH: _rpm_vercmp compares a package with itself")
        if isinstance(e, ast.Call) and isinstance(e.func, ast.Name) and self.mod is not None and self.depth < 3 and len(e.args) == 2 and not e.keywords \
                and sorted(U(a) for a in e.args) == sorted([self.L, self.R]):
            fs = [x for x in self.mod.tree.body if isinstance(x, FUNC_TYPES) and x.name == e.func.id and len(params(x)) == 2]
            if len(fs) == 1:
                swap = U(e.args[0]) == self.R
                sub = CmpInterp(fs[0], *[(-self.sig[k] if swap else self.sig[k]) for k in ("epoch", "version", "release")], mod=self.mod, depth=self.depth + 1)
                return sub.run()
        if isinstance(e, ast.Compare) and len(e.ops) == 1:
            if isinstance(e.ops[0], ast.Is):
                return False
            a, b = self.ev(e.left, env), self.ev(e.comparators[0], env)
            if isinstance(a, tuple) and isinstance(b, tuple):
                if a[1] != b[1] or a[1] not in self.sig:
                    raise Unknown("MISMATCH: compares %s with %s" % (a[1], b[1]))
                s = self.sig[a[1]] if (a[0], b[0]) == ("L", "R") else -self.sig[a[1]] if (a[0], b[0]) == ("R", "L") else 0
                return _cmp(e.ops[0], s, 0)
            return _cmp(e.ops[0], a, b)
        if isinstance(e, ast.BoolOp):
            # Python value semantics: 'or' yields the first truthy operand (else the last), 'and' the first falsy one (else the last)
            v = None
            for x in e.values:
                v = self.ev(x, env)
                if isinstance(v, tuple):
                    raise Unknown("truth value of a field")
                if bool(v) == isinstance(e.op, ast.Or):
                    return v
            return v
        if isinstance(e, ast.IfExp):
            t = self.ev(e.test, env)
            if isinstance(t, tuple):
                raise Unknown("truth value of a field")
            return self.ev(e.body if t else e.orelse, env)
        raise Unknown("expression %s" % short(e))


def r1b_pure_comparisons(cx):
    """The operators must be functions of the two packages alone: a result remembered on the object (a last-comparison cache keyed by id(other), a memo)
    makes the answer depend on what was compared before."""
    cx.rule("C13.R1", "the six rich comparison operators agree with the sign of the base comparison", floor=18)
    m = cx.repo.module(IR)
    c = m.cls("InstalledRpm", "C13.R1")
    methods = dict((st.name, st) for st in c.body if isinstance(st, FUNC_TYPES))
    todo = [n for n in ("__eq__", "__ne__", "__lt__", "__le__", "__gt__", "__ge__") if n in methods]
    seen = set()
    while todo:
        n = todo.pop()
        if n in seen or n not in methods:
            continue
        seen.add(n)
        fn = methods[n]
        for x in find_calls(fn.body):
            if isinstance(x.func, ast.Attribute) and U(x.func.value) in ("self", "other") and x.func.attr in methods:
                todo.append(x.func.attr)
        stores = [x for x in walk_body(fn.body) if isinstance(x, (ast.Attribute, ast.Subscript)) and isinstance(x.ctx, (ast.Store, ast.Del))
                  and U(x).split(".")[0].split("[")[0] in ("self", "other")]
        uses_id = [x for x in find_calls(fn.body, name="id")]
        cx.require(not stores and not uses_id, (stores + uses_id)[0] if (stores + uses_id) else fn, "InstalledRpm.%s computes its answer from the two packages only (no state kept on either, no identity-keyed memo)" % n,
                   construct=short((stores + uses_id)[0]) if (stores + uses_id) else "def %s" % n)


def r2_field_order(cx):
    cx.rule("C13.R2", "epoch, then version, then release; each compared field against the same field", floor=27)
    m = cx.repo.module(RV)
    fn = m.func("rpm_version_compare", "C13.R2")
    # view: a loop over a literal tuple of field names with getattr is the sequence of per-field comparisons
    unroll_literal_loops(fn, consts=m.top)
    for e in (-1, 0, 1):
        for v in (-1, 0, 1):
            for r in (-1, 0, 1):
                want = e if e else v if v else r
                try:
                    got = CmpInterp(fn, e, v, r, mod=m).run()
                except Unknown as u:
                    if "MISMATCH" in str(u):
                        cx.bad(fn, "each comparison takes the same field from the left and the right package", construct=str(u))
                    else:
                        cx.unknown(fn, "abstract evaluation of rpm_version_compare cannot interpret: %s" % u)
                    return
                sg = (got > 0) - (got < 0) if isinstance(got, int) and not isinstance(got, bool) else None
                cx.require(sg == want, fn, "sign(epoch)=%+d sign(version)=%+d sign(release)=%+d -> result sign %+d (lexicographic epoch/version/release)" % (e, v, r, want),
                           construct="(e,v,r)=(%+d,%+d,%+d) -> %r" % (e, v, r, got))
    ep = [x for f_ in feat.region(m, fn) for x in find_calls(f_.body, name="int") if "epoch" in U(x)]
    raw = [x for f_ in feat.region(m, fn) for x in ast.walk(f_) if isinstance(x, ast.Attribute) and x.attr == "epoch" and not (isinstance(parent(x), ast.Call) and call_name(parent(x)) == "int")]
    cx.require(len(set(U(x) for x in ep)) == 2 and not raw, fn, "epochs are compared as integers", rule="C13.R2", construct="int(left.epoch), int(right.epoch)")


def r2b_compare_is_pure(cx):
    """The base comparison is a function of the two packages as they are now: a value remembered on a package at its first comparison (a converted
    epoch, a parsed version) is stale once the field is reassigned (InstalledRpm.source copies the epoch of the binary package)."""
    cx.rule("C13.R2", "epoch, then version, then release; each compared field against the same field", floor=27)
    m = cx.repo.module(RV)
    fn = m.func("rpm_version_compare", "C13.R2")
    bad = []
    todo, seen = [fn], set()
    while todo:
        f = todo.pop()
        if id(f) in seen:
            continue
        seen.add(id(f))
        ps = set(params(f))
        for x in ast.walk(f):
            if isinstance(x, (ast.Attribute, ast.Subscript)) and isinstance(x.ctx, (ast.Store, ast.Del)) and U(x).split(".")[0].split("[")[0] in ps:
                bad.append(x)
            if isinstance(x, ast.Call) and call_name(x) in ("setattr", "object.__setattr__") and x.args and U(x.args[0]) in ps:
                bad.append(x)
            if isinstance(x, ast.Call) and isinstance(x.func, ast.Name):
                todo += [g for g in m.tree.body if isinstance(g, FUNC_TYPES) and g.name == x.func.id and g.name != "_rpm_vercmp"]
    cx.require(not bad, bad[0] if bad else fn, "rpm_version_compare (and its helpers) keeps nothing on the packages it compares", construct=short(stmt_of(bad[0]), 80) if bad else "def rpm_version_compare")


def r3_lookups(cx):
    cx.rule("C13.R3", "newest / oldest are the maximum / minimum under the comparison", floor=4)
    m = cx.repo.module(IR)
    for q, f in (("get_max", "max"), ("get_min", "min")):
        fn = m.func("RpmList.%s" % q, "C13.R3")
        p = params(fn)[1]
        rets = [r for r in walk_body(fn.body) if isinstance(r, ast.Return) and r.value is not None and U(r.value) != "None"]
        ok = len(rets) == 1 and U(rets[0].value) == "%s(self.packages[%s])" % (f, p)
        cx.require(ok, rets[0] if rets else fn, "%s returns %s(self.packages[name])" % (q, f), construct=short(rets[0]) if rets else "(none)")
    c = m.cls("RpmList", "C13.R3")
    al = dict((t.id, U(st.value)) for st in c.body if isinstance(st, ast.Assign) for t in st.targets if isinstance(t, ast.Name))
    cx.require(al.get("newest") == "get_max", c, "newest is get_max", construct="newest = %s" % al.get("newest"))
    cx.require(al.get("oldest") == "get_min", c, "oldest is get_min", construct="oldest = %s" % al.get("oldest"))


def r4_normalisation(cx):
    cx.rule("C13.R4", "input normalisation keeps one element per character: a non-ASCII character becomes a separator, it is not dropped", floor=2)
    m = cx.repo.module(RV)
    fn = m.func("_rpm_vercmp", "C13.R4")
    ps = params(fn)
    for p in ps[:2]:
        defs = [a for a in walk_body(fn.body) if isinstance(a, ast.Assign)]
        comp = None
        for a in defs:
            for n in ast.walk(a.value):
                if isinstance(n, (ast.ListComp, ast.GeneratorExp)) and U(n.generators[0].iter) == p and comp is None:
                    comp = (a, n)
        if comp is None:
            cx.unknown(fn, "cannot find the character-wise normalisation of '%s'" % p)
            continue
        a, n = comp
        ok = not n.generators[0].ifs and isinstance(n.elt, ast.IfExp)
        sep = None
        if ok:
            sv = feat.resolve_const(m, fn, n.elt.orelse)        # a literal, or a module-level / local constant naming it
            sep = sv.value if isinstance(sv, ast.Constant) else None
            ok = U(n.elt.body) == U(n.generators[0].target) and isinstance(sep, str) and len(sep) == 1 and not sep.isalnum() and sep not in "~^" and "ord(" in U(n.elt.test)
        cx.require(ok, a, "every character of '%s' yields one element; non-ASCII ones are replaced by a separator (rpm treats them as separators; dropping them would glue the neighbouring segments together)" % p,
                   construct=short(a, 120))


def _main_loops(fn, ps):
    """Index of the segment loop among the top-level statements: the loop over both heads that contains the returns."""
    c = [i for i, st in enumerate(fn.body) if isinstance(st, ast.While) and (all(("%s[0]" % p) in U(st.test) for p in ps)
                                                                             or (isinstance(st.test, ast.Constant) and st.test.value in (True, 1) and all(("%s[0]" % p) in U(st) for p in ps)))]
    if len(c) > 1:
        c = [i for i in c if any(isinstance(n, ast.Return) for n in ast.walk(fn.body[i]))]
    return c


def r4b_whole_operands(cx):
    """Everything between the entry of _rpm_vercmp and its main loop may only normalise the operands; a slice, a pop or a drop there removes
    characters from the comparison (a 'skip the common prefix' shortcut cuts inside a segment: '2.02b3' vs '2.02beta2')."""
    cx.rule("C13.R4", "input normalisation keeps one element per character: a non-ASCII character becomes a separator, it is not dropped", floor=2)
    m = cx.repo.module(RV)
    fn = m.func("_rpm_vercmp", "C13.R4")
    ps = params(fn)[:2]
    idx = _main_loops(fn, ps)
    if len(idx) != 1:
        return          # C13.R5 reports the missing loop
    pre = fn.body[:idx[0]]
    derived = set(ps)
    for _ in range(3):
        for st in walk_body(pre):
            if isinstance(st, ast.Assign) and any(isinstance(n, ast.Name) and n.id in derived for n in ast.walk(st.value)):
                for t in st.targets:
                    for n in ast.walk(t):
                        if isinstance(n, ast.Name):
                            derived.add(n.id)
    cuts = []
    for n in walk_body(pre):
        if isinstance(n, ast.Subscript) and isinstance(n.slice, ast.Slice) and isinstance(n.value, ast.Name) and n.value.id in derived:
            cuts.append(n)
        if isinstance(n, ast.Call) and isinstance(n.func, ast.Attribute) and n.func.attr in ("popleft", "pop", "lstrip", "rstrip", "strip", "remove", "clear") \
                and isinstance(n.func.value, ast.Name) and n.func.value.id in derived:
            cuts.append(n)
        if isinstance(n, ast.Call) and call_name(n) in ("islice", "itertools.islice", "dropwhile", "itertools.dropwhile", "os.path.commonprefix", "commonprefix"):
            cuts.append(n)
    cx.require(not cuts, cuts[0] if cuts else fn, "every character of both operands reaches the segment loop (nothing is cut off before it)",
               construct=short(cuts[0], 90) if cuts else "(no slice / pop before the loop)")


def run(cx):
    cx.extra["explanation"] = ("C13: abstract interpretation over the sign domain {-,0,+}: the six rich comparison methods of InstalledRpm against the sign of rpm_version_compare (18 obligations), "
                               "rpm_version_compare against the signs of the epoch/version/release comparisons (27 obligations, exhaustive), max/min wiring of newest/oldest.")
    cx.assumptions.append("C13.R1 assumes the base comparison antisymmetric (rpm_version_compare(b, a) has the opposite sign) and operands that are same-named InstalledRpm instances.")
    cx.undecided = ["agreement of _rpm_vercmp with rpmvercmp.c over all strings (segments, '~', '^', leading zeros, non-ASCII)", "reflexivity / antisymmetry / transitivity of the segment algorithm"]
    cx.extra["exhaustive"] = True
    cx.guard(r1_operator_coherence)
    cx.guard(r1b_pure_comparisons)
    cx.guard(r2_field_order)
    cx.guard(r2b_compare_is_pure)
    cx.guard(r3_lookups)
    cx.guard(r4_normalisation)
    cx.guard(r4b_whole_operands)
    cx.guard(r5_head_table)


# ---------------------------------------------------------------------------------------------------------------------------------------
# C13.R5: the marker / end-of-string / segment-type decisions of _rpm_vercmp, decided for every pair of head-character classes
# ---------------------------------------------------------------------------------------------------------------------------------------
HEADS = {"end": "", "tilde": "~", "caret": "^", "alpha": "a", "upper": "A", "digit": "1"}
STRING_CONSTS = {"digits": "0123456789", "ascii_lowercase": "abcdefghijklmnopqrstuvwxyz", "ascii_uppercase": "ABCDEFGHIJKLMNOPQRSTUVWXYZ",
                 "ascii_letters": "abcdefghijklmnopqrstuvwxyzABCDEFGHIJKLMNOPQRSTUVWXYZ", "hexdigits": "0123456789abcdefABCDEF", "octdigits": "01234567"}


class _Seg(object):
    """Abstract leading segment: only its emptiness is known (it is non-empty iff the head character is of the segment's type)."""
    def __init__(self, nonempty):
        self.nonempty = nonempty


class _Stop(Exception):
    def __init__(self, outcome):
        self.outcome = outcome


class _Opaque(object):
    """A value the head classes do not determine (lengths, segment contents, ...); only deciding on it is an error."""
    def __init__(self, why):
        self.why = why


class HeadInterp(object):
    """Evaluates one pass through the main loop of _rpm_vercmp when all that is known of the two operands is the class of their first character
    after separator skipping: end of string, '~', '^', a letter, a digit.  Conditions may only use operations that are invariant within a class."""

    def __init__(self, fn, ha, hb, mod=None):
        ps = params(fn)
        self.fn, self.mod = fn, mod
        self.A, self.B = ps[0], ps[1]
        self.head = {self.A: HEADS[ha], self.B: HEADS[hb]}
        self.popped = {self.A: 0, self.B: 0}
        self.env = {}
        self.alias = {}
        self.preds = {}

    def opnd(self, e):
        if isinstance(e, ast.Name):
            n = self.alias.get(e.id, e.id)
            if n in self.head:
                return n
        return None

    def head_of(self, e):
        """x[0] for an operand x whose head is still the known one."""
        if isinstance(e, ast.Subscript) and isinstance(e.slice, ast.Constant) and e.slice.value == 0:
            n = self.opnd(e.value)
            if n is not None:
                if self.popped[n]:
                    raise Unknown("head of '%s' read after it was consumed" % n)
                return n
        return None

    def ev(self, e):
        try:
            return self._ev(e)
        except Unknown as u:
            return _Opaque(str(u))

    def _ev(self, e):
        if isinstance(e, ast.Constant):
            return e.value
        n = self.head_of(e)
        if n is not None:
            return self.head[n]
        if isinstance(e, ast.Name):
            if e.id in self.env:
                return self.env[e.id]
            c = feat.resolve_const(self.mod, self.fn, e) if self.mod is not None else None
            if isinstance(c, ast.Constant):
                return c.value
            if c is not None and c is not e and not isinstance(c, ast.Name):
                return self._ev(c)          # a module-level constant expression ('_TILDE + _CARET')
            raise Unknown("name %s" % e.id)
        if isinstance(e, ast.BinOp) and isinstance(e.op, ast.Add):
            a, b = self.ev(e.left), self.ev(e.right)
            if isinstance(a, str) and isinstance(b, str):
                return a + b
            raise Unknown("expression %s" % short(e))
        if isinstance(e, ast.BinOp) and isinstance(e.op, ast.BitOr):
            a, b = self.ev(e.left), self.ev(e.right)
            if isinstance(a, frozenset) and isinstance(b, frozenset):
                return a | b
            raise Unknown("expression %s" % short(e))
        if isinstance(e, ast.Attribute):
            if U(e.value) == "string" and e.attr in STRING_CONSTS:
                return STRING_CONSTS[e.attr]
            c = feat.resolve_const(self.mod, self.fn, e) if self.mod is not None else None
            if isinstance(c, ast.Constant):
                return c.value
        if isinstance(e, (ast.Tuple, ast.List)):
            return [self.ev(x) for x in e.elts]
        if isinstance(e, ast.UnaryOp) and isinstance(e.op, ast.Not):
            return not self.truth(self.ev(e.operand))
        if isinstance(e, ast.UnaryOp) and isinstance(e.op, ast.USub):
            v = self.ev(e.operand)
            if not isinstance(v, int):
                raise Unknown("negation of %s" % short(e.operand))
            return -v
        if isinstance(e, ast.BoolOp):
            v = None
            for x in e.values:
                v = self.ev(x)
                if self.truth(v) == isinstance(e.op, ast.Or):
                    return v
            return v
        if isinstance(e, ast.IfExp):
            return self.ev(e.body if self.truth(self.ev(e.test)) else e.orelse)
        if isinstance(e, ast.Compare) and len(e.ops) == 1:
            a, b = self.ev(e.left), self.ev(e.comparators[0])
            if isinstance(a, (_Seg, _Opaque)) or isinstance(b, (_Seg, _Opaque)):
                raise Unknown("comparison of %s" % short(e))
            op = e.ops[0]
            if isinstance(op, (ast.In, ast.NotIn)):
                if isinstance(b, list) and any(isinstance(x, (_Seg, _Opaque)) for x in b):
                    raise Unknown("membership in %s" % short(e.comparators[0]))
                return (a in b) == isinstance(op, ast.In)
            if isinstance(op, (ast.Is, ast.IsNot)):
                raise Unknown("identity test")
            return _cmp(op, a, b)
        if isinstance(e, ast.Call):
            if isinstance(e.func, ast.Attribute) and e.func.attr in ("isalnum", "isdigit", "isalpha") and not e.args:
                v = self.ev(e.func.value)
                if isinstance(v, str):
                    return getattr(v, e.func.attr)()
            if call_name(e) in ("bool",) and len(e.args) == 1:
                return self.truth(self.ev(e.args[0]))
            if call_name(e) in ("frozenset", "set", "tuple", "list") and len(e.args) == 1:
                v = self.ev(e.args[0])
                if isinstance(v, (str, list, frozenset)):
                    return frozenset(v)
            seg = self.segment(e)
            if seg is not None:
                return seg
            raise Unknown("call %s" % short(e))
        raise Unknown("expression %s" % short(e))

    def segment(self, e):
        """deque(takewhile(lambda v: v.is<kind>(), x)) / list(...) / takewhile(...) -> abstract segment."""
        inner = e
        while isinstance(inner, ast.Call) and len(inner.args) == 1 and (call_name(inner) in ("deque", "list", "tuple", "collections.deque")
                                                                       or (isinstance(inner.func, ast.Attribute) and inner.func.attr == "join" and isinstance(inner.func.value, ast.Constant))):
            inner = inner.args[0]
        if isinstance(inner, ast.Call) and call_name(inner) in ("takewhile", "itertools.takewhile") and len(inner.args) == 2:
            pred, src = inner.args
            n = self.opnd(src)
            if n is None or self.popped[n]:
                return None
            kind = self.pred_kind(pred)
            if kind is None:
                return None
            h = self.head[n]
            return _Seg(bool(h) and bool(kind(h)))
        return None

    def pred_kind(self, pred, depth=0):
        """The character predicate (a python callable on one character) denoted by: a lambda / one-line helper testing v.isdigit() / v.isalpha() or
        membership of v in a constant character set, str.isdigit, methodcaller('isdigit'), <constant set>.__contains__, or a conditional
        expression choosing between two of them on a value the heads determine.  None when it is something else."""
        if depth > 3:
            return None
        if isinstance(pred, ast.IfExp):
            try:
                t = self.truth(self.ev(pred.test))
            except Unknown:
                return None
            return self.pred_kind(pred.body if t else pred.orelse, depth + 1)
        if isinstance(pred, ast.Lambda) and len(pred.args.args) == 1:
            return self.char_test(pred.body, pred.args.args[0].arg)
        if isinstance(pred, ast.Attribute) and U(pred.value) == "str" and pred.attr in ("isdigit", "isalpha"):
            return lambda c, k=pred.attr: getattr(c, k)()
        if isinstance(pred, ast.Attribute) and pred.attr == "__contains__":
            v = self.ev(pred.value)
            if isinstance(v, (str, frozenset, set, list, tuple)) and v != "":
                return lambda c, v=v: c in v
            return None
        if isinstance(pred, ast.Call) and call_name(pred) in ("methodcaller", "operator.methodcaller") and len(pred.args) == 1:
            a0 = pred.args[0]
            if isinstance(a0, ast.IfExp):
                try:
                    a0 = a0.body if self.truth(self.ev(a0.test)) else a0.orelse
                except Unknown:
                    return None
            if isinstance(a0, ast.Constant) and a0.value in ("isdigit", "isalpha"):
                return lambda c, k=a0.value: getattr(c, k)()
        if isinstance(pred, ast.Name):
            if pred.id in self.preds:
                return self.preds[pred.id]
            if self.mod is not None:
                d = self.mod.top.get(pred.id) if hasattr(self.mod, "top") else None
                if d is None:
                    fs = [x for x in self.mod.tree.body if isinstance(x, FUNC_TYPES) and x.name == pred.id]
                    d = fs[0] if len(fs) == 1 else None
                if isinstance(d, FUNC_TYPES) and len(d.body) == 1 and isinstance(d.body[0], ast.Return) and len(d.args.args) == 1:
                    return self.char_test(d.body[0].value, d.args.args[0].arg)
                if isinstance(d, (ast.Lambda, ast.Attribute, ast.Call)):
                    return self.pred_kind(d, depth + 1)
        return None

    def char_test(self, body, var):
        """body is an expression over the one character ``var``: var.isdigit() / var.isalpha() / var in <constant set>."""
        if isinstance(body, ast.Call) and isinstance(body.func, ast.Attribute) and body.func.attr in ("isdigit", "isalpha") and not body.args and U(body.func.value) == var:
            return lambda c, k=body.func.attr: getattr(c, k)()
        if isinstance(body, ast.Compare) and len(body.ops) == 1 and isinstance(body.ops[0], ast.In) and U(body.left) == var:
            v = self.ev(body.comparators[0])
            if isinstance(v, (str, frozenset, set, list, tuple)):
                return lambda c, v=v: bool(c) and c in v
        return None

    def truth(self, v):
        if isinstance(v, _Seg):
            return v.nonempty
        if isinstance(v, _Opaque):
            raise Unknown("decision on %s" % v.why)
        return bool(v)

    def block(self, stmts):
        for st in stmts:
            self.stmt(st)

    def stmt(self, st):
        if isinstance(st, ast.Expr) and isinstance(st.value, ast.Constant):
            return
        if isinstance(st, ast.Pass):
            return
        if isinstance(st, ast.If):
            self.block(st.body if self.truth(self.ev(st.test)) else st.orelse)
            return
        if isinstance(st, ast.Return):
            v = self.ev(st.value) if st.value is not None else None
            if isinstance(v, (_Opaque, _Seg)):
                raise Unknown("returns %s" % short(st.value))
            raise _Stop(("return", v))
        if isinstance(st, ast.Assert):
            return
        if isinstance(st, ast.Assign) and len(st.targets) == 1 and isinstance(st.targets[0], ast.Tuple) and isinstance(st.value, ast.Tuple) \
                and len(st.targets[0].elts) == len(st.value.elts) and all(isinstance(t, ast.Name) and t.id not in self.head for t in st.targets[0].elts):
            vals = [self.ev(x) for x in st.value.elts]
            for t, v in zip(st.targets[0].elts, vals):
                self.env[t.id] = v
            return
        if isinstance(st, ast.Continue):
            raise _Stop(("continue", self.popped[self.A], self.popped[self.B]))
        if isinstance(st, ast.Break):
            raise _Stop(("break",))
        if isinstance(st, ast.Expr) and isinstance(st.value, ast.Call) and isinstance(st.value.func, ast.Attribute) and st.value.func.attr == "popleft" and not st.value.args:
            n = self.opnd(st.value.func.value)
            if n is None:
                raise Unknown("popleft on %s" % U(st.value.func.value))
            self.popped[n] += 1
            return
        if isinstance(st, ast.For) and isinstance(st.target, ast.Name) and isinstance(st.iter, (ast.List, ast.Tuple)) and not st.orelse:
            for el in st.iter.elts:
                n = self.opnd(el)
                if n is None:
                    raise Unknown("loop over %s" % short(st.iter))
                self.alias[st.target.id] = n
                self.block(st.body)
            self.alias.pop(st.target.id, None)
            return
        if isinstance(st, ast.While) and not st.orelse:
            if self.truth(self.ev(st.test)):
                raise Unknown("inner loop runs for a head that is no separator: %s" % short(st.test))
            return
        if isinstance(st, ast.Assign) and len(st.targets) == 1 and isinstance(st.targets[0], ast.Name) and st.targets[0].id not in self.head:
            k = self.pred_kind(st.value)
            if k is not None:
                self.preds[st.targets[0].id] = k
            self.env[st.targets[0].id] = self.ev(st.value)
            return
        if isinstance(st, ast.Expr):
            self.ev(st.value)          # an expression statement that is no consumption: its value is not used
            return
        raise Unknown("statement %s" % short(st))

    def run(self, loop, after):
        """Outcome of one pass: ('return', v) | ('continue', consumed_a, consumed_b) | ('segment',) (both heads of one type: the value-level part)."""
        try:
            try:
                self.block(loop.body)
                if self.popped[self.A] or self.popped[self.B]:
                    # reaching the end of the loop body is the next iteration, like an explicit continue (the view's canonical form of
                    # 'if c: A; continue; rest' is 'if c: A else: rest')
                    return ("continue", self.popped[self.A], self.popped[self.B])
                raise Unknown("loop body falls through without consuming anything")
            except _Stop as s:
                if s.outcome[0] != "break":
                    return s.outcome
            if self.popped[self.A] or self.popped[self.B]:
                raise Unknown("break after consuming")
            try:
                self.block(after)
            except _Stop as s:
                return s.outcome
            raise Unknown("no return after the loop")
        except Unknown as u:
            if self.reached_segments(u):
                return ("segment",)
            raise

    def reached_segments(self, u):
        ha, hb = self.head[self.A], self.head[self.B]
        same = (ha.isdigit() and hb.isdigit()) or (ha.isalpha() and hb.isalpha())
        return same and not self.popped[self.A] and not self.popped[self.B]


def _expected_head_outcome(ha, hb):
    ha, hb = ("alpha" if ha == "upper" else ha), ("alpha" if hb == "upper" else hb)
    if ha == "tilde" or hb == "tilde":
        if ha == hb:
            return ("continue", 1, 1)
        return ("return", -1 if ha == "tilde" else 1)
    if ha == "caret" or hb == "caret":
        if ha == "end":
            return ("return", -1)
        if hb == "end":
            return ("return", 1)
        if ha == hb:
            return ("continue", 1, 1)
        return ("return", -1 if ha == "caret" else 1)
    if ha == "end" or hb == "end":
        return ("return", 0 if ha == hb else -1 if ha == "end" else 1)
    if ha == hb:
        return ("segment",)
    return ("return", 1 if ha == "digit" else -1)


def r5_head_table(cx):
    """rpmvercmp.c decides on the first characters alone whenever one of them is a marker, a string has ended, or the two segments are of different
    types: '~' sorts before everything (also before the end of the string and before '^'), '^' sorts after the end of the string and before
    anything else, an ended string loses against remaining characters, a numeric segment beats an alphabetic one.  The main loop is evaluated
    for all 25 pairs of head classes; the order of the tests in the source is free as long as the table comes out."""
    cx.rule("C13.R5", "marker ('~', '^'), end-of-string and segment-type decisions of _rpm_vercmp for every pair of head-character classes", floor=30)
    m = cx.repo.module(RV)
    fn = m.func("_rpm_vercmp", "C13.R5")
    ps = params(fn)
    loops = _main_loops(fn, ps[:2])
    if len(loops) != 1:
        cx.unknown(fn, "cannot find the main loop 'while a[0] or b[0]' of _rpm_vercmp")
        return
    loop, after = fn.body[loops[0]], fn.body[loops[0] + 1:]
    for ha in sorted(HEADS):
        for hb in sorted(HEADS):
            if ha == hb == "end":
                continue            # the loop is not entered
            want = _expected_head_outcome(ha, hb)
            try:
                got = HeadInterp(fn, ha, hb, m).run(loop, after)
            except Unknown as u:
                cx.unknown(loop, "head-class evaluation (%s, %s) cannot interpret: %s" % (ha, hb, u))
                return
            if got[0] == "return" and isinstance(got[1], int) and not isinstance(got[1], bool):
                got = ("return", (got[1] > 0) - (got[1] < 0))
            cx.require(got == want, loop, "heads (%s, %s): %s" % (ha, hb, "compare the two segments" if want[0] == "segment" else
                                                                  "both markers are consumed and the loop goes on" if want[0] == "continue" else "result %+d" % want[1]),
                       construct="(%s, %s) -> %s" % (ha, hb, " ".join(str(x) for x in got)))
