"""C13 - package version comparison is RPM's ordering (operator coherence, field order, look-ups)."""
import ast

from ..model import (AnalysisError, FUNC_TYPES, U, call_attr, call_name, dotted, enclosing, guard_texts, short, walk_body, const_str)
from ..util import params, find_calls, assigns_to, trace, stmt_of
from ..absint import unroll_literal_loops
from .. import feat

IR = "insights.parsers.installed_rpms"
RV = "insights.parsers.rpm_vercmp"
OPS = {"__eq__": lambda s: s == 0, "__ne__": lambda s: s != 0, "__lt__": lambda s: s < 0, "__le__": lambda s: s <= 0, "__gt__": lambda s: s > 0, "__ge__": lambda s: s >= 0}
SYM = {"__eq__": ast.Eq, "__ne__": ast.NotEq, "__lt__": ast.Lt, "__le__": ast.LtE, "__gt__": ast.Gt, "__ge__": ast.GtE}


class Unknown(Exception):
    pass


class FieldAccess(Exception):
    """The operator reads package fields itself instead of deriving from the one comparison."""


class _Return(Exception):
    def __init__(self, v):
        self.v = v


class _Raised(Exception):
    pass


def _cmp(op, a, b):
    if isinstance(op, ast.Eq):
        return a == b
    if isinstance(op, ast.NotEq):
        return a != b
    if isinstance(op, ast.Lt):
        return a < b
    if isinstance(op, ast.LtE):
        return a <= b
    if isinstance(op, ast.Gt):
        return a > b
    if isinstance(op, ast.GtE):
        return a >= b
    raise Unknown("comparison operator %s" % type(op).__name__)


class OpInterp(object):
    """Abstract evaluation of the rich comparison methods of InstalledRpm for one sign ``s`` of
    rpm_version_compare(self, other); operands are same-named InstalledRpm instances."""

    def __init__(self, cls, s):
        self.cls = cls
        self.s = s
        self.methods = dict((st.name, st) for st in cls.body if isinstance(st, FUNC_TYPES))
        self.depth = 0

    def call(self, name, swapped):
        if name not in self.methods:
            raise Unknown("method %s not defined" % name)
        self.depth += 1
        if self.depth > 12:
            raise Unknown("recursion too deep in %s" % name)
        fn = self.methods[name]
        ps = params(fn)
        env = {ps[0]: "B" if swapped else "A", ps[1]: "A" if swapped else "B"}
        try:
            self.block(fn.body, env)
            r = None
        except _Return as e:
            r = e.v
        self.depth -= 1
        return r

    def block(self, stmts, env):
        for st in stmts:
            if isinstance(st, ast.Expr) and isinstance(st.value, ast.Constant):
                continue
            if isinstance(st, ast.If):
                if self.ev(st.test, env):
                    self.block(st.body, env)
                else:
                    self.block(st.orelse, env)
            elif isinstance(st, ast.Return):
                raise _Return(self.ev(st.value, env) if st.value is not None else None)
            elif isinstance(st, ast.Raise):
                raise _Raised()
            elif isinstance(st, ast.Assign) and len(st.targets) == 1 and isinstance(st.targets[0], ast.Name):
                env[st.targets[0].id] = self.ev(st.value, env)
            else:
                raise Unknown("statement %s" % short(st))

    def orient(self, a, b, env):
        """+1 if (a, b) is (self, other) orientation A,B ; -1 if B,A."""
        x, y = env.get(U(a)), env.get(U(b))
        if (x, y) == ("A", "B"):
            return 1
        if (x, y) == ("B", "A"):
            return -1
        raise Unknown("operands %s, %s" % (U(a), U(b)))

    def ev(self, e, env):
        if isinstance(e, ast.Constant):
            return e.value
        if isinstance(e, ast.Name):
            if e.id in env and env[e.id] not in ("A", "B"):
                return env[e.id]
            raise Unknown("name %s" % e.id)
        if isinstance(e, ast.UnaryOp) and isinstance(e.op, ast.Not):
            return not self.ev(e.operand, env)
        if isinstance(e, ast.UnaryOp) and isinstance(e.op, ast.USub):
            return -self.ev(e.operand, env)
        if isinstance(e, ast.BoolOp):
            if isinstance(e.op, ast.And):
                v = True
                for x in e.values:
                    v = self.ev(x, env)
                    if not v:
                        return v
                return v
            v = False
            for x in e.values:
                v = self.ev(x, env)
                if v:
                    return v
            return v
        if isinstance(e, ast.Call):
            n = call_name(e)
            if n == "isinstance" and U(e.args[0]) in env:
                return True
            if n in ("rpm_version_compare",) and len(e.args) == 2:
                return self.s * self.orient(e.args[0], e.args[1], env)
            if isinstance(e.func, ast.Attribute) and e.func.attr in OPS and len(e.args) == 1:
                o = self.orient(e.func.value, e.args[0], env)
                return self.call(e.func.attr, swapped=(o == -1))
            raise Unknown("call %s" % short(e))
        if isinstance(e, ast.Compare) and len(e.ops) == 1:
            l, r = e.left, e.comparators[0]
            lt, rt = U(l), U(r)
            # self.name != other.name  (same-named operands)
            if isinstance(l, ast.Attribute) and isinstance(r, ast.Attribute) and l.attr == r.attr == "name":
                return _cmp(e.ops[0], 0, 0)
            if lt in env and rt in env and env[lt] in ("A", "B") and env[rt] in ("A", "B"):
                # self == other etc. -> the class's own operator
                for nm, k in SYM.items():
                    if isinstance(e.ops[0], k):
                        o = self.orient(l, r, env)
                        return self.call(nm, swapped=(o == -1))
                if isinstance(e.ops[0], ast.Is):
                    return False
            return _cmp(e.ops[0], self.ev(l, env), self.ev(r, env))
        if any(isinstance(n, ast.Attribute) and isinstance(n.value, ast.Name) and env.get(n.value.id) in ("A", "B") and n.attr in ("epoch", "version", "release", "nvr", "nvra", "package", "evr")
               for n in ast.walk(e)):
            raise FieldAccess(short(e, 90))
        raise Unknown("expression %s" % short(e))


def r1_operator_coherence(cx):
    cx.rule("C13.R1", "all six rich comparison operators agree with the sign of one comparison", floor=18)
    m = cx.repo.module(IR)
    cls = m.cls("InstalledRpm", "C13.R1")
    total = any("total_ordering" in U(d) for d in cls.decorator_list)
    defined = set(st.name for st in cls.body if isinstance(st, FUNC_TYPES))
    for name, expect in sorted(OPS.items()):
        if name not in defined:
            if total and name not in ("__eq__",):
                cx.ok(cls, "%s derived by functools.total_ordering" % name, construct="@total_ordering")
                continue
            if name == "__ne__":
                cx.ok(cls, "__ne__ defaults to the negation of __eq__ (Python 3)", construct="(no __ne__)")
                continue
            cx.bad(cls, "InstalledRpm defines %s" % name, construct="(missing %s)" % name)
            continue
        for s in (-1, 0, 1):
            try:
                got = OpInterp(cls, s).call(name, swapped=False)
            except _Raised:
                cx.bad(cls, "%s does not raise for same-named packages" % name, construct="%s with compare=%d raises" % (name, s))
                continue
            except FieldAccess as fa:
                cx.bad(m.get("InstalledRpm." + name), "%s is derived from rpm_version_compare like the other operators; comparing the version fields textually disagrees with them for spellings RPM treats as equal (leading zeros, separators)" % name,
                       construct="%s evaluates %s" % (name, fa))
                break
            except Unknown as u:
                cx.unknown(m.get("InstalledRpm." + name), "abstract evaluation of %s cannot interpret: %s" % (name, u))
                break
            ok = bool(got) == expect(s) and isinstance(got, bool)
            cx.require(ok, m.get("InstalledRpm." + name), "%s(a, b) is %s when rpm_version_compare(a, b) has sign %+d" % (name, expect(s), s),
                       construct="%s | sign %+d -> %r" % (name, s, got))
    # the sign interpretation above takes 'other is a package' for granted: the type test must accept every package class, i.e. name the class
    # that defines the ordering (a test against type(self) / self.__class__ makes a subclass instance and a base instance mutually unordered)
    for name in sorted(OPS):
        if name not in defined:
            continue
        fn_ = m.get("InstalledRpm." + name)
        for c_ in [x for x in ast.walk(fn_) if isinstance(x, ast.Call) and call_name(x) == "isinstance" and len(x.args) == 2]:
            k_ = c_.args[1]
            names_ = [U(e_) for e_ in k_.elts] if isinstance(k_, ast.Tuple) else [U(k_)]
            cx.require(cls.name in names_, c_, "%s accepts every %s (sub)class instance as the other operand" % (name, cls.name), construct=short(c_, 80))
    eq = m.func("InstalledRpm.__eq__", "C13.R1")
    rs = [r for r in walk_body(eq.body) if isinstance(r, ast.Raise)]
    ok = bool(rs) and ("self.name != other.name", True) in guard_texts(rs[0]) or bool(rs) and ("self.name == other.name", False) in guard_texts(rs[0])
    cx.require(ok, rs[0] if rs else eq, "packages of different names are not ordered (comparison raises)", construct=short(rs[0], 90) if rs else "(none)")


class CmpInterp(object):
    """Abstract evaluation of rpm_version_compare(left, right) for signs (e, v, r) of epoch, version, release."""

    def __init__(self, fn, e, v, r):
        self.fn = fn
        self.sig = {"epoch": e, "version": v, "release": r}
        ps = params(fn)
        self.L, self.R = ps[0], ps[1]

    def run(self):
        env = {}
        try:
            self.block(self.fn.body, env)
        except _Return as e:
            return e.v
        return None

    def block(self, stmts, env):
        for st in stmts:
            if isinstance(st, ast.Expr) and isinstance(st.value, ast.Constant):
                continue
            if isinstance(st, ast.If):
                if self.ev(st.test, env):
                    self.block(st.body, env)
                else:
                    self.block(st.orelse, env)
            elif isinstance(st, ast.Return):
                raise _Return(self.ev(st.value, env))
            elif isinstance(st, ast.Assign) and len(st.targets) == 1:
                t = st.targets[0]
                if isinstance(t, ast.Name):
                    env[t.id] = self.ev(st.value, env)
                elif isinstance(t, ast.Tuple) and isinstance(st.value, ast.Tuple) and len(t.elts) == len(st.value.elts):
                    for a, b in zip(t.elts, st.value.elts):
                        env[a.id] = self.ev(b, env)
                else:
                    raise Unknown("assignment %s" % short(st))
            else:
                raise Unknown("statement %s" % short(st))

    def field(self, e):
        """('L'|'R', field) for left.<field> / int(left.<field>)."""
        if isinstance(e, ast.Call) and call_name(e) == "int" and len(e.args) == 1:
            e = e.args[0]
        if isinstance(e, ast.Attribute) and isinstance(e.value, ast.Name) and e.value.id in (self.L, self.R):
            return ("L" if e.value.id == self.L else "R", e.attr)
        return None

    def ev(self, e, env):
        if isinstance(e, ast.Constant):
            return e.value
        if isinstance(e, ast.UnaryOp) and isinstance(e.op, ast.USub):
            return -self.ev(e.operand, env)
        if isinstance(e, ast.UnaryOp) and isinstance(e.op, ast.Not):
            return not self.ev(e.operand, env)
        if isinstance(e, ast.Name):
            if e.id in env:
                return env[e.id]
            raise Unknown("name %s" % e.id)
        f = self.field(e)
        if f is not None:
            return f
        if isinstance(e, ast.Call) and call_name(e) in ("_rpm_vercmp", "rpm_vercmp._rpm_vercmp") and len(e.args) == 2:
            try:
                a, b = self.ev(e.args[0], env), self.ev(e.args[1], env)
            except Unknown as u_:
                if "MISMATCH" in str(u_):
                    raise
                a = b = None
            if not (isinstance(a, tuple) and isinstance(b, tuple)):
                raise Unknown("MISMATCH: _rpm_vercmp is not applied to one field of each package (%s vs %s): version and release must be compared separately, in that order" % (short(e.args[0], 40), short(e.args[1], 40)))
            if a[1] != b[1]:
                raise Unknown("MISMATCH: _rpm_vercmp compares %s of one package with %s of the other" % (a[1], b[1]))
            if a[1] not in self.sig:
                raise Unknown("field %s" % a[1])
            if (a[0], b[0]) == ("L", "R"):
                return self.sig[a[1]]
            if (a[0], b[0]) == ("R", "L"):
                return -self.sig[a[1]]
            raise Unknown("MISMATCH: _rpm_vercmp compares a package with itself")
        if isinstance(e, ast.Compare) and len(e.ops) == 1:
            if isinstance(e.ops[0], ast.Is):
                return False
            a, b = self.ev(e.left, env), self.ev(e.comparators[0], env)
            if isinstance(a, tuple) and isinstance(b, tuple):
                if a[1] != b[1] or a[1] not in self.sig:
                    raise Unknown("MISMATCH: compares %s with %s" % (a[1], b[1]))
                s = self.sig[a[1]] if (a[0], b[0]) == ("L", "R") else -self.sig[a[1]] if (a[0], b[0]) == ("R", "L") else 0
                return _cmp(e.ops[0], s, 0)
            return _cmp(e.ops[0], a, b)
        if isinstance(e, ast.BoolOp):
            # Python value semantics: 'or' yields the first truthy operand (else the last), 'and' the first falsy one (else the last)
            v = None
            for x in e.values:
                v = self.ev(x, env)
                if isinstance(v, tuple):
                    raise Unknown("truth value of a field")
                if bool(v) == isinstance(e.op, ast.Or):
                    return v
            return v
        if isinstance(e, ast.IfExp):
            t = self.ev(e.test, env)
            if isinstance(t, tuple):
                raise Unknown("truth value of a field")
            return self.ev(e.body if t else e.orelse, env)
        raise Unknown("expression %s" % short(e))


def r1b_pure_comparisons(cx):
    """The operators must be functions of the two packages alone: a result remembered on the object (a last-comparison cache keyed by id(other), a memo)
    makes the answer depend on what was compared before."""
    cx.rule("C13.R1", "the six rich comparison operators agree with the sign of the base comparison", floor=18)
    m = cx.repo.module(IR)
    c = m.cls("InstalledRpm", "C13.R1")
    methods = dict((st.name, st) for st in c.body if isinstance(st, FUNC_TYPES))
    todo = [n for n in ("__eq__", "__ne__", "__lt__", "__le__", "__gt__", "__ge__") if n in methods]
    seen = set()
    while todo:
        n = todo.pop()
        if n in seen or n not in methods:
            continue
        seen.add(n)
        fn = methods[n]
        for x in find_calls(fn.body):
            if isinstance(x.func, ast.Attribute) and U(x.func.value) in ("self", "other") and x.func.attr in methods:
                todo.append(x.func.attr)
        stores = [x for x in walk_body(fn.body) if isinstance(x, (ast.Attribute, ast.Subscript)) and isinstance(x.ctx, (ast.Store, ast.Del))
                  and U(x).split(".")[0].split("[")[0] in ("self", "other")]
        uses_id = [x for x in find_calls(fn.body, name="id")]
        cx.require(not stores and not uses_id, (stores + uses_id)[0] if (stores + uses_id) else fn, "InstalledRpm.%s computes its answer from the two packages only (no state kept on either, no identity-keyed memo)" % n,
                   construct=short((stores + uses_id)[0]) if (stores + uses_id) else "def %s" % n)


def r2_field_order(cx):
    cx.rule("C13.R2", "epoch, then version, then release; each compared field against the same field", floor=27)
    m = cx.repo.module(RV)
    fn = m.func("rpm_version_compare", "C13.R2")
    # view: a loop over a literal tuple of field names with getattr is the sequence of per-field comparisons
    unroll_literal_loops(fn, consts=m.top)
    for e in (-1, 0, 1):
        for v in (-1, 0, 1):
            for r in (-1, 0, 1):
                want = e if e else v if v else r
                try:
                    got = CmpInterp(fn, e, v, r).run()
                except Unknown as u:
                    if "MISMATCH" in str(u):
                        cx.bad(fn, "each comparison takes the same field from the left and the right package", construct=str(u))
                    else:
                        cx.unknown(fn, "abstract evaluation of rpm_version_compare cannot interpret: %s" % u)
                    return
                sg = (got > 0) - (got < 0) if isinstance(got, int) and not isinstance(got, bool) else None
                cx.require(sg == want, fn, "sign(epoch)=%+d sign(version)=%+d sign(release)=%+d -> result sign %+d (lexicographic epoch/version/release)" % (e, v, r, want),
                           construct="(e,v,r)=(%+d,%+d,%+d) -> %r" % (e, v, r, got))
    ep = [x for x in find_calls(fn.body, name="int") if "epoch" in U(x)]
    cx.require(len(ep) == 2, fn, "epochs are compared as integers", rule="C13.R2", construct="int(left.epoch), int(right.epoch)")


def r3_lookups(cx):
    cx.rule("C13.R3", "newest / oldest are the maximum / minimum under the comparison", floor=4)
    m = cx.repo.module(IR)
    for q, f in (("get_max", "max"), ("get_min", "min")):
        fn = m.func("RpmList.%s" % q, "C13.R3")
        p = params(fn)[1]
        rets = [r for r in walk_body(fn.body) if isinstance(r, ast.Return) and r.value is not None and U(r.value) != "None"]
        ok = len(rets) == 1 and U(rets[0].value) == "%s(self.packages[%s])" % (f, p)
        cx.require(ok, rets[0] if rets else fn, "%s returns %s(self.packages[name])" % (q, f), construct=short(rets[0]) if rets else "(none)")
    c = m.cls("RpmList", "C13.R3")
    al = dict((t.id, U(st.value)) for st in c.body if isinstance(st, ast.Assign) for t in st.targets if isinstance(t, ast.Name))
    cx.require(al.get("newest") == "get_max", c, "newest is get_max", construct="newest = %s" % al.get("newest"))
    cx.require(al.get("oldest") == "get_min", c, "oldest is get_min", construct="oldest = %s" % al.get("oldest"))


def r4_normalisation(cx):
    cx.rule("C13.R4", "input normalisation keeps one element per character: a non-ASCII character becomes a separator, it is not dropped", floor=2)
    m = cx.repo.module(RV)
    fn = m.func("_rpm_vercmp", "C13.R4")
    ps = params(fn)
    for p in ps[:2]:
        defs = [a for a in walk_body(fn.body) if isinstance(a, ast.Assign)]
        comp = None
        for a in defs:
            for n in ast.walk(a.value):
                if isinstance(n, (ast.ListComp, ast.GeneratorExp)) and U(n.generators[0].iter) == p and comp is None:
                    comp = (a, n)
        if comp is None:
            cx.unknown(fn, "cannot find the character-wise normalisation of '%s'" % p)
            continue
        a, n = comp
        ok = not n.generators[0].ifs and isinstance(n.elt, ast.IfExp)
        sep = None
        if ok:
            sv = feat.resolve_const(m, fn, n.elt.orelse)        # a literal, or a module-level / local constant naming it
            sep = sv.value if isinstance(sv, ast.Constant) else None
            ok = U(n.elt.body) == U(n.generators[0].target) and isinstance(sep, str) and len(sep) == 1 and not sep.isalnum() and sep not in "~^" and "ord(" in U(n.elt.test)
        cx.require(ok, a, "every character of '%s' yields one element; non-ASCII ones are replaced by a separator (rpm treats them as separators; dropping them would glue the neighbouring segments together)" % p,
                   construct=short(a, 120))


def run(cx):
    cx.extra["explanation"] = ("C13: abstract interpretation over the sign domain {-,0,+}: the six rich comparison methods of InstalledRpm against the sign of rpm_version_compare (18 obligations), "
                               "rpm_version_compare against the signs of the epoch/version/release comparisons (27 obligations, exhaustive), max/min wiring of newest/oldest.")
    cx.assumptions.append("C13.R1 assumes the base comparison antisymmetric (rpm_version_compare(b, a) has the opposite sign) and operands that are same-named InstalledRpm instances.")
    cx.undecided = ["agreement of _rpm_vercmp with rpmvercmp.c over all strings (segments, '~', '^', leading zeros, non-ASCII)", "reflexivity / antisymmetry / transitivity of the segment algorithm"]
    cx.extra["exhaustive"] = True
    cx.guard(r1_operator_coherence)
    cx.guard(r1b_pure_comparisons)
    cx.guard(r2_field_order)
    cx.guard(r3_lookups)
    cx.guard(r4_normalisation)
