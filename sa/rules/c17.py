"""C17 - client identity and registration markers stay coherent over any history."""
import ast
from ..cfg import handler_names

from ..model import (AnalysisError, FUNC_TYPES, U, call_attr, call_name, dotted, enclosing, enclosing_function, guard_texts, guards_ex,
                     short, walk_body, walk_local, ancestors, parent, const_str, kwarg)
from .. import feat
from ..util import params, find_calls, assigns_to, trace, stmt_of, has_exit, syn_dominates

UT = "insights.client.utilities"
PAIRS = [("write_registered_file", "delete_unregistered_file", "constants.registered_files", "constants.unregistered_files"),
         ("write_unregistered_file", "delete_registered_file", "constants.unregistered_files", "constants.registered_files")]
READ_ONLY_SINKS = ("isfile", "os.path.isfile", "os.path.exists", "exists", "os.path.lexists", "os.path.islink", "os.path.getmtime", "os.stat")
HELPERS = ("write_registered_file", "write_unregistered_file", "delete_registered_file", "delete_unregistered_file")


def _writes(fn):
    """write_to_disk calls that create (not delete=True)."""
    out = []
    for x in find_calls(fn.body, name=("write_to_disk", "utilities.write_to_disk")):
        d = kwarg(x, "delete")
        if d is not None and U(d) == "True":
            continue
        if len(x.args) > 1 and U(x.args[1]) == "True":
            continue
        out.append(x)
    return out


def r1_opposite_first(cx):
    cx.rule("C17.R1", "a marker writer deletes the opposite marker before it writes", floor=4)
    m = cx.repo.module(UT)
    for w, d, mine, other in PAIRS:
        fn = m.func(w, "C17.R1")
        dels = [st for st in fn.body if isinstance(st, ast.Expr) and isinstance(st.value, ast.Call) and call_name(st.value) == d]
        wr = _writes(fn)
        if not wr:
            cx.bad(fn, "%s writes its marker" % w, construct="(no write_to_disk)")
            continue
        if not dels:
            cx.bad(fn, "%s calls %s() unconditionally before writing (otherwise both markers can exist together)" % (w, d), construct="def %s (no top-level %s())" % (w, d))
            continue
        for x in wr:
            cx.require(syn_dominates(dels[0], x), x, "%s() dominates every write in %s" % (d, w), construct="%s() ... %s" % (d, short(x)))


def r2_coverage(cx):
    cx.rule("C17.R2", "deleters cover the same path list as the opposite writer; delete mode removes without following links", floor=6)
    m = cx.repo.module(UT)
    for w, d, mine, other in PAIRS:
        dfn = m.func(d, "C17.R2")
        lp = [s for s in dfn.body if isinstance(s, ast.For)]
        ok = len(lp) == 1 and U(lp[0].iter) == other and not has_exit(lp[0].body)
        calls = find_calls(lp[0].body, name="write_to_disk") if lp else []
        ok = ok and len(calls) == 1 and U(calls[0].args[0]) == U(lp[0].target) and kwarg(calls[0], "delete") is not None and U(kwarg(calls[0], "delete")) == "True" and not guard_texts(calls[0], stop=lp[0])
        cx.require(ok, dfn, "%s removes every path of %s, unconditionally and without early exit" % (d, other), construct=short(lp[0], 120) if lp else "def %s" % d)
        # a removal that fails (anything but 'no such file', which write_to_disk itself swallows) must reach the writer: it must not go on and
        # write the opposite marker next to the one that could not be removed
        for c_ in calls:
            tr_ = enclosing(c_, ast.Try)
            sw = [h for h in (tr_.handlers if tr_ is not None and any(c_ is x for st_ in tr_.body for x in ast.walk(st_)) else []) if not (h.body and isinstance(h.body[-1], ast.Raise))]
            cx.require(not sw, sw[0] if sw else c_, "%s lets a failed removal propagate (no handler swallows it)" % d, construct=short(sw[0], 100) if sw else short(c_))
        wfn = m.func(w, "C17.R2")
        wl = [s for s in wfn.body if isinstance(s, ast.For)]
        ok = len(wl) == 1 and U(wl[0].iter) == mine and not feat.loop_exits(wl[0])
        cx.require(ok, wfn, "%s loops over %s (the list the opposite deleter covers)" % (w, mine), construct="for %s in %s" % (U(wl[0].target), U(wl[0].iter)) if wl else "def %s" % w)
    cm = cx.repo.module("insights.client.constants")
    cc = cm.cls("InsightsConstants", "C17.R2")
    vals = dict((t.id, st.value) for st in cc.body if isinstance(st, ast.Assign) for t in st.targets if isinstance(t, ast.Name))
    for nm, base in (("registered_files", ".registered"), ("unregistered_files", ".unregistered")):
        v = vals.get(nm)
        ok = isinstance(v, ast.List) and len(v.elts) == 2 and all(isinstance(e, ast.Call) and call_name(e) == "os.path.join" and const_str(e.args[-1]) == base for e in v.elts) and \
            [U(e.args[0]) for e in v.elts] == ["default_conf_dir", "simple_find_replace_dir"]
        cx.require(ok, v if v is not None else cc, "%s names the marker in both configuration directories" % nm, construct="%s = %s" % (nm, short(v, 120)))
    wd = m.func("write_to_disk", "C17.R2")
    rm = [x for x in find_calls(wd.body, name="os.remove")]
    ok = len(rm) == 1 and ("delete", True) in guard_texts(rm[0]) and ("os.path.lexists(filename)", True) in guard_texts(rm[0]) and U(rm[0].args[0]) == params(wd)[0]
    cx.require(ok, rm[0] if rm else wd, "delete mode removes the path when it lexists (a dangling or planted symlink is removed, not followed)", construct="os.remove guarded by %s" % sorted(guard_texts(rm[0])) if rm else "(no os.remove)")
    tr = enclosing(rm[0], ast.Try) if rm else None
    ok = tr is not None and len(tr.handlers) == 1 and "OSError" in U(tr.handlers[0].type)
    if ok:
        rs = [r for r in walk_body(tr.handlers[0].body) if isinstance(r, ast.Raise)]
        ok = len(rs) == 1 and set(guard_texts(rs[0], stop=tr.handlers[0])) == set([("err.errno == errno.ENOENT", False)])
    cx.require(ok, tr if tr is not None else wd, "only 'no such file' is swallowed when deleting; any other failure propagates", construct="except OSError: if err.errno != errno.ENOENT: raise")
    op = [x for x in find_calls(wd.body, name="open")]
    ok = len(op) == 1 and ("delete", False) in guard_texts(op[0]) and const_str(op[0].args[1]) in ("wb", "w")
    cx.require(ok, op[0] if op else wd, "write mode creates the file only when not deleting", construct=short(op[0]) if op else "(none)")


def r3_symlink(cx):
    cx.rule("C17.R3", "a symlink at a marker location is removed before the marker is written", floor=4)
    m = cx.repo.module(UT)
    for w, d, mine, other in PAIRS:
        fn = m.func(w, "C17.R3")
        for x in _writes(fn):
            f = U(x.args[0])
            lp = enclosing(x, ast.For)
            if lp is None:
                cx.bad(x, "%s: every write happens inside the loop over the marker locations" % w, construct=short(x))
                continue
            # path rule: on every path through the loop body that reaches this write, either nothing exists at the location
            # (lexists is false) or the location is a symlink that has been removed (islink true, os.remove before the write)
            try:
                ps = feat.paths(lp.body)
            except ValueError:
                cx.unknown(lp, "too many paths in %s" % w)
                continue
            bad_path, seen_paths = None, 0
            for trail, end in ps:
                idx = [i for i, ev in enumerate(trail) if ev[0] == "stmt" and any(n is x for n in ast.walk(ev[1]))]
                if not idx:
                    continue
                seen_paths += 1
                before = trail[:idx[0]]
                fresh = ("cond", "os.path.lexists(%s)" % f, False) in before
                relink = ("cond", "os.path.islink(%s)" % f, True) in before and \
                    any(ev[0] == "stmt" and any(isinstance(n, ast.Call) and call_name(n) == "os.remove" and n.args and U(n.args[0]) == f for n in ast.walk(ev[1])) for ev in before)
                if not (fresh or relink):
                    bad_path = before
            if bad_path is None and seen_paths:
                cx.ok(x, "%s: on each of the %d paths reaching the write, nothing exists at the location or the symlink there was removed first" % (w, seen_paths), construct=short(x))
            else:
                cx.bad(x, "%s: every write is guarded by 'not lexists' or by 'islink' with a preceding os.remove (a planted symlink would be followed)" % w,
                       construct="%s reached via %s" % (short(x), [(e[1], e[2]) if e[0] == "cond" else short(e[1], 40) for e in (bad_path or [])]))


def _mentions_marker(e):
    t = U(e)
    return "registered_files" in t or "unregistered_files" in t


def r4_who_may_write(cx, mods):
    cx.rule("C17.R4", "marker and identifier files are written only by their helpers", floor=6)
    n_sinks = 0
    for m in mods:
        for n in ast.walk(m.tree):
            if not isinstance(n, ast.Call):
                continue
            fn = enclosing_function(n)
            q = getattr(fn, "_qual", "<module>")
            args = list(n.args) + [k.value for k in n.keywords]
            cn = call_name(n) or ""
            # marker paths
            tainted = [a for a in args if _mentions_marker(a)]
            if isinstance(fn, FUNC_TYPES) and m.name == UT and q in HELPERS:
                # inside the helpers the loop variable carries the marker path
                continue
            if tainted:
                n_sinks += 1
                if cn in READ_ONLY_SINKS:
                    cx.ok(n, "marker path flows into a read-only test", construct="%s in %s:%s" % (short(n, 80), m.name, q))
                elif cn == "open":
                    mode = n.args[1] if len(n.args) > 1 else kwarg(n, "mode")
                    mv = const_str(mode) if mode is not None else "r"
                    cx.require(mv is not None and not any(ch in mv for ch in "wax+"), n, "marker files are opened read-only outside the helpers", construct="%s in %s:%s" % (short(n, 80), m.name, q))
                else:
                    cx.bad(n, "outside write_/delete_(un)registered_file a marker path reaches only read-only sinks (isfile/exists/open for reading)", construct="%s in %s:%s" % (short(n, 80), m.name, q))
            # machine id
            mid = [a for a in args if "machine_id_file" in U(a)]
            if mid:
                n_sinks += 1
                if cn in READ_ONLY_SINKS:
                    cx.ok(n, "machine-id path flows into a read-only test", construct="%s in %s:%s" % (short(n, 80), m.name, q))
                elif cn in ("write_to_disk", "utilities.write_to_disk"):
                    d = kwarg(n, "delete")
                    cx.require(d is not None and U(d) == "True", n, "outside generate_machine_id the identifier file is only deleted (write_to_disk(..., delete=True)), never rewritten",
                               construct="%s in %s:%s" % (short(n, 80), m.name, q))
                elif cn in ("generate_machine_id", "machine_id_exists"):
                    cx.ok(n, "passed to the identifier helper", construct=short(n, 80))
                elif cn == "open":
                    mode = n.args[1] if len(n.args) > 1 else kwarg(n, "mode")
                    mv = const_str(mode) if mode is not None else "r"
                    cx.require(mv is not None and not any(ch in mv for ch in "wax+"), n, "the identifier file is opened read-only", construct="%s in %s:%s" % (short(n, 80), m.name, q))
                else:
                    cx.bad(n, "the identifier path reaches only read-only sinks, generate_machine_id or a delete", construct="%s in %s:%s" % (short(n, 80), m.name, q))
    cx.extra["marker_and_id_path_sinks"] = n_sinks


def r5_identifier(cx):
    cx.rule("C17.R5", "the identifier is reused when present, written only when absent, and always returned in canonical form", floor=5)
    m = cx.repo.module(UT)
    fn = m.func("generate_machine_id", "C17.R5")
    ps = params(fn)
    new, dest = ps[0], ps[1]
    wr = [x for x in find_calls(fn.body, name="write_to_disk")]
    if not wr:
        cx.bad(fn, "generate_machine_id persists a fresh identifier", construct="(no write_to_disk)")
    for x in wr:
        g = set(guard_texts(x))
        cx.require(("machine_id", False) in g and U(x.args[0]) == dest and U(kwarg(x, "content")) == "machine_id", x,
                   "the file is written only on a path where no identifier had been read ('not machine_id'), with the new identifier", construct="%s guarded by %s" % (short(x), sorted(g)))
    rd = [a for a in walk_body(fn.body) if isinstance(a, ast.Assign) and U(a.targets[0]) == "machine_id" and "read()" in U(a.value)]
    ok = len(rd) == 1
    if ok:
        g = feat.expand_pure_helpers(m, set(guard_texts(rd[0])))
        ok = ("os.path.isfile(%s)" % dest, True) in g and (new, False) in g
        w = enclosing(rd[0], ast.With)
        ok = ok and w is not None and "open(%s, 'r')" % dest in U(w.items[0].context_expr)
    cx.require(ok, rd[0] if rd else fn, "an existing identifier file is read (read-only) unless a new identifier was requested", construct=short(rd[0]) if rd else "(none)")
    rets = [r for r in walk_body(fn.body) if isinstance(r, ast.Return)]
    def _canonical(v):
        # str(uuid.UUID(str(machine_id).strip(), version=4)), possibly through single-assignment temporaries
        if not (isinstance(v, ast.Call) and call_name(v) == "str" and len(v.args) == 1):
            return False
        u = trace(v.args[0], fn) if isinstance(v.args[0], ast.Name) else v.args[0]
        if not (isinstance(u, ast.Call) and call_name(u) == "uuid.UUID" and len(u.args) == 1 and kwarg(u, "version") is not None and U(kwarg(u, "version")) == "4"):
            return False
        a0 = trace(u.args[0], fn) if isinstance(u.args[0], ast.Name) else u.args[0]
        return U(a0) == "str(machine_id).strip()"
    ok = bool(rets) and all(_canonical(r.value) for r in rets)
    cx.require(ok, rets[0] if rets else fn, "every return canonicalises through uuid.UUID(..., version=4)", construct=" | ".join(U(r.value) for r in rets))
    tr = enclosing(rets[0], ast.Try) if rets else None
    ok = tr is not None and all(any(isinstance(s, ast.Expr) and isinstance(s.value, ast.Call) and call_name(s.value) == "sys.exit" for s in h.body) for h in tr.handlers) and tr is fn.body[-1]
    cx.require(ok, tr if tr is not None else fn, "an identifier that is not a UUID ends the client (sys.exit); it is never returned as is", construct="except ValueError: ... sys.exit(...)")
    fresh = [a for a in walk_body(fn.body) if isinstance(a, ast.Assign) and U(a.targets[0]) == "machine_id" and "uuid.uuid4()" in U(a.value)]
    ok = len(fresh) == 1 and ("machine_id", False) in guard_texts(fresh[0])
    cx.require(ok, fresh[0] if fresh else fn, "a fresh identifier is generated only when none was found", construct=short(fresh[0]) if fresh else "(none)")


def r5b_persist_or_fail(cx):
    """'stays the same until a new one is explicitly requested': a freshly generated identifier is returned only if it was stored.  A write failure that is
    swallowed (logged) hands out an identifier that the next run cannot find - the next run generates another one."""
    cx.rule("C17.R5", "the identifier is reused when present, written only when absent, and always returned in canonical form", floor=5)
    m = cx.repo.module(UT)
    fn = m.func("generate_machine_id", "C17.R5")
    n = 0
    for f in feat.region(m, fn):
        for x in find_calls(f.body, name="write_to_disk"):
            if kwarg(x, "delete") is not None and U(kwarg(x, "delete")) == "True":
                continue
            n += 1
            swallowed = None
            node = x
            while True:
                t = enclosing(node, ast.Try)
                if t is None:
                    break
                in_body = any(node is y or any(node is z for z in ast.walk(y)) for y in t.body)
                if in_body:
                    for h in t.handlers:
                        names = handler_names(h) if h.type is not None else ["BaseException"]
                        if set(names) & set(["OSError", "IOError", "EnvironmentError", "Exception", "BaseException", "PermissionError", "FileNotFoundError"]):
                            reraises = any(isinstance(r, ast.Raise) for r in walk_body(h.body)) or any(call_name(c) in ("sys.exit", "exit", "os._exit") for c in find_calls(h.body))
                            if not reraises:
                                swallowed = swallowed or h
                node = t
            cx.require(swallowed is None, swallowed if swallowed is not None else x, "a failure to store the new identifier propagates (the identifier is never handed out unsaved)",
                       construct=short(swallowed, 80) if swallowed is not None else short(x, 80))
    if n == 0:
        cx.bad(fn, "generate_machine_id persists a fresh identifier", construct="(no write_to_disk)")


def run(cx):
    repo = cx.repo
    cx.extra["explanation"] = ("C17: dominance of the opposite deleter over every marker write, deleter/writer list agreement, lexists/islink/os.remove discipline around each write, "
                               "who-may-write taint sweep of marker and identifier paths over the client package, guard/return discipline of generate_machine_id.")
    cx.undecided = ["file-system races", "an empty identifier file is regenerated by a read (documented behaviour of the 'not machine_id' test)"]
    if cx.tier == "thorough":
        mods = repo.all_modules()
    else:
        mods = [repo.module(n) for n in repo.module_names("insights.client") if "contrib" not in n]
    cx.guard(r1_opposite_first)
    cx.guard(r2_coverage)
    cx.guard(r3_symlink)
    cx.guard(r4_who_may_write, mods)
    cx.guard(r5_identifier)
    cx.guard(r5b_persist_or_fail)
