"""C12 - every evaluated rule yields exactly one well-formed, accounted outcome."""
import ast

from ..model import (AnalysisError, FUNC_TYPES, U, call_attr, call_name, dotted, enclosing, enclosing_function, guard_texts, guards_ex,
                     short, walk_body, walk_local, ancestors, parent, const_str, kwarg, literal)
from .. import feat
from ..util import params, find_calls, assigns_to, trace, stmt_of, has_exit, syn_dominates
from . import c01, c03

PL = "insights.core.plugins"
EV = "insights.core.evaluators"
FM = "insights.formats"
RESULT_KEYS = set(["component", "type", "key", "details", "tags", "links"])
SPECIAL = ["skip", "metadata", "metadata_key"]


def r1_return_discipline(cx):
    cx.rule("C12.R1", "rule.process returns a skip response, a none response or a validated Response", floor=4)
    m = cx.repo.module(PL)
    fn = m.func("rule.process", "C12.R1")
    rets = [r for r in walk_body(fn.body) if isinstance(r, ast.Return)]
    inv = [a for a in walk_body(fn.body) if isinstance(a, ast.Assign) and isinstance(a.value, ast.Call) and U(a.value.func) == "self.invoke"]
    if not inv:
        cx.bad(fn, "rule.process binds the result of self.invoke(broker)", construct="(no r = self.invoke(broker))")
        return
    rv = U(inv[0].targets[0])
    nn = [r for r in rets if U(r.value) == "make_none()"]
    cx.require(bool(nn), nn[0] if nn else fn, "a rule returning None yields the 'none' response (make_none), it is not rejected as a non-response", construct=short(nn[0]) if nn else "(no return make_none())")
    for r in rets:
        t = U(r.value)
        g = set(guard_texts(r))
        if isinstance(r.value, ast.Call) and call_attr(r.value) == "_make_skip":
            cx.require(("missing", True) in g, r, "the skip response is returned exactly when requirements are missing")
        elif t == "make_none()":
            cx.require(("%s is None" % rv, True) in g, r, "a rule returning None yields the 'none' response")
        elif t == rv:
            ok = ("isinstance(%s, Response)" % rv, True) in g       # an instance of Response is not None: no separate test needed on this path
            cx.require(ok, r, "the rule's own value is returned only after it was checked to be a Response (and not None)", construct="return %s guarded by %s" % (rv, sorted(g)))
        else:
            cx.bad(r, "rule.process returns only _make_skip(...), make_none() or the validated response")
    rs = [x for x in walk_body(fn.body) if isinstance(x, ast.Raise) and ("isinstance(%s, Response)" % rv, False) in guard_texts(x)]
    cx.require(bool(rs), rs[0] if rs else fn, "a return value that is not a Response is rejected with an exception", construct=short(rs[0]) if rs else "(no raise for non-Response)")


def r2_construction(cx):
    cx.rule("C12.R2", "Response construction validates before it builds, and over-long details are replaced by the stub", floor=7)
    m = cx.repo.module(PL)
    init = m.func("Response.__init__", "C12.R2")
    calls = find_calls(init.body)
    vk = [x for x in calls if U(x.func) == "self.validate_kwargs"]
    vkey = [x for x in calls if U(x.func) == "self.validate_key"]
    adj = [x for x in calls if U(x.func) == "self.adjust_for_length"]
    sup = [x for x in calls if call_attr(x) == "__init__" and U(x.func.value).startswith("super(")]
    ok = len(vk) == 1 and not guard_texts(vk[0]) and all(syn_dominates(stmt_of(vk[0]), x) for x in vkey + adj + sup)
    cx.require(ok, vk[0] if vk else init, "validate_kwargs(kwargs) runs first, unconditionally", construct=short(vk[0]) if vk else "(no validate_kwargs call)")
    ok = len(vkey) == 1 and set(guard_texts(vkey[0])) == set([("self.key_name", True)]) and U(vkey[0].args[0]) == params(init)[1]
    cx.require(ok, vkey[0] if vkey else init, "validate_key(key) runs iff the response class has a key_name", construct=short(vkey[0]) if vkey else "(no validate_key call)")
    ok = len(adj) == 1 and len(sup) == 1 and ((isinstance(stmt_of(adj[0]), ast.Assign) and U(stmt_of(adj[0]).targets[0]) == U(sup[0].args[0]) and syn_dominates(stmt_of(adj[0]), sup[0])
                                              and not [a for a in assigns_to(init, U(sup[0].args[0])) if a is not stmt_of(adj[0]) and a.lineno > adj[0].lineno])
                                             or (sup[0].args and sup[0].args[0] is adj[0]))
    cx.require(ok, sup[0] if sup else init, "the dict is initialised from the *result* of adjust_for_length", construct="%s ; %s" % (short(stmt_of(adj[0])) if adj else "?", short(sup[0]) if sup else "?"))
    rdef = [a for a in walk_body(init.body) if isinstance(a, ast.Assign) and U(a.targets[0]) == "r" and isinstance(a.value, ast.Dict)]
    ok = bool(rdef) and dict((const_str(k), U(v)) for k, v in zip(rdef[0].value.keys, rdef[0].value.values)) == {"type": "self.response_type"}
    kst = [a for a in walk_body(init.body) if isinstance(a, ast.Assign) and U(a.targets[0]) == "r[self.key_name]"]
    ok = ok and len(kst) == 1 and U(kst[0].value) == params(init)[1]
    cx.require(ok, rdef[0] if rdef else init, "the stub starts as {type: response_type} plus the key under key_name", construct="r = {'type': self.response_type}; r[self.key_name] = key")
    # validate_key
    vkf = m.func("Response.validate_key", "C12.R2")
    rs = [x for x in walk_body(vkf.body) if isinstance(x, ast.Raise)]
    gs = [set(guard_texts(x)) for x in rs]
    k = params(vkf)[1]
    ok = any((k, False) in g for g in gs) and any(("isinstance(%s, str)" % k, False) in g for g in gs) and all("ValidationException" in U(x.exc) for x in rs)
    cx.require(ok, vkf, "validate_key raises for a falsy key and for a key that is not a str", construct="raises guarded by %s" % [sorted(g) for g in gs])
    vkw = m.func("Response.validate_kwargs", "C12.R2")
    rs = [x for x in walk_body(vkw.body) if isinstance(x, ast.Raise)]
    gs = [set(guard_texts(x)) for x in rs]
    kw = params(vkw)[1]
    ok = any(("self.response_type", False) in g for g in gs) and any(any("self.key_name in %s" % kw in t and "'type' in %s" % kw in t and p for t, p in g) for g in gs)
    cx.require(ok, vkw, "validate_kwargs raises when response_type is unset or a reserved name (key_name, 'type') is used as keyword", construct="raises guarded by %s" % [sorted(g) for g in gs])
    # adjust_for_length
    af = m.func("Response.adjust_for_length", "C12.R2")
    p = params(af)
    rets = [r for r in walk_body(af.body) if isinstance(r, ast.Return)]
    over = [r for r in rets if U(r.value) == p[2]]
    normal = [r for r in rets if U(r.value) == p[3]]
    ok = len(over) == 1 and len(normal) == 1
    if ok:
        g = set(guard_texts(over[0]))
        lim = "settings.defaults['max_detail_length']"
        ok = bool(set([("length > %s" % lim, True), ("length <= %s" % lim, False), ("%s < length" % lim, True), ("%s >= length" % lim, False)]) & g)
        gn = set(guard_texts(normal[0]))
        ok = ok and bool(set([("length > %s" % lim, False), ("length <= %s" % lim, True), ("%s < length" % lim, False), ("%s >= length" % lim, True)]) & gn)
        st = [a for a in walk_body(af.body) if isinstance(a, ast.Assign) and U(a.targets[0]) == "%s['max_detail_length_error']" % p[2]]
        ok = ok and len(st) == 1 and U(st[0].value) == "length" and (syn_dominates(st[0], over[0]) or (st[0].lineno < over[0].lineno and set(guard_texts(st[0])) == g))
        ld = [a for a in walk_body(af.body) if isinstance(a, ast.Assign) and U(a.targets[0]) == "length"]
        ok = ok and len(ld) == 1 and U(ld[0].value) == "len(str(%s))" % p[3]
        others = [a for a in walk_body(af.body) if isinstance(a, ast.Assign) and U(a.targets[0]).startswith(p[2] + "[") and a is not st[0]] if st else []
        ok = ok and not others
    cx.require(ok, af, "over the limit the stub {type, key, max_detail_length_error: length} is returned, otherwise the full kwargs",
               construct="if length > max_detail_length: r['max_detail_length_error'] = length; return r ; return kwargs")


def response_classes(cx, mods):
    out = []
    for m in mods:
        for q, c in m.classes():
            try:
                if cx.repo.is_subclass(c, PL + ":Response") and not (m.name == PL and q == "Response"):
                    out.append((m, q, c))
            except Exception:
                pass
    return out


def _class_attr(repo, c, name):
    for k in repo.mro(c):
        for st in k.body:
            if isinstance(st, ast.Assign) and any(isinstance(t, ast.Name) and t.id == name for t in st.targets):
                return k, st.value
    return None, None


def r3_response_table(cx, mods):
    cx.rule("C12.R3", "every response class has a distinct non-empty type and reaches Response.__init__", floor=9)
    types = {}
    for m, q, c in response_classes(cx, mods):
        k, v = _class_attr(cx.repo, c, "response_type")
        t = const_str(v) if v is not None else None
        cx.require(bool(t), c, "response class %s has a non-empty response_type" % q, construct="%s.response_type = %s" % (q, U(v) if v is not None else None))
        if t:
            if k is c:
                types.setdefault(t, []).append(q)
        init = [st for st in c.body if isinstance(st, FUNC_TYPES) and st.name == "__init__"]
        for fn in init:
            sup = [x for x in find_calls(fn.body, attr="__init__") if U(x.func.value).startswith("super(")]
            cx.require(len(sup) == 1 and not guard_texts(sup[0]), fn, "%s.__init__ reaches Response.__init__ unconditionally" % q, construct=short(sup[0]) if sup else "(no super().__init__)")
        for st in c.body:
            if isinstance(st, FUNC_TYPES) and st.name in ("adjust_for_length", "validate_key", "validate_kwargs"):
                if q == "make_metadata_key" and st.name == "adjust_for_length":
                    cx.ok(st, "make_metadata_key overrides adjust_for_length: frozen exemption (not one of the typed outcomes of the statement)", construct="def make_metadata_key.adjust_for_length")
                else:
                    cx.bad(st, "response class %s overrides %s: validation / the size stub could be bypassed" % (q, st.name), construct="def %s.%s" % (q, st.name))
    for t, qs in types.items():
        cx.require(len(qs) == 1, cx.repo.module(PL).cls(qs[0]) if cx.repo.module(PL).has(qs[0]) else None, "response_type '%s' is declared by exactly one class" % t, construct="%s: %s" % (t, qs))
    want = set(["rule", "pass", "info", "fingerprint", "metadata", "metadata_key", "none", "skip"])
    cx.require(want <= set(types), cx.repo.module(PL).cls("Response"), "the typed outcomes of the statement all exist", construct="types: %s" % sorted(types))


def handle_result_defs(cx, mods):
    out = []
    for m in mods:
        for q, fn in m.functions():
            if fn.name == "handle_result" and enclosing(fn, ast.ClassDef) is not None:
                out.append((m, q, fn))
    return out


def r4_dispatch(cx, mods):
    cx.rule("C12.R4", "every handle_result reports each response once, under its own type, with the same fields", floor=8)
    defs = handle_result_defs(cx, mods)
    if len(defs) < 2:
        cx.error("expected handle_result in SingleEvaluator and JsonFormat, found %d" % len(defs))
    for m, q, fn in defs:
        p = params(fn)
        plugin, r = p[1], p[2]
        td = [a for a in fn.body if isinstance(a, ast.Assign) and U(a.value) == "%s['type']" % r]
        if not td:
            cx.unknown(fn, "%s does not read r['type']" % q)
            continue
        tv = U(td[0].targets[0])
        # special branches
        ifs = [s for s in fn.body if isinstance(s, ast.If)]
        if not ifs:
            cx.unknown(fn, "no dispatch on the type")
            continue
        chain = []
        node = ifs[0]
        while True:
            chain.append(node)
            if len(node.orelse) == 1 and isinstance(node.orelse[0], ast.If):
                node = node.orelse[0]
            else:
                break
        conds = [U(c.test) for c in chain]
        delegated = False
        if len(chain) == 1 and isinstance(chain[0].test, ast.Compare) and len(chain[0].test.ops) == 1 and isinstance(chain[0].test.ops[0], ast.In) and U(chain[0].test.left) == tv \
                and isinstance(chain[0].test.comparators[0], (ast.Tuple, ast.List, ast.Set)) and sorted(const_str(e) or "" for e in chain[0].test.comparators[0].elts) == sorted(SPECIAL):
            # the special types are handed to the base evaluator's handle_result (which is checked as a definition of its own)
            body = [s_ for s_ in chain[0].body if not (isinstance(s_, ast.Expr) and isinstance(s_.value, ast.Constant))]
            delegated = len(body) == 1 and isinstance(body[0], ast.Expr) and isinstance(body[0].value, ast.Call) and call_attr(body[0].value) == "handle_result" \
                and U(body[0].value.func.value).startswith("super(") and [U(a) for a in body[0].value.args] == [plugin, r] and len(defs) >= 2
        cx.require(delegated or conds == ["%s == '%s'" % (tv, s) for s in SPECIAL], chain[0], "%s dispatches the special types skip / metadata / metadata_key, everything else generically" % q,
                   construct="branches: %s" % conds)
        if delegated:
            cx.ok(chain[0], "%s leaves skip / metadata / metadata_key to the base evaluator" % q, construct=short(chain[0].body[-1], 80))
        else:
            sk = [x for x in find_calls(chain[0].body, attr="append")]
            cx.require(len(sk) == 1 and U(sk[0].func.value) == "self.rule_skips" and U(sk[0].args[0]) == r, chain[0], "%s records a skip response in rule_skips" % q, construct=short(sk[0]) if sk else "(none)")
        generic = chain[-1].orelse
        aps = [x for x in find_calls(generic, attr="append")]
        ok = len(aps) == 1 and U(aps[0].func.value) == "self.results[%s]" % tv and enclosing(aps[0], (ast.For, ast.While)) is None and not guard_texts(aps[0], stop=chain[-1])
        cx.require(ok, aps[0] if aps else chain[-1], "%s appends exactly one entry to results[<the response's own type>]" % q, construct=short(aps[0], 100) if aps else "(none)")
        dicts = [d for d in walk_body(generic) if isinstance(d, ast.Dict) and any(const_str(k) == "component" for k in d.keys if k is not None)]
        host = fn
        if not dicts:
            # the entry may be built by a method shared between the evaluators: follow self.<m>(plugin, r) through the class hierarchy
            cls = m.get(q.rsplit(".", 1)[0]) if "." in q else None
            for c in find_calls(generic):
                if cls is not None and isinstance(c.func, ast.Attribute) and U(c.func.value) == "self" and [U(a) for a in c.args] == [plugin, r] and not c.keywords:
                    k, meth = cx.repo.lookup_method(cls, c.func.attr)
                    if meth is None:
                        continue
                    rets = [x for x in walk_body(meth.body) if isinstance(x, ast.Return)]
                    if len(rets) == 1 and isinstance(trace(rets[0].value, meth), ast.Dict):
                        dd = trace(rets[0].value, meth)
                        if any(const_str(kk) == "component" for kk in dd.keys if kk is not None):
                            dicts = [dd]
                            host = meth
                            plugin, r = params(meth)[1], params(meth)[2]
                            break
        if not dicts:
            cx.bad(chain[-1], "%s builds the result entry" % q, construct="(no result dict)")
            continue
        d = dicts[0]
        keys = set(const_str(k) for k in d.keys if k is not None and const_str(k))
        vals = dict((const_str(k), trace(v, host)) for k, v in zip(d.keys, d.values) if k is not None and const_str(k))
        idk = [U(k) for k in d.keys if k is not None and const_str(k) is None]
        cx.require(RESULT_KEYS <= keys and len(idk) == 1, d, "%s: the entry has <type>_id, component, type, key, details, tags, links" % q, construct="keys: %s + %s" % (sorted(keys), idk))
        raw = dict((const_str(k), v) for k, v in zip(d.keys, d.values) if k is not None and const_str(k))
        ok = (U(raw.get("type")) == tv and host is fn or U(vals.get("type")) == "%s['type']" % r) and U(vals.get("details")) == r and U(vals.get("component")) == "dr.get_name(%s)" % plugin and U(vals.get("key")) == "%s.get_key()" % r \
            and U(vals.get("tags")) == "list(dr.get_tags(%s))" % plugin and U(vals.get("links")).startswith("dr.get_delegate(%s).links" % plugin)
        cx.require(ok, d, "%s: type is the response's own type, details the response, key its key, component/tags/links those of the rule" % q,
                   construct=", ".join("%s=%s" % (k, short(v, 40)) for k, v in sorted(vals.items())))
    ev = cx.repo.module(EV)
    ob = ev.func("Evaluator.observer", "C12.R4")
    hr = [x for x in find_calls(ob.body, attr="handle_result")]
    ok = len(hr) == 1 and set(guard_texts(hr[0])) == set([("plugins.is_rule(comp)", True), ("comp in broker", True)]) and [U(a) for a in hr[0].args] == ["comp", "broker[comp]"] \
        and enclosing(hr[0], (ast.For, ast.While)) is None
    cx.require(ok, hr[0] if hr else ob, "the observer hands a rule's value to handle_result exactly once, iff the component is a rule with a value", construct=short(hr[0]) if hr else "(none)")
    # every override of the observer hands over to the base observer (which files the result) before it does anything that can fail:
    # an exception in the override's own bookkeeping is swallowed by fire_observers, and with it the rule's outcome would be lost
    n_over = 0
    for q, c in ev.classes():
        if c.name == "Evaluator":
            continue
        for st in c.body:
            if isinstance(st, FUNC_TYPES) and st.name == "observer":
                n_over += 1
                body = [b for b in st.body if not (isinstance(b, ast.Expr) and isinstance(b.value, ast.Constant))]
                sup = [x for x in find_calls(st.body, attr="observer") if U(x.func.value).startswith("super(")]
                ok = len(sup) == 1 and bool(body) and isinstance(body[0], ast.Expr) and body[0].value is sup[0] and [U(a) for a in sup[0].args] == params(st)[1:3]
                cx.require(ok, sup[0] if sup else st, "%s.observer calls the base observer first, unconditionally, with the same arguments" % c.name,
                           construct=short(body[0], 90) if body else "def observer")
    if not n_over:
        cx.error("expected at least one observer override among the evaluators", "C12.R4")
    pp = ev.func("Evaluator.preprocess", "C12.R4")
    ao = [x for x in find_calls(pp.body, attr="add_observer")]
    cx.require(len(ao) == 1 and U(ao[0].args[0]) == "self.observer", ao[0] if ao else pp, "the evaluator registers its observer once", construct=short(ao[0]) if ao else "(none)")


def r5_headings(cx):
    cx.rule("C12.R5", "the response document lists every result type under its heading", floor=3)
    ev = cx.repo.module(EV)
    fn = ev.func("SingleEvaluator.get_response", "C12.R5")
    d = [x for x in walk_body(fn.body) if isinstance(x, ast.Dict) and any(const_str(k) == "reports" for k in x.keys if k is not None)]
    ok = False
    if d:
        t = dict((const_str(k), U(v)) for k, v in zip(d[0].keys, d[0].values))
        ok = t.get("reports") == "self.results['rule']" and t.get("fingerprints") == "self.results['fingerprint']" and t.get("skips") == "self.rule_skips"
    cx.require(ok, d[0] if d else fn, "rule -> reports, fingerprint -> fingerprints, skip list -> skips", construct=short(d[0], 150) if d else "(none)")
    cps = [c for c in feat.filtered_copies(fn.body) if "self.results" in U(c[2])]
    ok = False
    if len(cps) == 1:
        node, tgt, it, atoms, key, val, kvar, vvar = cps[0]
        ok = tgt == "r" and key == kvar and val == vvar and atoms == set([("%s in ('rule', 'fingerprint')" % kvar, False)]) \
            and U(it) in ("six.iteritems(self.results)", "self.results.items()")
    cx.require(ok, cps[0][0] if cps else fn, "every other result type is copied under its own name", construct=short(cps[0][0], 120) if cps else "(none)")
    init = ev.func("Evaluator.__init__", "C12.R5")
    rd = [a for a in walk_body(init.body) if isinstance(a, ast.Assign) and U(a.targets[0]) == "self.results"]
    cx.require(len(rd) == 1 and U(rd[0].value) == "defaultdict(list)", rd[0] if rd else init, "results is a per-type list table", construct=short(rd[0]) if rd else "(none)")


def r6_filter_table(cx):
    cx.rule("C12.R6", "the --show-rules choices and the filtering of response headings agree", floor=6)
    fm = cx.repo.module(FM)
    choices = None
    for n in ast.walk(fm.tree):
        if isinstance(n, ast.Call) and call_attr(n) == "add_argument" and any(const_str(a) == "--show-rules" for a in n.args):
            ch = kwarg(n, "choices")
            try:
                choices = literal(cx.repo, ch)
            except Exception:
                choices = None
    if choices is None:
        cx.unknown(fm.tree.body[0], "cannot find the choices of --show-rules")
        return
    fn = fm.func("get_response_of_types", "C12.R6")
    heading = {"rule": "reports", "fingerprint": "fingerprints", "info": "info", "pass": "pass", "none": "none"}
    pops = {}      # option -> (receiver text, heading, safe when absent, description)
    for x in find_calls(fn.body, attr="pop"):
        g = set(guard_texts(x))
        recv = U(x.func.value)
        safe_default = len(x.args) == 2
        for t, p in g:
            if not (t.endswith(" in show_rules") and not p):
                continue
            sel = t[:-len(" in show_rules")]
            if sel.startswith("'"):
                h = const_str(x.args[0]) if x.args else None
                safe = safe_default or ("'%s' in %s" % (h, recv), True) in g or ("'%s' in %s.get('system', {})" % (h, recv.replace("['system']", "")), True) in g
                pops[sel.strip("'")] = (recv, h, safe, "%s guarded by %s" % (U(x), sorted(g)))
            else:
                # table driven: for <sel>, <heading> in TABLE: if <sel> not in show_rules: response.pop(<heading>, None)
                lp = enclosing(x, ast.For)
                if lp is None or not isinstance(lp.target, ast.Tuple) or len(lp.target.elts) != 2 or U(lp.target.elts[0]) != sel or not x.args or U(x.args[0]) != U(lp.target.elts[1]):
                    continue
                try:
                    tbl = literal(cx.repo, fm.top.get(U(lp.iter)) if isinstance(lp.iter, ast.Name) and fm.top.get(U(lp.iter)) is not None else lp.iter)
                except Exception:
                    tbl = None
                if isinstance(tbl, dict):
                    tbl = list(tbl.items())
                if not isinstance(tbl, (list, tuple)) or feat.loop_exits(lp):
                    continue
                extra = set((a, b) for a, b in guard_texts(x, stop=lp)) - set([(t, p)])
                for o_, h_ in tbl:
                    safe = safe_default or ("%s in %s" % (U(lp.target.elts[1]), recv), True) in extra
                    pops[o_] = (recv, h_, safe, "%s for (%r, %r) in %s" % (U(x), o_, h_, U(lp.iter)))
    opts = [c.replace("fail", "rule") for c in choices]
    for o in opts:
        if o not in pops:
            cx.bad(fn, "option '%s' of --show-rules filters its heading when not selected" % o, construct="(no pop guarded by '%s' not in show_rules)" % o)
            continue
        recv, h, safe, desc = pops[o]
        if o == "metadata":
            ok = recv in ("response['system']", "response.get('system', {})") and h == "metadata"
        else:
            ok = recv == "response" and h == heading.get(o, o) and safe
        cx.require(ok, fn, "'%s' not selected -> heading '%s' removed (and only that heading)" % (o, heading.get(o, o)), construct=desc)
    for o in pops:
        cx.require(o in opts, fn, "every filtered type is a selectable choice", construct="pop for '%s'" % o)
    # 'fail' is translated to 'rule'
    txt = U(fm.tree)
    cx.require("opt.replace('fail', 'rule')" in txt, fm.tree.body[0], "the user-facing choice 'fail' is translated to response type 'rule'", construct="opt.replace('fail', 'rule')")
    # skips
    sk = [x for x in find_calls(fn.body, attr="pop") if U(x.func.value) == "response" and x.args and const_str(x.args[0]) == "skips"]
    ok = len(sk) == 1 and (set(guard_texts(sk[0])) == set([("missing", False), ("'skips' in response", True)]) or (len(sk[0].args) == 2 and set(guard_texts(sk[0])) == set([("missing", False)])))
    cx.require(ok, sk[0] if sk else fn, "skips are hidden iff missing requirements were not requested", construct=short(sk[0]) if sk else "(none)")


def r8_own_attributes(cx):
    """'reported with its key, component name, tags and links': what get_tags / get_delegate(rule).links return must be the rule's own.  The class-level
    defaults of ComponentType (tags = [], metadata = {}, links ...) are one object for every component: the constructor may copy them, never grow them."""
    cx.rule("C12.R8", "a rule is reported with its own tags / links / metadata and once per registered observer", floor=3)
    m = cx.repo.module("insights.core.dr")
    classes = [m.cls("ComponentType", "C12.R8")]
    pm = cx.repo.module(PL)
    classes += [c for c in pm.tree.body if isinstance(c, ast.ClassDef)]
    n = 0
    for c in classes:
        chain = [c]
        ct = m.cls("ComponentType", "C12.R8")
        if c is not ct:
            chain.append(ct)          # defaults inherited from the base are shared just the same
        for fn in [f for f in c.body if isinstance(f, FUNC_TYPES)]:
            bad = []
            for owner in chain:
                shared = feat.class_level_mutables(owner)
                if not shared:
                    continue
                bad += feat.shared_default_mutations(ast.ClassDef(name=c.name, bases=[], keywords=[], body=owner.body, decorator_list=[]), fn)
            if fn.name == "__init__" or bad:
                n += 1
                cx.require(not bad, bad[0] if bad else fn, "%s.%s modifies no class-level default (tags, links, metadata, requires ... are shared by every component)" % (c.name, fn.name),
                           construct=short(stmt_of(bad[0]), 90) if bad else "def %s.%s" % (c.name, fn.name))
    # observers: registering the same observer twice must not report every outcome twice -> observer tables are sets (or guarded appends)
    obs_stores = []
    for x in ast.walk(m.tree):
        if isinstance(x, ast.Call) and isinstance(x.func, ast.Attribute) and x.func.attr in ("add", "append", "extend", "update", "insert") and isinstance(x.func.value, ast.Subscript) \
                and U(x.func.value.value) in ("self.observers", "TYPE_OBSERVERS"):
            obs_stores.append(x)
    for a_ in [x for x in ast.walk(m.tree) if isinstance(x, ast.Assign) and isinstance(x.targets[0], ast.Subscript) and U(x.targets[0].value) in ("self.observers", "TYPE_OBSERVERS")]:
        v_ = a_.value
        setish = (isinstance(v_, ast.Call) and call_name(v_) in ("set", "frozenset")) or isinstance(v_, (ast.Set, ast.SetComp)) or (isinstance(v_, ast.BinOp) and isinstance(v_.op, (ast.BitOr, ast.BitAnd, ast.Sub)))
        cx.require(setish, a_, "an entry of the observer tables is a set (registering twice is idempotent)", construct=short(a_, 80))
    if not obs_stores:
        cx.unknown(m.tree.body[0], "cannot find where observers are registered (self.observers[...] / TYPE_OBSERVERS[...])")
    for x in obs_stores:
        ok = x.func.attr in ("add", "update")
        if not ok:
            arg = U(x.args[0]) if x.args else "?"
            ok = any(p_ is False and t.startswith("%s in " % arg) for t, p_ in guard_texts(x))
        cx.require(ok, x, "registering an observer is idempotent (a set, or an append guarded by 'not in'): an evaluator registered twice still files each outcome once", construct=short(x, 80))
    for nm, node in (("TYPE_OBSERVERS", m.top.get("TYPE_OBSERVERS")),):
        ok = node is not None and isinstance(node, ast.Call) and call_name(node) in ("defaultdict", "collections.defaultdict") and node.args and U(node.args[0]) == "set"
        guarded = all(x.func.attr in ("add", "update") or any(p_ is False for t, p_ in guard_texts(x)) for x in obs_stores)
        cx.require(ok or (node is not None and guarded and all(x.func.attr not in ("add", "update") for x in obs_stores)), node if node is not None else m.tree.body[0],
                   "the table of type observers holds sets", construct="%s = %s" % (nm, U(node)))


def run(cx):
    repo = cx.repo
    cx.extra["explanation"] = ("C12: return discipline of rule.process, validation order and stub construction of Response, response-type table over all Response subclasses, "
                               "sibling agreement of every handle_result, heading table of get_response, agreement of --show-rules choices with the response filter; "
                               "'exactly once' additionally rests on C01.R1 (one attempt) and C03.R1 (observers fired once in finally), re-run here.")
    cx.undecided = ["size arithmetic around the limit", "formatter output text"]
    anchor = [repo.module(PL), repo.module(EV), repo.module(FM), repo.module("insights.formats._json"), repo.module("insights.core.dr")]
    mods = repo.all_modules() if cx.tier == "thorough" else anchor
    cx.guard(r1_return_discipline)
    cx.guard(r2_construction)
    cx.guard(r3_response_table, mods)
    cx.guard(r4_dispatch, mods)
    cx.guard(r5_headings)
    cx.guard(r6_filter_table)
    cx.guard(r8_own_attributes)
    cx.borrow(c01.r1_run_guard, "C01.R1", "C12.R7", "one attempt per rule (C01.R1) and observers fired once in finally (C03.R1)")
    cx.borrow(c03.r1_no_escape, "C03.R1", "C12.R7", "one attempt per rule (C01.R1) and observers fired once in finally (C03.R1)")
    # 'accounted' means outcome, exception and missing requirements live in the one broker the evaluator reports from: nobody copies instances
    # from one broker into another (which would leave the exceptions behind) - the who-may-write rule on Broker.instances (C01.R3)
    cx.borrow(c01.r3_single_writer, "C01.R3", "C12.R7", "one attempt per rule (C01.R1) and observers fired once in finally (C03.R1)", mods)
