"""C18 - a playbook's signed digest covers everything but the declared dynamic parts."""
import ast

from ..model import (AnalysisError, FUNC_TYPES, U, call_attr, call_name, dotted, enclosing, enclosing_function, guard_texts, guards_ex,
                     short, walk_body, walk_local, ancestors, parent, const_str, kwarg, literal)
from .. import feat
from ..util import params, find_calls, assigns_to, trace, stmt_of, has_exit, syn_dominates
from ..cfg import CFG, ENTRY, EXIT

PV = "insights.client.apps.ansible.playbook_verifier"
SR = PV + ".serializer"


def _len_values(atoms, text):
    """The set of values of ``text`` allowed by the guard atoms (None: unbounded)."""
    vals, excl = None, set()
    for t, p in atoms:
        try:
            e = ast.parse(t, mode="eval").body
        except SyntaxError:
            continue
        if not (isinstance(e, ast.Compare) and len(e.ops) == 1 and U(e.left) == text):
            continue
        try:
            rhs = ast.literal_eval(e.comparators[0])
        except ValueError:
            continue
        op = e.ops[0]
        if isinstance(op, ast.Eq) and isinstance(rhs, int):
            cand = set([rhs])
        elif isinstance(op, ast.In) and isinstance(rhs, (tuple, list, set)):
            cand = set(rhs)
        else:
            continue
        if p:
            vals = cand if vals is None else vals & cand
        else:
            excl |= cand
    return None if vals is None else vals - excl


def r1_exclusion(cx):
    cx.rule("C18.R1", "only 'hosts'/'vars' or a direct child of them can be excluded; anything else is an error", floor=7)
    m = cx.repo.module(PV)
    lab = m.top.get("PLAYBOOK_DYNAMIC_LABELS")
    try:
        labels = literal(cx.repo, lab) if lab is not None else None
    except ValueError:
        labels = None
    cx.require(labels is not None and sorted(labels) == ["hosts", "vars"], lab if lab is not None else m.tree.body[0], "the dynamic labels are exactly 'hosts' and 'vars'", construct="PLAYBOOK_DYNAMIC_LABELS = %s" % labels)
    fn = m.func("exclude_dynamic_elements", "C18.R1")
    play = params(fn)[0]
    loops = [s for s in fn.body if isinstance(s, ast.For)]
    if not loops:
        cx.unknown(fn, "no loop over the exclusion requests")
        return
    lp = loops[0]
    dels = [d for d in walk_body(lp.body) if isinstance(d, ast.Delete)]
    if not dels:
        cx.bad(lp, "excluded elements are deleted from the copy", construct="(no del)")

    # the local holding the path elements of one request: whatever the deletions index with [0] (falls back to the pinned name)
    EL = "elements"
    for d_ in dels:
        t_ = d_.targets[0]
        while isinstance(t_, ast.Subscript) and isinstance(t_.value, ast.Subscript):
            t_ = t_.value
        if isinstance(t_, ast.Subscript) and isinstance(t_.slice, ast.Subscript) and isinstance(t_.slice.value, ast.Name) and U(t_.slice.slice) == "0":
            EL = t_.slice.value.id
            break

    def _shape(d):
        t = d.targets[0]
        depth, subs, node = 0, [], t
        while isinstance(node, ast.Subscript):
            depth += 1
            subs.append(U(node.slice))
            node = node.value
        return depth, list(reversed(subs)), U(node)
    for d in dels:
        depth, subs, base = _shape(d)
        ok = depth in (1, 2) and base == "result" and subs == ["%s[%d]" % (EL, i) for i in range(depth)]
        cx.require(ok, d, "a deletion removes result[elements[0]] or result[elements[0]][elements[1]] of the copy", construct=short(d))
        tr = enclosing(d, ast.Try)
        ok = tr is not None and all(any(isinstance(s_, ast.Raise) and "PlaybookVerificationError" in U(s_.exc) for s_ in h.body) for h in tr.handlers) and bool(tr.handlers)
        cx.require(ok, d, "a deletion that fails (missing element) raises PlaybookVerificationError", construct="try: %s except: raise PlaybookVerificationError" % short(d))
    pops = [x for x in find_calls(lp.body, attr="pop") if U(x.func.value).startswith("result")]
    for x in pops:
        cx.bad(x, "elements are removed with 'del' inside try/except so that a missing element raises (pop with a default hides it)", construct=short(x))
    # path rule over the loop body: a request is accepted (the body ends without raising) only on a path that performed exactly one deletion whose
    # depth equals the number of path elements and whose first element is a dynamic label; every other path raises
    try:
        ps_ = feat.paths(lp.body)
    except ValueError:
        cx.unknown(lp, "too many paths through the exclusion loop")
        ps_ = []
    accepted = 0
    for trail, end in ps_:
        if end == "raise":
            continue
        conds = set((e[1], e[2]) for e in trail if e[0] == "cond")
        done = [e[1] for e in trail if e[0] == "stmt" and isinstance(e[1], ast.Delete)]
        if any(c[0].startswith("except") for c in conds):
            cx.bad(lp, "a failing deletion never ends a path normally", construct="path through an except arm ends with '%s'" % end)
            continue
        accepted += 1
        ok = len(done) == 1
        if ok:
            depth = _shape(done[0])[0]
            ok = _len_values(conds, "len(%s)" % EL) == set([depth]) and ("%s[0] in PLAYBOOK_DYNAMIC_LABELS" % EL, True) in conds
        cx.require(ok, done[0] if done else lp, "an accepted exclusion request performed exactly the deletion of its own depth under a dynamic label (anything else is an error)",
                   construct="path %s -> %s" % (sorted(conds), [short(x) for x in done]))
    cx.require(accepted >= 2, lp, "both request shapes (label, label/child) have an accepting path", construct="%d accepting paths" % accepted)
    cp = [a for a in fn.body if isinstance(a, ast.Assign) and U(a.targets[0]) == "result"]
    ok = len(cp) == 1 and U(cp[0].value) == "copy.deepcopy(%s)" % play and syn_dominates(cp[0], lp)
    cx.require(ok, cp[0] if cp else fn, "deletions apply to a deep copy of the play", construct=short(cp[0]) if cp else "(none)")
    rs = [r for r in fn.body if isinstance(r, ast.If) and any(isinstance(x, ast.Raise) for x in r.body)]
    ok = bool(rs) and "'insights_signature_exclude' not in %s.get('vars', {})" % play == U(rs[0].test) and syn_dominates(rs[0], cp[0]) if cp else False
    cx.require(ok, rs[0] if rs else fn, "a missing exclusion list is an error, raised before anything else", construct=short(rs[0].test) if rs else "(none)")
    rets = [r for r in walk_body(fn.body) if isinstance(r, ast.Return)]
    cx.require(len(rets) == 1 and U(rets[0].value) == "result", rets[0] if rets else fn, "the cleaned copy is returned", construct=short(rets[0]) if rets else "(none)")
    el = [a for a in walk_body(lp.body) if isinstance(a, ast.Assign) and U(a.targets[0]) == EL]
    ok = len(el) == 1 and isinstance(el[0].value, ast.ListComp) and len(el[0].value.generators) == 1 and not guard_texts(el[0], stop=lp)
    if ok:
        g_ = el[0].value.generators[0]
        tv_ = U(g_.target)
        ok = U(el[0].value.elt) == tv_ and U(g_.iter) == "%s.split('/')" % U(lp.target) and [U(i_) for i_ in g_.ifs] in (["%s != ''" % tv_], [tv_], ["len(%s) > 0" % tv_], ["%s != \"\"" % tv_])
    cx.require(ok, el[0] if el else lp, "a request is split into its path elements", construct=short(el[0]) if el else "(none)")


def _sig_text(t):
    """Look-ups with a default and plain subscripts denote the same element when the element exists."""
    for a, b in (((".get('vars', None)"), "['vars']"), (".get('vars', {})", "['vars']"), (".get('vars')", "['vars']"),
                 (".get(PLAYBOOK_SIGNATURE_LABEL, None)", "[PLAYBOOK_SIGNATURE_LABEL]"), (".get(PLAYBOOK_SIGNATURE_LABEL)", "[PLAYBOOK_SIGNATURE_LABEL]")):
        t = t.replace(a, b)
    return t


def r2_digest_input(cx):
    cx.rule("C18.R2", "the digest is SHA-256 of the serialisation of the whole cleaned play", floor=5)
    m = cx.repo.module(PV)
    vp = m.func("verify_play", "C18.R2")
    play = params(vp)[0]
    ev = [x for x in find_calls(vp.body, name="execute_verification")]
    ok = len(ev) == 1
    if ok:
        a0 = trace(ev[0].args[0], vp)
        ok = U(a0) == "exclude_dynamic_elements(%s)" % play
    cx.require(ok, ev[0] if ev else vp, "verify_play verifies exclude_dynamic_elements(<the whole play>)", construct=short(ev[0]) if ev else "(none)")
    sig = trace(ev[0].args[1], vp) if ev and len(ev[0].args) > 1 else None
    cx.require(sig is not None and _sig_text(U(sig)) == "%s['vars'][PLAYBOOK_SIGNATURE_LABEL]" % play, ev[0] if ev else vp, "the signature checked is the play's own", construct="encoded_signature = %s" % U(sig))
    xv = m.func("execute_verification", "C18.R2")
    p = params(xv)[0]
    sp = [a for a in walk_body(xv.body) if isinstance(a, ast.Assign) and U(a.value) == "serialize_play(%s)" % p]
    hp = [a for a in walk_body(xv.body) if isinstance(a, ast.Assign) and isinstance(a.value, ast.Call) and call_name(a.value) == "hash_play"]
    ok = len(sp) == 1 and len(hp) == 1 and U(hp[0].value.args[0]) == U(sp[0].targets[0])
    cx.require(ok, hp[0] if hp else xv, "the hash input is serialize_play(<the play it was given>)", construct="%s ; %s" % (short(sp[0]) if sp else "?", short(hp[0]) if hp else "?"))
    vd = [x for x in find_calls(xv.body, attr="verify_data")]
    ok = len(vd) == 1 and bool(hp) and U(vd[0].args[1]) == U(hp[0].targets[0])
    rets = [r for r in walk_body(xv.body) if isinstance(r, ast.Return)]
    ok = ok and len(rets) == 1 and bool(hp) and U(rets[0].value) == "(result, %s)" % U(hp[0].targets[0])
    cx.require(ok, vd[0] if vd else xv, "the signature is verified against that digest, and the same digest is returned for the revocation check", construct=short(vd[0]) if vd else "(none)")
    # what is hashed is what the loader built: a loader told to tolerate repeated mapping keys silently keeps one of the values, so the digest no longer covers
    # the other (which another YAML consumer may well be the one to use)
    dup = [a for a in ast.walk(m.tree) if isinstance(a, ast.Assign) and any(isinstance(t, ast.Attribute) and t.attr == "allow_duplicate_keys" for t in a.targets) and U(a.value) not in ("False", "None")] + \
        [k for c in ast.walk(m.tree) if isinstance(c, ast.Call) for k in c.keywords if k.arg == "allow_duplicate_keys" and U(k.value) not in ("False", "None")]
    cx.require(not dup, dup[0] if dup else m.tree.body[0], "the playbook loader rejects documents with repeated mapping keys (no allow_duplicate_keys)", construct=short(dup[0]) if dup else "loader configuration without allow_duplicate_keys")
    hf = m.func("hash_play", "C18.R2")
    hp0 = params(hf)[0]
    shas = [a for a in walk_body(hf.body) if isinstance(a, ast.Assign) and U(a.value) == "hashlib.sha256()"]
    ups = [x for x in find_calls(hf.body, attr="update")]
    rets = [r for r in walk_body(hf.body) if isinstance(r, ast.Return)]
    ok = len(shas) == 1 and len(ups) == 1 and U(ups[0].args[0]) == hp0 and len(rets) == 1 and U(rets[0].value) == "%s.digest()" % U(shas[0].targets[0]) and not guard_texts(ups[0])
    ok = ok or (not ups and len(rets) == 1 and U(rets[0].value) == "hashlib.sha256(%s).digest()" % hp0 and not guard_texts(rets[0]))
    cx.require(ok, hf, "hash_play = sha256 over the whole byte string, one update", construct="sha.update(serialized_play); return sha.digest()")
    sf = m.func("serialize_play", "C18.R2")
    sp0 = params(sf)[0]
    rets = [r for r in walk_body(sf.body) if isinstance(r, ast.Return)]
    forms = []          # text of every value that can be encoded and returned
    ok = bool(rets)
    for r in rets:
        v = r.value
        if not (isinstance(v, ast.Call) and call_attr(v) == "encode" and [const_str(a) for a in v.args] == ["utf-8"] and not v.keywords):
            ok = False
            continue
        inner = v.func.value
        if isinstance(inner, ast.Name) and inner.id != sp0:
            cs = feat.value_cases(sf, inner.id, before=r)
            if cs is None:
                # plain if/elif/else chain of assignments: take every assigned value
                cs = set((frozenset(), U(a.value)) for a in assigns_to(sf, inner.id))
            forms.extend(t for g_, t in cs)
            ok = ok and bool(cs)
        else:
            forms.append(U(inner))
    allowed_forms = set(["str(normalize_play_py2(%s))" % sp0, "str(%s)" % sp0, "PlaybookSerializer.serialize(%s)" % sp0])
    ok = ok and set(forms) <= allowed_forms and "PlaybookSerializer.serialize(%s)" % sp0 in forms
    cx.require(ok, sf, "every serialisation branch serialises the whole play", construct=" | ".join(forms))


def r3_checks_dominate(cx):
    cx.rule("C18.R3", "success is reached only after signature, verification result and revocation checks", floor=6)
    m = cx.repo.module(PV)
    vf = m.func("verify", "C18.R3")
    play = params(vf)[0]
    rets = [r for r in walk_body(vf.body) if isinstance(r, ast.Return)]
    ok = len(rets) == 1 and U(rets[0].value) == play
    cx.require(ok, rets[0] if rets else vf, "verify returns the play at exactly one place", construct=short(rets[0]) if rets else "(none)")
    if not ok:
        return
    g = set((U(e), p, o) for e, p, o in guards_ex(rets[0]))
    cx.require(("verified", True, "exit-raise") in g, rets[0], "'return play' is reached only past 'if not verified: raise'", construct="guards: %s" % sorted(x[:2] for x in g))
    vd = [a for a in walk_body(vf.body) if isinstance(a, ast.Assign) and U(a.value) == "verify_play(%s)" % play]
    ok = len(vd) == 1 and isinstance(vd[0].targets[0], ast.Tuple) and [U(e) for e in vd[0].targets[0].elts] == ["verified", "play_hash"] and syn_dominates(vd[0], rets[0])
    cx.require(ok, vd[0] if vd else vf, "verified and play_hash come from verify_play(<this play>)", construct=short(vd[0]) if vd else "(none)")
    lp = [s for s in vf.body if isinstance(s, ast.For) and U(s.iter) == "revocation_list"]
    ok = False
    if lp:
        rs = [r for r in walk_body(lp[0].body) if isinstance(r, ast.Raise)]
        ok = len(rs) == 1 and "PlaybookVerificationError" in U(rs[0].exc) and set(guard_texts(rs[0], stop=lp[0])) == set([("play_hash == bytearray.fromhex(%s['hash'])" % U(lp[0].target), True)]) \
            and not [b for b in walk_body(lp[0].body) if isinstance(b, (ast.Break, ast.Continue, ast.Return))] and syn_dominates(lp[0], rets[0])
    if not lp:
        for r in [x for x in walk_body(vf.body) if isinstance(x, ast.Raise) and "PlaybookVerificationError" in U(x.exc)]:
            for t, p in guard_texts(r):
                e = ast.parse(t, mode="eval").body
                if p and isinstance(e, ast.Call) and call_name(e) == "any" and e.args and isinstance(e.args[0], (ast.GeneratorExp, ast.ListComp)):
                    g0 = e.args[0].generators
                    if len(g0) == 1 and U(g0[0].iter) == "revocation_list" and not g0[0].ifs and U(e.args[0].elt) == "play_hash == bytearray.fromhex(%s['hash'])" % U(g0[0].target) \
                            and syn_dominates([a for a in ancestors(r) if any(a is b for b in vf.body)][0], rets[0]):
                        ok = True
                        lp = [r]
    cx.require(ok, lp[0] if lp else vf, "every revocation entry is compared with the digest; a match raises; the loop precedes the success return", construct=short(lp[0], 140) if lp else "(no revocation loop)")
    rl = [a for a in walk_body(vf.body) if isinstance(a, ast.Assign) and U(a.targets[0]) == "revocation_list"]
    ok = len(rl) == 1 and isinstance(rl[0].value, ast.Call) and call_name(rl[0].value) == "get_play_revocation_list" and not guard_texts(rl[0]) - set(guard_texts(rets[0]))
    cx.require(ok, rl[0] if rl else vf, "the revocation list is loaded unconditionally", construct=short(rl[0]) if rl else "(none)")
    gl = m.func("get_play_revocation_list", "C18.R3")
    rets2 = [r for r in walk_body(gl.body) if isinstance(r, ast.Return)]
    ok = len(rets2) == 1 and ("verified", True, "exit-raise") in set((U(e), p, o) for e, p, o in guards_ex(rets2[0]))
    vv = [a for a in walk_body(gl.body) if isinstance(a, ast.Assign) and isinstance(a.value, ast.Call) and call_name(a.value) == "verify_play"]
    ok = ok and len(vv) == 1 and U(vv[0].value.args[0]) == "revoked_plays"
    cx.require(ok, gl, "the revocation list itself is signature-checked before it is used", construct="verified, _ = verify_play(revoked_plays); if not verified: raise")
    vp = m.func("verify_play", "C18.R3")
    ev = [x for x in find_calls(vp.body, name="execute_verification")]
    if ev:
        g = set((U(e), p, o) for e, p, o in guards_ex(ev[0]))
        p0 = params(vp)[0]
        gn = set()
        for t, p, o in g:
            e = ast.parse(t, mode="eval").body
            if isinstance(e, ast.Compare) and isinstance(e.left, ast.Name) and U(e.comparators[0]) == "None":
                d = trace(e.left, vp)
                if d is not e.left and not any(a.lineno > ev[0].lineno for a in assigns_to(vp, e.left.id)):
                    t = t.replace(e.left.id, U(d), 1)
            gn.add((_sig_text(t), p, o))
        ok = ("isinstance(%s['vars'], dict)" % p0, True, "exit-raise") in gn and ("%s['vars'][PLAYBOOK_SIGNATURE_LABEL] is None" % p0, False, "exit-raise") in gn
        cx.require(ok, ev[0], "verification runs only for a play with a 'vars' dict and a signature (both otherwise raise)", construct="guards: %s" % sorted(x[:2] for x in g))
    rsn = [r for r in walk_body(vp.body) if isinstance(r, ast.Raise)]
    cx.require(len(rsn) >= 2 and all("PlaybookVerificationError" in U(r.exc) for r in rsn), vp, "missing 'vars' or missing signature is a PlaybookVerificationError", construct="%d raises" % len(rsn))


SAFE_CALLS = ("cls._obj", "cls._str", "cls._dict", "cls._list")


def _interp_values(fn):
    """(node, expr, how) for every dynamic value interpolated into the serialised text of ``fn``."""
    out = []
    for n in walk_body(fn.body):
        if isinstance(n, ast.Call) and call_attr(n) == "format" and isinstance(n.func.value, ast.Constant):
            for k in n.keywords:
                out.append((n, k.value, "format(%s=...)" % k.arg))
            for a in n.args:
                out.append((n, a, "format positional"))
        if isinstance(n, ast.Call) and call_attr(n) == "join" and n.args and isinstance(n.args[0], (ast.GeneratorExp, ast.ListComp)):
            elt = n.args[0].elt
            if not (isinstance(elt, ast.Call) and call_attr(elt) == "format"):
                out.append((n, elt, "join element"))
    return out


def r4_escaping(cx):
    cx.rule("C18.R4", "every emitted string passes the escaper; the escape table escapes the escape character", floor=5)
    m = cx.repo.module(SR)
    for q in ("PlaybookSerializer._dict", "PlaybookSerializer._list"):
        fn = m.func(q, "C18.R4")
        vals = _interp_values(fn)
        if not vals:
            cx.unknown(fn, "no interpolated values found in %s" % q)
        for node, e, how in vals:
            ok = isinstance(e, ast.Call) and U(e.func) in SAFE_CALLS
            if ok:
                cx.ok(node, "%s interpolates %s through the escaping serializer (%s)" % (q, U(e), how), construct="%s: %s" % (how, U(e)))
            else:
                cx.bad(node, "%s interpolates '%s' raw (%s): a value containing quotes/parentheses can reproduce the text of a different play (serialisation not injective), and 1 / '1' collide" % (q, U(e), how),
                       construct="%s=%s" % (how.replace("format(", "").replace("=...)", ""), U(e)), func="%s:%s" % (m.name, q))
    ob = m.func("PlaybookSerializer._obj", "C18.R4")
    v = params(ob)[1]
    rets = [r for r in walk_body(ob.body) if isinstance(r, ast.Return)]
    for r in rets:
        t = U(r.value)
        g = set(guard_texts(r))
        if t in ("cls._dict(%s)" % v, "cls._list(%s)" % v, "cls._str(%s)" % v):
            cx.ok(r, "_obj dispatches to the typed serializer", construct=t)
        elif t == "str(%s)" % v:
            num = any("isinstance(%s, int)" % v in x and p for x, p in g)
            if num:
                cx.ok(r, "numbers are emitted with str()", construct="%s under %s" % (t, sorted(x for x, p in g if p)))
            else:
                cx.info(r, "fallback str(value) for unrecognised types (logged by the code as 'may misbehave'); not claimed")
        else:
            cx.bad(r, "_obj returns only typed serialisations", construct=t)
    disp = dict((U(r.value), sorted(t for t, p in guard_texts(r) if p)) for r in rets)
    ok = any("six.string_types" in " ".join(g) for t, g in disp.items() if t == "cls._str(%s)" % v)
    cx.require(ok, ob, "strings are dispatched to _str", construct="return cls._str(value) under isinstance(value, six.string_types)")
    sf = m.func("PlaybookSerializer._str", "C18.R4")
    tb = [a for a in walk_body(sf.body) if isinstance(a, ast.Assign) and U(a.targets[0]) == "special_chars" and isinstance(a.value, ast.Dict)]
    tbl_ref = "special_chars"
    if not tb:
        # table hoisted to a class attribute / module constant and read through cls / self / the module
        for n in ast.walk(sf):
            if isinstance(n, ast.Call) and call_attr(n) == "get" and len(n.args) == 2 and U(n.args[0]) == U(n.args[1]):
                ref = ref0 = n.func.value
                if isinstance(ref, ast.Name):
                    # local alias bound once to the hoisted table
                    d_ = assigns_to(sf, ref.id)
                    if len(d_) == 1 and isinstance(d_[0], ast.Assign) and isinstance(d_[0].value, (ast.Attribute, ast.Name)) and not guard_texts(d_[0]):
                        ref = d_[0].value
                nm = ref.attr if isinstance(ref, ast.Attribute) and U(ref.value) in ("cls", "self", "PlaybookSerializer") else ref.id if isinstance(ref, ast.Name) else None
                if nm is None:
                    continue
                cls_ = m.cls("PlaybookSerializer", "C18.R4")
                cand = [a for a in cls_.body if isinstance(a, ast.Assign) and U(a.targets[0]) == nm and isinstance(a.value, ast.Dict)] or \
                    ([ast.Assign(targets=[ast.Name(id=nm)], value=m.top.get(nm))] if isinstance(m.top.get(nm), ast.Dict) else [])
                writes = [x for x in ast.walk(m.tree) if isinstance(x, (ast.Subscript, ast.Attribute)) and isinstance(getattr(x, "ctx", None), (ast.Store, ast.Del)) and nm in U(x)]
                if cand and not writes:
                    tb = cand[:1]
                    tbl_ref = U(ref0)
    ok = False
    if tb:
        try:
            tbl = literal(cx.repo, tb[0].value)
        except ValueError:
            tbl = {}
        ok = tbl.get("\\") == "\\\\" and tbl.get("\n") == "\\n" and tbl.get("\t") == "\\t"
    cx.require(ok, tb[0] if tb else sf, "the escape table maps backslash, newline and tab to their escaped forms (escaping the escape character keeps the encoding unambiguous)",
               construct="special_chars: '\\\\' -> '\\\\\\\\', '\\n' -> '\\\\n', '\\t' -> '\\\\t'")
    lp = [s for s in sf.body if isinstance(s, ast.For)]
    ok = bool(lp) and U(lp[0].iter) == params(sf)[1] and len(lp[0].body) == 1 and U(lp[0].body[0]) == "escaped_string += %s.get(char, char)" % tbl_ref
    if not lp:
        v0 = params(sf)[1]
        for j in find_calls(sf.body, attr="join"):
            a = j.args[0] if j.args else None
            if isinstance(a, (ast.GeneratorExp, ast.ListComp)) and len(a.generators) == 1 and not a.generators[0].ifs and U(a.generators[0].iter) == v0 \
                    and U(a.elt) == "%s.get({0}, {0})".format(U(a.generators[0].target)) % tbl_ref and const_str(j.func.value) == "" and not guard_texts(j):
                ok = True
                lp = [j]
    cx.require(ok, lp[0] if lp else sf, "every character of the value goes through the table", construct=short(lp[0]) if lp else "(none)")
    rep = [x for x in find_calls(sf.body, attr="replace")]
    ok = len(rep) == 1 and [const_str(a) for a in rep[0].args] == ["'", "\\'"] and ("\"'\" in value", True) in guard_texts(rep[0]) and ("'\"' not in value", False) in guard_texts(rep[0]) or \
        (len(rep) == 1 and [const_str(a) for a in rep[0].args] == ["'", "\\'"] and ("\"'\" in value", True) in guard_texts(rep[0]) and ("'\"' in value", True) in guard_texts(rep[0]))
    cx.require(ok, rep[0] if rep else sf, "when both quote characters occur, the chosen quote is escaped inside the value", construct=short(stmt_of(rep[0])) if rep else "(none)")
    rets = [r for r in walk_body(sf.body) if isinstance(r, ast.Return)]
    cx.require(len(rets) == 1 and U(rets[0].value) == "quote + value + quote", rets[0] if rets else sf, "the escaped value is wrapped in the chosen quote", construct=short(rets[0]) if rets else "(none)")


RY = "insights.client.apps.ansible.playbook_verifier.contrib.ruamel_yaml.ruamel.yaml.comments"


def r2b_faithful_copy(cx):
    """The digest is computed over copy.deepcopy(play) with the dynamic elements removed, and the play is a tree of the vendored loader's CommentedMap /
    CommentedSeq.  What their __deepcopy__ leaves out never reaches the hash: the copy must carry every key the mapping exposes (keys merged in through
    '<<' are ordinary entries of the mapping) and every element of a sequence."""
    cx.rule("C18.R2", "the digest is computed over the serialisation of the whole cleaned play", floor=4)
    try:
        m = cx.repo.module(RY)
    except AnalysisError:
        cx.unknown(None, "the vendored YAML loader module %s is gone" % RY)
        return
    for cn, how in (("CommentedMap", "key"), ("CommentedSeq", "element")):
        c = m.cls(cn, "C18.R2")
        dc = [f for f in c.body if isinstance(f, FUNC_TYPES) and f.name == "__deepcopy__"]
        if not dc:
            cx.ok(c, "%s has no __deepcopy__ of its own (the generic deep copy carries everything)" % cn, construct="class %s" % cn)
            continue
        fn = dc[0]
        loops = [l for l in walk_body(fn.body) if isinstance(l, ast.For)]
        full = [l for l in loops if U(l.iter) in ("self", "self.keys()", "self.items()", "list(self)", "ordereddict.__iter__(self)", "list.__iter__(self)", "enumerate(self)")
                and not [x for x in walk_body(l.body) if isinstance(x, (ast.Break, ast.Continue, ast.Return, ast.If))]
                and any(isinstance(x, ast.Call) and call_name(x) == "copy.deepcopy" for x in ast.walk(l))]
        if full:
            cx.ok(full[0], "%s.__deepcopy__ copies every %s the container exposes" % (cn, how), construct=short(full[0], 80))
        elif loops:
            cx.bad(loops[0], "%s.__deepcopy__ copies every %s the container exposes (a filtered or partial view - own keys only, say - drops the rest from the signed digest)" % (cn, how),
                   construct="for ... in %s" % U(loops[0].iter))
        else:
            cx.unknown(fn, "cannot find the copying loop of %s.__deepcopy__" % cn)


def run(cx):
    cx.extra["explanation"] = ("C18: guard rules on every deletion of exclude_dynamic_elements (depth, label, copy, error fall-through), def-use of the digest input from the whole cleaned play "
                               "to sha256 and gpg.verify_data, dominance of signature / verification / revocation checks over 'return play', taint of every interpolated value in the serializer.")
    cx.undecided = ["injectivity of the serialisation as a function on all plays (beyond 'every string is escaped')", "GPG itself", "the Python < 3.12 branch serialises with str(play) (ruamel's repr), not analysed"]
    cx.guard(r1_exclusion)
    cx.guard(r2_digest_input)
    cx.guard(r2b_faithful_copy)
    cx.guard(r3_checks_dominate)
    cx.guard(r4_escaping)
