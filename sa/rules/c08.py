"""C08 - nothing configured or recognised as sensitive survives cleaning (wiring + recognition)."""
import ast

from ..model import (AnalysisError, FUNC_TYPES, U, call_attr, call_name, dotted, enclosing, enclosing_function, guard_texts, guards_ex,
                     short, walk_body, walk_local, ancestors, parent, const_str, kwarg, literal, qual_of)
from .. import feat
from . import cleaner_shape as shape
from ..util import params, find_calls, assigns_to, trace, stmt_of, has_exit, syn_dominates
from . import c06

SF = "insights.core.spec_factory"
CL = "insights.cleaner"

# providers that deliberately persist without cleaning, with reason
WRITE_EXEMPT = {
    "RawFileProvider": "documented: 'The content of RawFileProvider is not filtered/obfuscated/redacted' (binary copy)",
    "SerializedRawOutputProvider": "subclass of RawFileProvider used only when loading an archive",
}


def r1_writer_side(cx, classes):
    cx.rule("C08.R1", "everything persisted by a provider goes through the cleaner (writer side)", floor=8)
    sf = cx.repo.module(SF)
    wr = sf.func("ContentProvider.write", "C08.R1")
    opens = [x for x in find_calls(wr.body) if call_name(x) in ("open", "safe_open")]
    fw = [x for x in find_calls(wr.body, attr="write") if U(x.func.value) != "self"]
    if not fw:
        cx.bad(wr, "ContentProvider.write writes the content", construct="(no f.write)")
    for x in fw:
        src = trace(x.args[0], wr, depth=6)
        chain = [U(src)]
        # follow re-assignments of the same name (content = "\n".join(...); content = content.encode(...))
        name = x.args[0].id if isinstance(x.args[0], ast.Name) else None
        texts = [U(a.value) for a in assigns_to(wr, name)] if name else [U(x.args[0])]
        ok = any("self._clean_content()" in t for t in texts) and all(("self._clean_content()" in t) or (name and name in t) for t in texts)
        if not ok:
            # def-use closure: every definition that can reach the written value is built from self._clean_content() and constants only
            seen_, leaves, todo_ = set(), [], [x.args[0]]
            while todo_ and len(seen_) < 40:
                e_ = todo_.pop()
                for n_ in ast.walk(e_):
                    if isinstance(n_, ast.Name) and isinstance(n_.ctx, ast.Load) and n_.id not in ("six", "self", "str", "bytes"):
                        if n_.id in seen_:
                            continue
                        seen_.add(n_.id)
                        ds_ = assigns_to(wr, n_.id)
                        if not ds_:
                            leaves.append("name " + n_.id)
                        for d_ in ds_:
                            if isinstance(d_, ast.Assign):
                                todo_.append(d_.value)
                            else:
                                leaves.append(short(d_))
                    elif isinstance(n_, ast.Call):
                        if U(n_) == "self._clean_content()":
                            leaves.append("CLEAN")
                        elif not (isinstance(n_.func, ast.Attribute) and n_.func.attr in ("join", "encode", "decode") and not U(n_.func.value).startswith("self")):
                            leaves.append("call " + short(n_, 50))
                    elif isinstance(n_, ast.Attribute) and isinstance(n_.value, ast.Name) and n_.value.id == "self" and not (isinstance(parent(n_), ast.Call) and parent(n_).func is n_ and n_.attr == "_clean_content"):
                        leaves.append("attribute " + U(n_))
            ok = "CLEAN" in leaves and all(l_ == "CLEAN" for l_ in leaves)
            texts = texts + ["sources: %s" % sorted(set(leaves))]
        cx.require(ok, x, "the bytes written derive only from self._clean_content()", construct="%s <- %s" % (short(x), " ; ".join(texts)))
    for c in classes:
        for st in c.body:
            if isinstance(st, FUNC_TYPES) and st.name == "write" and c.name != "ContentProvider":
                through = any("_clean_content" in U(x.func) for x in find_calls(st.body)) or any(U(x.func).startswith("super(") and call_attr(x) == "write" for x in find_calls(st.body))
                if through:
                    cx.ok(st, "%s.write goes through _clean_content / the inherited write" % c.name, construct="def %s.write" % c.name)
                elif c.name in WRITE_EXEMPT:
                    cx.ok(st, "%s.write persists without cleaning: listed exemption (%s)" % (c.name, WRITE_EXEMPT[c.name]), construct="def %s.write" % c.name)
                else:
                    cx.bad(st, "%s overrides write() without going through _clean_content(): its content is persisted uncleaned" % c.name, construct="def %s.write" % c.name)
            if isinstance(st, FUNC_TYPES) and st.name == "_clean_content" and c.name != "ContentProvider":
                cx.bad(st, "%s overrides _clean_content()" % c.name, construct="def %s._clean_content" % c.name)
    # _clean_content wiring
    cc = sf.func("ContentProvider._clean_content", "C08.R1")
    calls = find_calls(cc.body, attr="clean_content")
    if not calls:
        cx.bad(cc, "_clean_content calls self.cleaner.clean_content", construct="(no clean_content call)")
        return
    call = calls[0]
    cx.require(U(call.func) == "self.cleaner.clean_content" and call.args and U(call.args[0]) == "content", call, "the provider's content is handed to the broker's cleaner")
    nr = trace(kwarg(call, "no_redact"), cc) if kwarg(call, "no_redact") is not None else None
    no = trace(kwarg(call, "no_obfuscate"), cc) if kwarg(call, "no_obfuscate") is not None else None
    cx.require(nr is not None and U(nr) == "getattr(self.ds, 'no_redact', False)", call, "redaction is skipped only when the datasource says no_redact (default: redact)",
               construct="no_redact=%s" % U(nr))
    cx.require(no is not None and U(no) == "getattr(self.ds, 'no_obfuscate', [])", call, "obfuscators are skipped only as listed by the datasource's no_obfuscate (default: none skipped)",
               construct="no_obfuscate=%s" % U(no))
    g = set((U(e), p) for e, p, o in guards_ex(call))
    allowed = set([("content", True), ("isinstance(self.ctx, HostContext)", True), ("self.ds", True), ("self.cleaner", True), ("cleans", True)])
    cx.require(g <= allowed, call, "cleaning is skipped only when there is no content, no host context, no datasource, no cleaner, or nothing to clean",
               construct="guards: %s" % sorted(g - allowed) if g - allowed else "guards: %s" % sorted(g))
    # cleans empty only if no_redact and all obfuscations disabled and not filterable
    ret = [r for r in walk_body(cc.body) if isinstance(r, ast.Return)]
    res = [a for a in walk_body(cc.body) if isinstance(a, ast.Assign) and U(a.targets[0]) == "content" and isinstance(a.value, ast.Call) and a.value is call]
    cx.require(bool(ret) and all(U(r.value) == "content" for r in ret) and len(res) == 1 and any(r.lineno > res[0].lineno for r in ret), ret[0] if ret else cc, "the cleaned result replaces the content that is returned",
               construct="content = self.cleaner.clean_content(...); return content")
    # the conditions under which a cleaning step is announced, as guard atoms: from appends, or from a literal (label, wanted) table filtered by 'wanted'
    from ..model import _flatten_atom

    def _atoms(test):
        out = []
        _flatten_atom(test, True, out)
        return sorted((U(e), p) for e, p in out)
    ap = [x for x in find_calls(cc.body, attr="append") if U(x.func.value) == "cleans"]
    conds = [_atoms(parent(x).test) if isinstance(parent(x), ast.IfExp) else sorted(guard_texts(x) - allowed) for x in ap]
    if not ap:
        cd = [a for a in walk_body(cc.body) if isinstance(a, ast.Assign) and U(a.targets[0]) == "cleans" and isinstance(a.value, ast.ListComp)]
        if len(cd) == 1:
            lc = cd[0].value
            g0 = lc.generators[0]
            tbl = trace(g0.iter, cc)
            if len(lc.generators) == 1 and isinstance(g0.target, ast.Tuple) and len(g0.target.elts) == 2 and [U(i) for i in g0.ifs] == [U(g0.target.elts[1])] \
                    and isinstance(tbl, (ast.Tuple, ast.List)) and all(isinstance(e, ast.Tuple) and len(e.elts) == 2 for e in tbl.elts):
                conds = [_atoms(trace(e.elts[1], cc)) for e in tbl.elts]
    conds = sorted(conds)
    want = sorted([[("no_red", False)], [("set(no_obf) == DEFAULT_OBFUSCATIONS", False)], [("self._filterable", True)]])
    cx.require(conds == want, cc, "'nothing to clean' means: no_redact set, every obfuscation excluded and not filterable", construct="cleans.append conditions: %s" % conds)
    # 'every obfuscation excluded' compares the datasource's list with the constant DEFAULT_OBFUSCATIONS: that constant must name EVERY stage the cleaner can
    # install (keyword and password replacement included) - with a smaller set, excluding just those skips cleaning although other stages are configured
    cm_ = cx.repo.module(CL)
    dflt = cm_.top.get("DEFAULT_OBFUSCATIONS")
    names = None
    if isinstance(dflt, (ast.Set, ast.List, ast.Tuple)):
        names = set(const_str(e) for e in dflt.elts)
    elif isinstance(dflt, ast.Call) and call_name(dflt) in ("set", "frozenset") and dflt.args and isinstance(dflt.args[0], (ast.Set, ast.List, ast.Tuple)):
        names = set(const_str(e) for e in dflt.args[0].elts)
    init_ = cm_.func("Cleaner.__init__", "C08.R1")
    installed = set()
    for a_ in walk_body(init_.body):
        if isinstance(a_, ast.Assign) and U(a_.targets[0]) == "self.obfuscate" and isinstance(a_.value, ast.Dict):
            installed |= set(const_str(k) for k in a_.value.keys if k is not None)
        if isinstance(a_, ast.Assign) and isinstance(a_.targets[0], ast.Subscript) and U(a_.targets[0].value) == "self.obfuscate" and const_str(a_.targets[0].slice):
            installed.add(const_str(a_.targets[0].slice))
    for x_ in find_calls(init_.body, attr="update"):
        if U(x_.func.value) == "self.obfuscate":
            installed |= set(k.arg for k in x_.keywords if k.arg)
            for a0 in x_.args:
                if isinstance(a0, ast.Dict):
                    installed |= set(const_str(k) for k in a0.keys if k is not None)
    installed.discard(None)
    if names is None or not installed:
        cx.unknown(cc, "cannot read DEFAULT_OBFUSCATIONS as a literal set / the stages Cleaner.__init__ installs")
    else:
        cx.require(installed <= names, dflt, "DEFAULT_OBFUSCATIONS names every stage Cleaner.__init__ can install (it is what 'every obfuscation excluded' is compared with)",
                   construct="installed but not listed: %s" % sorted(installed - names) if installed - names else "DEFAULT_OBFUSCATIONS = %s" % sorted(names))


def _site_text(n, fname, ctx, cleaner):
    """Identity of a construction site: what is built (relative path / command), not its content expression."""
    ident = None
    if fname == "DatasourceProvider":
        ident = kwarg(n, "relative_path") or (n.args[1] if len(n.args) > 1 else None)
        label = "relative_path"
    else:
        ident = n.args[0] if n.args else None
        label = "arg0"
    return "%s(%s=%s, ctx=%s, cleaner=%s)" % (fname, label, short(ident, 90) if ident is not None else "?", U(ctx) if ctx is not None else "<not passed>",
                                              U(cleaner) if cleaner is not None else "<not passed>")


CTX_SOURCES = ("_get_context(self.context, broker)", "broker[self.context]", "broker.get(HostContext)", "broker[HostContext]")


def r1b_constructor_side(cx, mods):
    cx.rule("C08.R1b", "every provider built during host collection is given the context and the cleaner (constructor side)", floor=40 if cx.tier == "thorough" else 9)
    repo = cx.repo
    n_sites = 0
    for m in mods:
        if not (m.name == SF or m.name.startswith("insights.specs.") or m.name == "insights.specs"):
            continue
        for n in ast.walk(m.tree):
            if not isinstance(n, ast.Call):
                continue
            fname = U(n.func)
            is_kind = fname == "self.kind"
            is_prov = isinstance(n.func, ast.Name) and n.func.id.endswith("Provider") and n.func.id not in ("ContentProvider",)
            if not (is_kind or is_prov):
                continue
            fn = enclosing_function(n)
            if fn is None:
                continue
            q = getattr(fn, "_qual", "?")
            if m.name == SF and (q.startswith("deserialize_") or not q.endswith("__call__")):
                continue    # archive loading / helper code: not host collection
            n_sites += 1
            if is_prov and n.func.id == "DatasourceProvider":
                ctx = kwarg(n, "ctx") or (n.args[5] if len(n.args) > 5 else None)
                cleaner = kwarg(n, "cleaner") or (n.args[6] if len(n.args) > 6 else None)
            elif is_prov and n.func.id in ("CommandOutputProvider", "ContainerFileProvider", "ContainerCommandProvider", "ContainerProvider"):
                ctx = n.args[1] if len(n.args) > 1 else kwarg(n, "ctx")
                cleaner = kwarg(n, "cleaner")
            else:
                ctx = kwarg(n, "ctx")
                cleaner = kwarg(n, "cleaner")
            ok_ctx = False
            if ctx is not None:
                src = trace(ctx, fn)
                ok_ctx = U(src) in CTX_SOURCES or (isinstance(src, ast.Call) and call_name(src) in ("_get_context",)) or "broker" in U(src)
            ok_cl = False
            if cleaner is not None:
                src = trace(cleaner, fn)
                ok_cl = U(src) in ("broker.get('cleaner')", "broker['cleaner']")
            if ok_ctx and ok_cl:
                cx.ok(n, "provider constructed with ctx and cleaner taken from the broker", construct="%s(... ctx=%s, cleaner=%s)" % (fname, U(ctx), U(cleaner)))
            else:
                miss = [w for w, ok in (("ctx", ok_ctx), ("cleaner", ok_cl)) if not ok]
                cx.bad(n, "provider constructed during host collection without %s from the broker: ContentProvider._clean_content() requires a HostContext and a cleaner, so this content is persisted without redaction, keyword/password replacement or obfuscation" % " and ".join(miss),
                       construct=_site_text(n, fname, ctx, cleaner))
    cx.extra["provider_construction_sites"] = n_sites


def r2_pipeline(cx):
    cx.rule("C08.R2", "every enabled stage is in the per-line pipeline", floor=8)
    cm = cx.repo.module(CL)
    cc = cm.func("Cleaner.clean_content", "C08.R2")
    plist, pdef = shape.stage_list_name(cc)
    if plist is None:
        cx.bad(cc, "the stages of one call are collected in a fresh local list (a list kept on the instance would be shared between concurrent calls)", construct="(no local stage list)")
        return
    # redaction stage
    red = [x for x in find_calls(cc.body, attr="append") if U(x.func.value) == plist and "self.redact['pattern']" in U(x)]
    if not red:
        cx.bad(cc, "the pattern redactor is part of the pipeline", construct="(no %s.append(self.redact['pattern']...))" % plist)
    for x in red:
        g = set(guard_texts(x))
        ok = ("self.redact['pattern']", True) in g and ("no_redact", False) in g and g <= set([("self.redact['pattern']", True), ("no_redact", False)])
        cx.require(ok, x, "the pattern redactor is appended whenever patterns are configured and no_redact is not set", construct="guards %s" % sorted(g))
    # obfuscation stages
    ent = shape.obfuscator_entries(cc, plist)
    if ent is None:
        cx.bad(cc, "every configured obfuscator is considered", construct="(no loop over self.obfuscate)")
    else:
        node, it, atoms, elt, tv, exits = ent
        ordered, over_all, minus, rest = shape.name_set_meaning(it, cc, tv, atoms)
        cx.require(over_all and minus, node, "the loop ranges over all keys of self.obfuscate minus the datasource's no_obfuscate list",
                   construct="for %s in %s%s" % (tv, short(it, 100), " if %s" % sorted(atoms) if atoms else ""))
        ok = rest == set([("self.obfuscate[%s]" % tv, True)]) and ("self.obfuscate[%s]" % tv) in elt and not exits
        cx.require(ok, node, "every such obfuscator that is configured (truthy) is appended, no other condition, no early exit",
                   construct="%s under %s" % (short(node), sorted(rest)))
    f, calls, pparam, okh = shape.clean_line_helper(cm, cc, plist)
    if f is None:
        cx.unknown(cc, "no _clean_line helper")
    else:
        cx.require(okh and bool(calls), f, "the per-line helper works on the stage list built by this call", construct="%d call(s) of %s" % (len(calls), f.name))
        loops = [s_ for s_ in f.body if isinstance(s_, ast.For)]
        lv = params(f)[0] if params(f) and params(f)[0] not in ("self", "cls") else (params(f)[1] if len(params(f)) > 1 else "line")
        ok = len(loops) == 1 and U(loops[0].iter) == pparam and not has_exit(loops[0].body) and len(loops[0].body) == 1 and isinstance(loops[0].target, ast.Tuple) and len(loops[0].target.elts) == 2
        if ok:
            pv, kv = [U(e) for e in loops[0].target.elts]
            ok = U(loops[0].body[0]) == "%s = %s.parse_line(%s, **%s)" % (lv, pv, lv, kv)
            if not ok and U(loops[0].body[0]) == "%s = %s(%s, **%s)" % (lv, pv, lv, kv):
                # the list holds the bound parse_line methods (looked up once per call): every element appended to it must be <stage>.parse_line
                aps_ = [x_ for x_ in find_calls(cc.body, attr="append") if U(x_.func.value) == plist]
                ok = bool(aps_) and all(x_.args and isinstance(x_.args[0], ast.Tuple) and len(x_.args[0].elts) == 2 and isinstance(x_.args[0].elts[0], ast.Attribute)
                                        and x_.args[0].elts[0].attr == "parse_line" for x_ in aps_)
        cx.require(ok, f, "every stage of the pipeline is applied to every line, in list order, with no early exit", construct=short(loops[0], 120) if loops else "def _clean_line")
        rets = [r for r in f.body if isinstance(r, ast.Return)]
        cx.require(len(rets) == 1 and U(rets[0].value) == lv, f, "_clean_line returns the line as transformed by the last stage", construct=short(rets[0]) if rets else "(none)")
    # __init__: keyword/password outside the obfuscate branch; option -> key table
    init = cm.func("Cleaner.__init__", "C08.R2")
    od = [a for a in walk_body(init.body) if isinstance(a, ast.Assign) and U(a.targets[0]) == "self.obfuscate" and isinstance(a.value, ast.Dict)]
    ok = False
    if od:
        d = dict((const_str(k), U(v)) for k, v in zip(od[0].value.keys, od[0].value.values))
        ok = d.get("keyword") == "Keyword(keywords) if keywords else None" and d.get("password") == "Password()" and not [1 for e, p, o in guards_ex(od[0]) if o != "exit-raise"]
    cx.require(ok, od[0] if od else init, "keyword and password replacement are installed unconditionally (they do not depend on obfuscate=True)",
               construct=short(od[0], 140) if od else "(no self.obfuscate dict)")
    kw = [a for a in walk_body(init.body) if isinstance(a, ast.Assign) and U(a.targets[0]) == "keywords"]
    cx.require(len(kw) == 1 and U(kw[0].value) == "rm_conf.get('keywords')", kw[0] if kw else init, "keywords come from the user's redaction configuration", construct=short(kw[0]) if kw else "(none)")
    table = {"ip": ("IPv4()", None), "ipv6": ("IPv6()", "config.obfuscate_ipv6"), "hostname": ("Hostname(self.fqdn)", "config.obfuscate_hostname"), "mac": ("Mac()", "config.obfuscate_mac")}
    ups = [x for x in find_calls(init.body, attr="update") if U(x.func.value) == "self.obfuscate"]
    found = {}
    for x in ups:
        for k in x.keywords:
            found[k.arg] = (U(k.value), set(guard_texts(x)))
        # update({'ip': IPv4()})
        for a_ in x.args:
            if isinstance(a_, ast.Dict):
                for kk, vv in zip(a_.keys, a_.values):
                    if const_str(kk):
                        found[const_str(kk)] = (U(vv), set(guard_texts(x)))
    # self.obfuscate['ip'] = IPv4()
    for a_ in walk_body(init.body):
        if isinstance(a_, ast.Assign) and len(a_.targets) == 1 and isinstance(a_.targets[0], ast.Subscript) and U(a_.targets[0].value) == "self.obfuscate" and const_str(a_.targets[0].slice):
            found[const_str(a_.targets[0].slice)] = (U(a_.value), set(guard_texts(a_)))
    for key, (ctor, opt) in table.items():
        if key not in found:
            cx.bad(init, "obfuscator '%s' is installed when its option is on" % key, construct="(no self.obfuscate.update(%s=...))" % key)
            continue
        c, g = found[key]
        want = set([("config", True), ("config.obfuscate", True)])
        if opt:
            want.add((opt, True))
        cx.require(c == ctor and g == want, init, "option table: %s -> self.obfuscate['%s'] = %s" % (opt or "config.obfuscate", key, ctor),
                   construct="self.obfuscate.update(%s=%s) guarded by %s" % (key, c, sorted(g)))
    pat = [a for a in walk_body(init.body) if isinstance(a, ast.Assign) and U(a.targets[0]) == "self.redact" and isinstance(a.value, ast.Dict)]
    ok = False
    if pat:
        d = dict((const_str(k), U(v)) for k, v in zip(pat[0].value.keys, pat[0].value.values))
        ok = d.get("pattern") == "Pattern(exclude, regex) if exclude else None"
    ex = [a for a in walk_body(init.body) if isinstance(a, ast.Assign) and U(a.targets[0]) == "exclude"]
    ok = ok and bool(ex) and U(ex[0].value) == "rm_conf.get('patterns', [])"
    cx.require(ok, pat[0] if pat else init, "the pattern redactor is installed whenever the user configured patterns", construct=short(pat[0], 140) if pat else "(none)")


def r3_redaction(cx):
    cx.rule("C08.R3", "a line matching any exclusion pattern is dropped and stays dropped", floor=9)
    pm = cx.repo.module("insights.cleaner.pattern")
    fn = pm.func("Pattern.parse_line", "C08.R3")
    rets = [r for r in walk_body(fn.body) if isinstance(r, ast.Return)]
    none_rets = [r for r in rets if r.value is None or U(r.value) == "None"]
    if not none_rets:
        cx.bad(fn, "Pattern.parse_line drops a matching line (returns None)", construct="(no 'return None')")
    line_p = params(fn)[1]

    def _modes(expr_text, under):
        """{True/False (regex mode): canonical per-pattern test} for a quantified match expression, or None."""
        try:
            e = ast.parse(expr_text, mode="eval").body
        except SyntaxError:
            return None
        if not (isinstance(e, ast.Call) and call_name(e) == "any" and len(e.args) == 1 and isinstance(e.args[0], (ast.GeneratorExp, ast.ListComp))):
            return None
        gen = e.args[0]
        if len(gen.generators) != 1 or gen.generators[0].ifs or U(gen.generators[0].iter) != "self._exclude" or not isinstance(gen.generators[0].target, ast.Name):
            return None
        pv = gen.generators[0].target.id
        elt = gen.elt
        out = {}
        if isinstance(elt, ast.Call) and isinstance(elt.func, ast.Name) and elt.func.id != "re" and len(elt.args) == 2 and [U(a) for a in elt.args] == [pv, line_p]:
            # find(pat, line) with find chosen by mode
            fv = feat.resolve_const(pm, fn, elt.func)
            if not isinstance(fv, ast.IfExp) or U(fv.test) != "self._regex":
                return None
            for mode, f in ((True, fv.body), (False, fv.orelse)):
                f = feat.resolve_const(pm, None, f)
                if isinstance(f, ast.Name) and pm.has(f.id) and isinstance(pm.get(f.id), FUNC_TYPES):
                    g_ = pm.get(f.id)
                    b_ = [s_ for s_ in g_.body if not (isinstance(s_, ast.Expr) and isinstance(s_.value, ast.Constant))]
                    if len(g_.args.args) == 2 and len(b_) == 1 and isinstance(b_[0], ast.Return):
                        f = ast.Lambda(args=g_.args, body=b_[0].value)
                if U(f) == "re.search":
                    out[mode] = "re.search(P, line)"
                elif isinstance(f, ast.Lambda) and len(f.args.args) == 2 and U(f.body) == "%s in %s" % (f.args.args[0].arg, f.args.args[1].arg):
                    out[mode] = "P in line"
                else:
                    out[mode] = U(f)
            return out
        t = U(elt)
        canon = "re.search(P, line)" if t == "re.search(%s, %s)" % (pv, line_p) else "P in line" if t == "%s in %s" % (pv, line_p) else t
        for mode in ((True, False) if under is None else (under,)):
            out[mode] = canon
        return out
    def _loop_modes(r, g):
        """the written-out quantifier: for P in self._exclude: if TEST(P, line): return None   (no other way out of / around the loop body)"""
        lp = enclosing(r, (ast.For, ast.While))
        if not (isinstance(lp, ast.For) and U(lp.iter) == "self._exclude" and isinstance(lp.target, ast.Name) and not lp.orelse and parent(lp) is fn):
            return None
        if [x for x in walk_body(lp.body) if isinstance(x, (ast.Break, ast.Continue, ast.Return, ast.Raise)) and x is not r]:
            return None
        inner = set(guard_texts(r, stop=lp))
        if inner != g or len(inner) != 1 or not list(inner)[0][1]:
            return None
        pv = lp.target.id
        if assigns_to(lp.body, pv):
            return None
        try:
            e = ast.parse(list(inner)[0][0], mode="eval").body
        except SyntaxError:
            return None
        if isinstance(e, ast.Name):
            d = assigns_to(lp.body, e.id)
            if len(d) != 1 or guard_texts(d[0], stop=lp) or not isinstance(d[0], ast.Assign):
                return None
            e = d[0].value

        def canon(x):
            t = U(x)
            return "re.search(P, line)" if t == "re.search(%s, %s)" % (pv, line_p) else "P in line" if t == "%s in %s" % (pv, line_p) else t
        if isinstance(e, ast.IfExp) and U(e.test) == "self._regex":
            return {True: canon(e.body), False: canon(e.orelse)}
        if isinstance(e, ast.IfExp) and U(e.test) == "not self._regex":
            return {False: canon(e.body), True: canon(e.orelse)}
        return {True: canon(e), False: canon(e)}
    for r in none_rets:
        g = set((U(e), p) for e, p, o in guards_ex(r)) - set([(line_p, True)])      # 'if not line: return line' comes first
        modes = {}
        ok = len(g) == 1 and list(g)[0][1]
        lm = _loop_modes(r, g) if ok else None
        if lm is not None:
            modes = lm
        elif ok:
            t = list(g)[0][0]
            if t.isidentifier():
                cases = feat.value_cases(fn, t, before=r)
                ok = cases is not None
                for cg, v in (cases or ()):
                    under = None
                    if cg == frozenset([("self._regex", True)]):
                        under = True
                    elif cg == frozenset([("self._regex", False)]):
                        under = False
                    elif cg:
                        ok = False
                    mm = _modes(v, under)
                    if mm is None:
                        ok = False
                    else:
                        modes.update(mm)
            else:
                mm = _modes(t, None)
                ok = mm is not None
                modes = mm or {}
        ok = ok and modes == {True: "re.search(P, line)", False: "P in line"}
        cx.require(ok, r, "the line is dropped iff any configured pattern matches: regex patterns with re.search (anywhere in the line), plain patterns by substring containment, any over all patterns",
                   construct="return None guarded by %s; per-mode test %s" % (sorted(g), modes))
    keep = [r for r in rets if r not in none_rets]
    cx.require(bool(keep) and all(U(r.value) == line_p for r in keep), keep[0] if keep else fn, "a line that matches no pattern is returned unchanged", construct="; ".join(short(r) for r in keep) if keep else "(none)")
    init = pm.func("Pattern.__init__", "C08.R3")
    ex = [a for a in walk_body(init.body) if isinstance(a, ast.Assign) and U(a.targets[0]) == "self._exclude"]
    cx.require(len(ex) == 1 and U(ex[0].value) in ("exclude or []", "exclude"), ex[0] if ex else init, "all configured patterns are kept", construct=short(ex[0]) if ex else "(none)")
    # every stage maps a falsy line to itself
    stages = [("insights.cleaner.keyword", "Keyword"), ("insights.cleaner.password", "Password"), ("insights.cleaner.ip", "IPv4"), ("insights.cleaner.ip", "IPv6"),
              ("insights.cleaner.hostname", "Hostname"), ("insights.cleaner.mac", "Mac"), ("insights.cleaner.filters", "AllowFilter")]
    for mn, cn in stages:
        m = cx.repo.module(mn)
        f = m.func("%s.parse_line" % cn, "C08.R3")
        first = [s for s in f.body if not isinstance(s, FUNC_TYPES) and not (isinstance(s, ast.Expr) and isinstance(s.value, ast.Constant))]
        ok = bool(first) and isinstance(first[0], ast.If) and U(first[0].test) == "not line" and U(first[0].body[0]) == "return line"
        cx.require(ok, f, "%s.parse_line passes a dropped (None/empty) line through unchanged" % cn, construct="if not line: return line")
    cm = cx.repo.module(CL)
    cc = cm.func("Cleaner.clean_content", "C08.R3")
    shape.ensure_line_loop(cc, params(cc)[1])
    ap = [x for x in find_calls(cc.body, attr="append") if U(x.func.value) == "result"]
    av = U(ap[0].args[0]) if len(ap) == 1 and len(ap[0].args) == 1 else "line"
    ok = len(ap) == 1 and isinstance(parent(ap[0]), ast.IfExp) and U(parent(ap[0]).test) == "%s is not None" % av
    if not ok and len(ap) == 1:
        ok = ("%s is None" % av, False) in guard_texts(ap[0])
    cx.require(ok, ap[0] if ap else cc, "dropped lines (None) are omitted from the result", construct=short(parent(ap[0])) if ap else "(none)")


def r4_keyword(cx):
    cx.rule("C08.R4", "every configured keyword is replaced everywhere in the line", floor=3)
    km = cx.repo.module("insights.cleaner.keyword")
    fn = km.func("Keyword.parse_line", "C08.R4")
    loops = [s for s in fn.body if isinstance(s, ast.For)]
    if not loops:
        cx.bad(fn, "Keyword.parse_line loops over the keyword table", construct="(no loop)")
        return
    lp = loops[0]
    cx.require(U(lp.iter) in ("self._kw_db.items()",) and not has_exit(lp.body), lp, "all configured keywords are tried on every line (no early exit)",
               construct="for %s in %s" % (U(lp.target), U(lp.iter)))
    k, v = [U(e) for e in lp.target.elts]
    rep = [x for x in find_calls(lp.body, attr="replace")]
    ok = len(rep) == 1 and U(rep[0].func.value) == "line" and [U(a) for a in rep[0].args] == [k, v] and isinstance(stmt_of(rep[0]), ast.Assign) and U(stmt_of(rep[0]).targets[0]) == "line"
    cx.require(ok, rep[0] if rep else lp, "line = line.replace(keyword, substitute) without a count (all occurrences)", construct=short(stmt_of(rep[0])) if rep else "(no replace)")
    if rep:
        g = set(guard_texts(rep[0], stop=lp))
        cx.require(g <= set([("%s in line" % k, True)]), rep[0], "replacement is conditional on containment only")
    db = km.func("Keyword._keywords2db", "C08.R4")
    st = [a for a in walk_body(db.body) if isinstance(a, ast.Assign) and U(a.targets[0]).startswith("self._kw_db[")]
    lp2 = enclosing(st[0], ast.For) if st else None
    ok = bool(st) and lp2 is not None and U(lp2.iter) in ("keywords", "enumerate(keywords)") and not has_exit(lp2.body) and not guard_texts(st[0], stop=lp2)
    cx.require(ok, st[0] if st else db, "every configured keyword enters the table", construct=short(st[0]) if st else "(none)")


def r6_global_substitution(cx):
    cx.rule("C08.R6", "every recognised token is substituted everywhere on the line", floor=8)
    checks = [("insights.cleaner.ip", "IPv4.parse_line", ["_sub_ip", "_sub_ip_keep_width"]), ("insights.cleaner.ip", "IPv6.parse_line", ["_sub_ip"]),
              ("insights.cleaner.mac", "Mac.parse_line", ["_sub_mac"])]
    for mn, q, helpers in checks:
        m = cx.repo.module(mn)
        fn = m.func(q, "C08.R6")
        hs = [n for n in fn.body if isinstance(n, FUNC_TYPES) and n.name in helpers]
        for h in hs:
            reps = [x for x in find_calls(h.body, attr="replace")]
            subs = [x for x in find_calls(h.body, name="re.sub")]
            ok = bool(reps) and all(len(x.args) == 2 for x in reps) and not [s for s in subs if len(s.args) > 3 or kwarg(s, "count") is not None]
            cx.require(ok, h, "%s.%s replaces without a count limit" % (q, h.name), construct=short(reps[0]) if reps else "(no replace)")
        loops = [s for s in walk_body(fn.body) if isinstance(s, ast.For) and enclosing_function(s) is fn]
        floop = [s for s in loops if "findall" in U(s.iter) or "ips" in U(s.iter)]
        if not floop:
            cx.bad(fn, "%s iterates over all matches of its pattern" % q, construct="(no loop over findall)")
            continue
        lp = floop[0]
        brk = [x for x in walk_body(lp.body) if isinstance(x, (ast.Break, ast.Return))]
        cx.require(not brk, lp, "%s substitutes every match returned by findall (no break/return in the loop)" % q, construct="for %s in %s" % (U(lp.target), short(lp.iter, 80)))
        # the substitution routine may be called directly or through a local bound to one of the helpers
        viaq = set()
        for a in walk_body(fn.body):
            if isinstance(a, ast.Assign) and isinstance(a.targets[0], ast.Name):
                hs = set(n.id for n in ast.walk(a.value) if isinstance(n, ast.Name) and n.id in helpers)
                others = [n for n in ast.walk(a.value) if isinstance(n, ast.Call) and call_name(n) not in ("kwargs.get",)]
                if hs and not others and isinstance(a.value, (ast.IfExp, ast.Name)):
                    viaq.add(a.targets[0].id)
        calls = [x for x in find_calls(lp.body) if call_name(x) in helpers or call_name(x) in viaq]
        # the helper written out in the loop: new = self._X2db(tok); [if new:] line = line.replace(tok, new)   (skipped only for ignore-listed / already obfuscated tokens)
        direct = [x for x in find_calls(lp.body, attr="replace") if U(x.func.value) == "line" and len(x.args) == 2 and not x.keywords and enclosing_function(x) is fn]
        okd = True
        for x in direct:
            tok, new = U(x.args[0]), x.args[1]
            nd = trace(new, fn) if isinstance(new, ast.Name) else new
            okd = okd and isinstance(nd, ast.Call) and (call_attr(nd) or "").endswith("2db") and [U(a) for a in nd.args] == [tok] \
                and all("_ignore_list" in t or (t == U(new) and pol) for t, pol in guard_texts(x, stop=lp))
        calls = calls + direct
        ok = bool(calls) and okd and all(isinstance(stmt_of(x), ast.Assign) and U(stmt_of(x).targets[0]) == "line" for x in calls)
        cx.require(ok, calls[0] if calls else lp, "%s: the substituted line is carried to the next match" % q, construct=short(stmt_of(calls[0])) if calls else "(no substitution call)")
    # findall source
    ipm = cx.repo.module("insights.cleaner.ip")
    f4 = ipm.func("IPv4.parse_line", "C08.R6")
    ips = [a for a in walk_body(f4.body) if isinstance(a, ast.Assign) and U(a.targets[0]) == "ips"]
    ok = len(ips) == 1 and U(ips[0].value) == "[each[0] for each in re.findall(self.pattern, line)]"
    cx.require(ok, ips[0] if ips else f4, "IPv4 candidates are group 1 of every findall match of self.pattern", construct=short(ips[0]) if ips else "(none)")
    lp = [s for s in walk_body(f4.body) if isinstance(s, ast.For) and "ips" in U(s.iter)]
    ok = bool(lp) and U(lp[0].iter) in ("sorted(ips or [], key=len, reverse=True)", "sorted(ips, key=len, reverse=True)")
    cx.require(ok, lp[0] if lp else f4, "IPv4 matches are substituted longest first (an address that is a prefix of another is not replaced inside it first)",
               construct="for ip in %s" % (U(lp[0].iter) if lp else "?"))
    ig = [x for x in walk_body(f4.body) if isinstance(x, ast.Compare) and "_ignore_list" in U(x)]
    subs4 = [x for x in find_calls(lp[0].body) if "_sub_ip" in (call_name(x) or "") or isinstance(stmt_of(x), ast.Assign) and U(stmt_of(x).targets[0]) == "line"] if lp else []
    g4 = set(guard_texts(subs4[0], stop=lp[0])) if subs4 else set()
    skip = set((t, p) for t, p in g4 if "width" not in t)
    ok = bool(ig) and skip == set([("ip in self._ignore_list", False)])
    cx.require(ok, ig[0] if ig else f4, "only addresses on the ignore list are left alone", construct="substitution guarded by %s" % sorted(skip))
    init = ipm.func("IPv4.__init__", "C08.R6")
    il = [a for a in walk_body(init.body) if isinstance(a, ast.Assign) and U(a.targets[0]) == "self._ignore_list"]
    okl = False
    if il:
        try:
            v_ = il[0].value
            while isinstance(v_, ast.Call) and call_name(v_) in ("list", "tuple", "set", "frozenset") and len(v_.args) == 1:
                v_ = v_.args[0]
            okl = list(literal(cx.repo, v_)) == ["127.0.0.1"]
        except ValueError:
            okl = False
    cx.require(okl, il[0] if il else init, "the IPv4 ignore list is exactly loopback", construct=short(il[0]) if il else "(none)")
    # hostname
    hm = cx.repo.module("insights.cleaner.hostname")
    fh = hm.func("Hostname.parse_line", "C08.R6")
    reps = [x for x in find_calls(fh.body, attr="replace")]
    fq = [x for x in reps if U(x.args[0]) == "hn"]
    sh = [x for x in reps if U(x.args[0]) == "self._hostname"]
    ok = bool(fq) and len(fq[0].args) == 2 and isinstance(enclosing(fq[0], ast.For), ast.For) and not has_exit(enclosing(fq[0], ast.For).body)
    cx.require(ok, fq[0] if fq else fh, "every host name found by the per-domain pattern is replaced everywhere on the line", construct=short(stmt_of(fq[0])) if fq else "(none)")
    if fq:
        # the needle of the replacement is the text that was found, as found (a folded / trimmed copy no longer occurs in the line)
        lp_ = enclosing(fq[0], ast.For)

        def _found_as_is(e, depth=0):
            e = trace(e, fh) if isinstance(e, ast.Name) else e
            if isinstance(e, ast.Call) and call_attr(e) in ("findall",) and [U(a) for a in e.args][-1:] == ["line"]:
                return True
            if isinstance(e, ast.Call) and call_name(e) in ("list", "set", "sorted", "tuple") and len(e.args) == 1 and not e.keywords and depth < 3:
                return _found_as_is(e.args[0], depth + 1)
            if isinstance(e, (ast.ListComp, ast.GeneratorExp, ast.SetComp)) and len(e.generators) == 1 and U(e.elt) == U(e.generators[0].target) and depth < 3:
                return _found_as_is(e.generators[0].iter, depth + 1)
            return False
        ok = lp_ is not None and U(lp_.target) == U(fq[0].args[0]) and not assigns_to(lp_.body, U(lp_.target)) and _found_as_is(lp_.iter)
        cx.require(ok, lp_ if lp_ is not None else fq[0], "the text replaced is each match exactly as the pattern found it on the line",
                   construct="for %s in %s" % (U(lp_.target), short(trace(lp_.iter, fh) if isinstance(lp_.iter, ast.Name) else lp_.iter, 80)) if lp_ is not None else "(no loop)")
    ok = False
    if sh:
        st = stmt_of(sh[0])
        rets = [r for r in walk_body(fh.body) if isinstance(r, ast.Return) and U(r.value) == "line" and enclosing(r, ast.Try) is not None]
        g = [1 for e, p, o in guards_ex(sh[0]) if o != "exit-return" or U(e) != "line"]
        ok = len(sh[0].args) == 2 and U(sh[0].args[1]) == "self._hn2db(self._fqdn)" and isinstance(st, ast.Assign) and U(st.targets[0]) == "line" and \
            enclosing(sh[0], (ast.For, ast.If)) is None and bool(rets) and syn_dominates(st, rets[0])
        # or returned directly: return line.replace(self._hostname, ...)
        ok = ok or (len(sh[0].args) == 2 and U(sh[0].args[1]) == "self._hn2db(self._fqdn)" and isinstance(st, ast.Return) and st.value is sh[0] and U(sh[0].func.value) == "line"
                    and enclosing(sh[0], (ast.For, ast.If)) is None and enclosing(st, ast.Try) is not None)
    cx.require(ok, sh[0] if sh else fh, "the short host name is replaced unconditionally afterwards, on the path that returns the line",
               construct=short(stmt_of(sh[0])) if sh else "(no line.replace(self._hostname, ...))")
    dl = [s for s in walk_body(fh.body) if isinstance(s, ast.For) and U(s.iter) in ("self._dn_db.items()", "self._dn_db.values()", "self._dn_db")]
    cx.require(bool(dl) and not has_exit([x for x in dl[0].body if not isinstance(x, ast.For)]), dl[0] if dl else fh, "every known domain is searched for", construct="for od, d in self._dn_db.items()")
    # password template
    pw = cx.repo.module("insights.cleaner.password")
    fp = pw.func("Password.parse_line", "C08.R6")
    subs = feat.sub_calls(fp.body)
    lp = [s_ for s_ in fp.body if isinstance(s_, ast.For)]
    tnode = feat.resolve_const(pw, fp, subs[0][2]) if subs else None
    ok = len(subs) == 1 and subs[0][4] is None and const_str(tnode) is not None and bool(lp) and U(subs[0][1]) == U(lp[0].target)
    tmpl = const_str(tnode) if subs else ""
    import re as _re
    refs = set(_re.findall(r"\\(\d)", tmpl or ""))
    cx.require(ok and refs == set(["1", "2"]) and "\\3" not in (tmpl or ""), subs[0][0] if subs else fp,
               "the password template re-emits the key and the separator (groups 1, 2) and never the secret (group 3); all occurrences are substituted",
               construct=short(subs[0][0]) if subs else "(no substitution call)")
    cx.require(bool(lp) and feat.regex_table_of(pw, lp[0].iter) == "DEFAULT_PASSWORD_REGEXS", lp[0] if lp else fp, "every password expression is tried until one changes the line",
               construct="for regex in %s" % (U(lp[0].iter) if lp else "?"))


def r7_stage_failure_propagates(cx):
    """A stage that cannot process a line must fail the spec (the provider then stores nothing): a handler that returns instead of raising hands the
    unprocessed line - with whatever the stage recognised but did not replace - to the archive."""
    cx.rule("C08.R7", "a stage that fails on a line fails the spec; no handler returns the unprocessed line", floor=3)
    stages = [("insights.cleaner.keyword", "Keyword"), ("insights.cleaner.password", "Password"), ("insights.cleaner.ip", "IPv4"), ("insights.cleaner.ip", "IPv6"),
              ("insights.cleaner.hostname", "Hostname"), ("insights.cleaner.mac", "Mac"), ("insights.cleaner.pattern", "Pattern")]
    from ..model import terminates
    n = 0
    for mn, cn in stages:
        m = cx.repo.module(mn)
        f = m.func("%s.parse_line" % cn, "C08.R7")
        for h in [x for x in ast.walk(f) if isinstance(x, ast.ExceptHandler)]:
            n += 1
            leaves = [x for x in walk_body(h.body) if isinstance(x, (ast.Return, ast.Continue, ast.Break))]
            ok = not leaves and bool(h.body) and isinstance(h.body[-1], ast.Raise)
            cx.require(ok, h, "%s.parse_line: the handler re-raises (the spec fails, nothing unprocessed is stored)" % cn, construct=short(h, 110))
    if n < 2:
        cx.error("expected exception handlers in the substitution stages, found %d" % n, "C08.R7")
    # the obfuscator of host names is keyed on the system's own name: the fqdn handed in, else the name the system reports (no display label)
    cm = cx.repo.module(CL)
    init = cm.func("Cleaner.__init__", "C08.R7")
    fq = [a for a in walk_body(init.body) if isinstance(a, ast.Assign) and U(a.targets[0]) == "self.fqdn"]
    ok = len(fq) == 1 and U(fq[0].value) in ("fqdn or determine_hostname()", "fqdn if fqdn else determine_hostname()", "determine_hostname() if not fqdn else fqdn")
    cx.require(ok, fq[0] if fq else init, "the host-name obfuscator is keyed on the given fqdn or on determine_hostname() without a display-name override",
               construct=short(fq[0], 100) if fq else "(no self.fqdn)")


def run(cx):
    repo = cx.repo
    cx.extra["explanation"] = ("C08: who-overrides write()/_clean_content, def-use of the bytes written, constructor-side sweep of every provider construction reachable during host collection, "
                               "pipeline completeness and option table of the Cleaner, redaction drop rule, keyword/global substitution rules, password template groups; regex-language rules are C08.R5.")
    cx.undecided = ["textual interactions on one line (an address that is a prefix of another, a keyword inside a host name, substitutes colliding with originals)",
                    "the non-leak claim for all contents; only recognition and wiring are decided"]
    anchor = [repo.module(SF), repo.module(CL)] + [repo.module("insights.cleaner." + n) for n in ("pattern", "keyword", "password", "ip", "hostname", "mac", "filters")]
    if cx.tier == "thorough":
        mods = repo.all_modules()
    else:
        mods = anchor + [repo.module(n) for n in repo.module_names("insights.specs.datasources")]
    classes = c06.provider_classes(cx, mods)
    cx.guard(r1_writer_side, classes)
    cx.guard(r1b_constructor_side, mods)
    cx.guard(r2_pipeline)
    cx.guard(r3_redaction)
    cx.guard(r4_keyword)
    try:
        from . import c08_rx
        cx.guard(c08_rx.r5_languages)
    except ImportError:
        pass
    cx.guard(r6_global_substitution)
    cx.guard(r7_stage_failure_propagates)
    # keyword replacement has to come after the stages whose substitutes could contain a keyword (host names, addresses): the fixed, sorted stage
    # order is C10.R1, re-checked here as an obligation of this property
    from . import c10
    cx.borrow(c10.r1_hash_free, "C10.R1", "C08.R8", "the stages run in one fixed order (sorted names: host name and addresses before keywords; C10.R1 re-checked)")
