"""C11 - what collection persists is what analysis loads (pairing, agreement, isolation)."""
import ast

from ..model import (AnalysisError, FUNC_TYPES, U, call_attr, call_name, dotted, enclosing, enclosing_function, guard_texts, guards_ex,
                     short, walk_body, walk_local, ancestors, parent, const_str, kwarg)
from ..absint import unroll_literal_loops
from ..util import params, find_calls, assigns_to, trace, stmt_of, has_exit, syn_dominates
from ..cfg import handler_names, is_catch_all
from ..settype import Kinds, iterations, classify_sinks
from . import c01, c06
from .. import feat

SF = "insights.core.spec_factory"
SD = "insights.core.serde"
FIELDS = ("cmd", "args", "image", "engine", "container_id")


def registry(cx, mods, deco):
    """{resolved class id: [(module, function, class node)]} for @serializer / @deserializer."""
    out = {}
    for m in mods:
        for q, fn in m.functions():
            for d in fn.decorator_list:
                if isinstance(d, ast.Call) and call_attr(d) == deco and d.args:
                    r = cx.repo.resolve(d.args[0])
                    if r[0] == "def":
                        out.setdefault("%s:%s" % (r[1].name, r[2]), []).append((m, fn, r[3]))
                    else:
                        out.setdefault("ext:" + U(d.args[0]), []).append((m, fn, None))
    return out


def instantiable(cx, mods):
    """Provider classes that collection can instantiate."""
    sf = cx.repo.module(SF)
    out = {}

    def add(node, why):
        r = cx.repo.resolve(node)
        if r[0] == "def" and isinstance(r[3], ast.ClassDef):
            try:
                if cx.repo.is_subclass(r[3], SF + ":ContentProvider"):
                    out.setdefault("%s:%s" % (r[1].name, r[2]), (r[3], why))
            except Exception:
                pass
    for m in mods:
        for n in ast.walk(m.tree):
            if isinstance(n, ast.Call):
                k = kwarg(n, "kind")
                if k is not None and isinstance(k, (ast.Name, ast.Attribute)):
                    add(k, "kind= at %s" % m.loc(n))
                if isinstance(n.func, ast.Name) and n.func.id.endswith("Provider"):
                    fn = enclosing_function(n)
                    q = getattr(fn, "_qual", "")
                    if (m.name == SF and q.endswith("__call__")) or m.name.startswith("insights.specs"):
                        add(n.func, "constructed at %s" % m.loc(n))
            if isinstance(n, FUNC_TYPES) and n.name == "__init__" and m.name == SF:
                a = n.args
                names = [x.arg for x in a.args]
                for nm, dv in zip(names[len(names) - len(a.defaults):], a.defaults):
                    if nm == "kind":
                        add(dv, "default kind of %s" % n._qual)
    return out


def r1_pairing(cx, mods, sers, desers):
    cx.rule("C11.R1", "every provider kind collection can instantiate has its own serializer and deserializer", floor=12)
    inst = instantiable(cx, mods)
    if len(inst) < 6:
        cx.error("expected at least 6 instantiable provider kinds, found %s" % sorted(inst))
    for cid, (c, why) in sorted(inst.items()):
        cx.require(cid in sers, c, "%s (%s) has a @serializer registered for exactly this class (look-up is by exact type name)" % (c.name, why), construct="@serializer(%s)" % c.name)
        cx.require(cid in desers, c, "%s has a @deserializer registered for exactly this class" % c.name, construct="@deserializer(%s)" % c.name)
    for tbl, nm in ((sers, "serializer"), (desers, "deserializer")):
        for cid, lst in tbl.items():
            if len(lst) > 1:
                cx.bad(lst[1][1], "type %s has a single %s (a second registration raises at import time)" % (cid, nm), construct="@%s(%s) x%d" % (nm, cid, len(lst)))
    # registry functions key by the exact type name on both sides
    sd = cx.repo.module(SD)
    for fname, tblname in (("serializer", "SERIALIZERS"), ("deserializer", "DESERIALIZERS")):
        fn = sd.func("%s.inner" % fname, "C11.R1")
        nd = [a for a in walk_body(fn.body) if isinstance(a, ast.Assign) and U(a.targets[0]) == "name"]
        st = [a for a in walk_body(fn.body) if isinstance(a, ast.Assign) and U(a.targets[0]) == "%s[name]" % tblname]
        cx.require(len(nd) == 1 and U(nd[0].value) == "dr.get_name(_type)" and len(st) == 1, fn, "@%s registers under dr.get_name(<type>)" % fname, construct=short(st[0]) if st else "(none)")
    gs = sd.func("serialize", "C11.R1")
    d = [x for x in walk_body(gs.body) if isinstance(x, ast.Dict)]
    ok = bool(d) and dict((const_str(k), U(v)) for k, v in zip(d[0].keys, d[0].values)).get("type") == "dr.get_name(type(obj))"
    g2 = sd.func("get_serializer", "C11.R1")
    ok = ok and any(U(r.value) == "SERIALIZERS.get(dr.get_name(type(obj)))" for r in walk_body(g2.body) if isinstance(r, ast.Return))
    cx.require(ok, gs, "serialize() looks the serializer up by, and records, the exact type name of the object", construct="'type': dr.get_name(type(obj))")
    ds = sd.func("deserialize", "C11.R1")
    dparam = params(ds)[0]
    looks = []
    for n in ast.walk(ds):
        key = None
        if isinstance(n, ast.Call) and call_attr(n) == "get" and U(n.func.value) == "DESERIALIZERS" and n.args:
            key = n.args[0]
        elif isinstance(n, ast.Subscript) and U(n.value) == "DESERIALIZERS" and isinstance(n.ctx, ast.Load):
            key = n.slice
        if key is not None:
            looks.append((n, U(trace(key, ds))))
    ok = bool(looks) and all(k == "%s['type']" % dparam for n, k in looks)
    cx.require(ok, looks[0][0] if looks else ds, "deserialize() looks the deserializer up by the recorded type name", construct="; ".join("%s keyed by %s" % (short(n, 50), k) for n, k in looks) or "(no DESERIALIZERS look-up)")


def _ser_dict(fn):
    rets = [r for r in walk_body(fn.body) if isinstance(r, ast.Return) and isinstance(r.value, ast.Dict)]
    if len(rets) != 1:
        return None
    return dict((const_str(k), v) for k, v in zip(rets[0].value.keys, rets[0].value.values))


def r2_r3_r4(cx, sers, desers):
    for cid in sorted(set(sers) & set(desers)):
        sm, sfn, c = sers[cid][0]
        dm, dfn, _ = desers[cid][0]
        if c is None or not isinstance(c, ast.ClassDef):
            continue
        try:
            if not cx.repo.is_subclass(c, SF + ":ContentProvider"):
                continue
        except Exception:
            continue
        d = _ser_dict(sfn)
        cx.rule("C11.R2", "every key the deserializer reads is written by the paired serializer", floor=12)
        if d is None:
            cx.unknown(sfn, "serializer does not return one dict literal")
            continue
        # view: a loop over a literal tuple of field names (setattr(res, attr, data[attr])) is the unrolled sequence of assignments
        unroll_literal_loops(dfn)
        dp = params(dfn)
        data = dp[1]
        reads = [n for n in walk_body(dfn.body) if isinstance(n, ast.Subscript) and U(n.value) == data and const_str(n.slice) is not None]
        gets = [x for x in find_calls(dfn.body, attr="get") if U(x.func.value) == data]
        for n in reads:
            k = const_str(n.slice)
            cx.require(k in d, n, "%s reads data['%s'], which %s writes" % (dfn.name, k, sfn.name), construct="%s: data[%r] vs keys %s" % (c.name, k, sorted(d)))
        cx.rule("C11.R3", "command, arguments, container fields and the location are restored from the keys they were stored under", floor=12)
        obj = params(sfn)[0]
        for k, v in d.items():
            t = U(v)
            if t.startswith(obj + ".") and t[len(obj) + 1:] in FIELDS:
                a = t[len(obj) + 1:]
                asg = [x for x in walk_body(dfn.body) if isinstance(x, ast.Assign) and U(x.targets[0]).endswith("." + a)]
                ok = len(asg) == 1 and U(asg[0].value) == "%s['%s']" % (data, k) and not guard_texts(asg[0])
                cx.require(ok, asg[0] if asg else dfn, "%s: field '%s' stored under '%s' is restored from the same key" % (c.name, a, k),
                           construct=short(asg[0]) if asg else "(%s never assigns res.%s)" % (dfn.name, a))
        ctor = [x for x in find_calls(dfn.body) if isinstance(x.func, ast.Name) and x.func.id.endswith("Provider")]
        ok = False
        if ctor:
            x = ctor[0]
            a0 = trace(x.args[0], dfn) if x.args else None
            ok = a0 is not None and U(a0) == "%s['relative_path']" % data and U(kwarg(x, "root")) == dp[2] and U(kwarg(x, "ctx")) == dp[3] and U(kwarg(x, "ds")) == dp[4]
            rets = [r for r in walk_body(dfn.body) if isinstance(r, ast.Return)]
            ok = ok and len(rets) == 1 and isinstance(stmt_of(x), (ast.Assign, ast.Return))
        cx.require(ok, ctor[0] if ctor else dfn, "%s rebuilds the provider from data['relative_path'] with root, ctx and ds as given" % dfn.name,
                   construct=short(ctor[0]) if ctor else "(no provider constructed)")
        raw_expected = cx.repo.is_subclass(c, SF + ":RawFileProvider")
        if ctor:
            cx.require((ctor[0].func.id == "SerializedRawOutputProvider") == raw_expected, ctor[0], "%s content is reloaded %s" % (c.name, "as raw bytes" if raw_expected else "as text lines"))
        cx.rule("C11.R4", "the recorded relative location is the location written to", floor=6)
        writes = [x for x in find_calls(sfn.body, attr="write") if U(x.func.value) == obj]
        if len(writes) != 1 or "relative_path" not in d:
            cx.bad(sfn, "%s writes once and records 'relative_path'" % sfn.name, construct="writes=%d keys=%s" % (len(writes), sorted(d)))
            continue
        dst = trace(writes[0].args[0], sfn)
        rel_written = U(dst.args[1]) if isinstance(dst, ast.Call) and call_name(dst) == "os.path.join" and len(dst.args) == 2 else None
        rel_recorded = U(d["relative_path"])
        ok = rel_written is not None and rel_written == rel_recorded and isinstance(d["relative_path"], ast.Name)
        if ok:
            # no assignment to the variable after the destination was computed
            ddef = [a for a in assigns_to(sfn, U(writes[0].args[0]))]
            later = [a for a in assigns_to(sfn, rel_recorded) if ddef and a.lineno > ddef[-1].lineno]
            ok = not later
        cx.require(ok, writes[0], "%s records the same 'rel' it joined onto the root for the write" % sfn.name,
                   construct="dst = os.path.join(root, %s); 'relative_path': %s" % (rel_written, rel_recorded))


def r5_isolation(cx):
    cx.rule("C11.R5", "a bad entry never prevents the remaining entries from loading", floor=4)
    sd = cx.repo.module(SD)
    fn = sd.func("Hydration.hydrate", "C11.R5")
    loops = [s for s in fn.body if isinstance(s, ast.For)]
    if not loops:
        cx.unknown(fn, "no loop over the metadata documents")
        return
    lp = loops[0]
    cx.require("self.meta_root" in U(lp.iter) and call_name(lp.iter) == "glob", lp, "hydrate visits every document under the metadata directory", construct="for %s in %s" % (U(lp.target), U(lp.iter)))
    ok = len(lp.body) == 1 and isinstance(lp.body[0], ast.Try)
    cx.require(ok, lp, "the whole per-entry body is one try statement", construct="%d statements in the loop body" % len(lp.body))
    if not ok:
        return
    tr = lp.body[0]
    ca = [h for h in tr.handlers if is_catch_all(h)]
    cx.require(bool(ca) and tr.handlers[-1] is ca[0], tr, "the last handler catches Exception", construct="handlers: %s" % [",".join(handler_names(h)) for h in tr.handlers])
    for h in tr.handlers:
        bad = [n for n in walk_body(h.body) if isinstance(n, (ast.Raise, ast.Break, ast.Return))]
        cx.require(not bad, bad[0] if bad else h, "handler '%s' neither re-raises nor leaves the loop" % ",".join(handler_names(h)), construct=short(bad[0]) if bad else "except %s" % ",".join(handler_names(h)))
    cx.require(not tr.finalbody and not has_exit(tr.body, (ast.Break, ast.Return)), tr, "no early exit from the per-entry body", construct="try body")
    # a handler must itself be unable to fail: it may only read names that are bound on every way into it.  A name bound only inside the try body is
    # unbound (or stale from an earlier entry) when the failure happened before its assignment - and an exception raised *inside* a handler leaves the loop.
    bound_in_try = set(x.id for st_ in tr.body for x in ast.walk(st_) if isinstance(x, ast.Name) and isinstance(x.ctx, ast.Store))
    bound_before = set(params(fn)) | set(x.id for x in ast.walk(lp.target) if isinstance(x, ast.Name))
    for st_ in fn.body:
        if st_ is lp:
            break
        bound_before |= set(x.id for x in ast.walk(st_) if isinstance(x, ast.Name) and isinstance(x.ctx, ast.Store))
    for h in tr.handlers:
        own = set([h.name]) if h.name else set()
        used = [x for st_ in h.body for x in ast.walk(st_) if isinstance(x, ast.Name) and isinstance(x.ctx, ast.Load) and x.id in bound_in_try and x.id not in bound_before and x.id not in own]
        cx.require(not used, used[0] if used else h, "handler '%s' reads only names bound before the try (a name assigned inside the try body may be unbound when the entry failed early)" % ",".join(handler_names(h)),
                   construct="reads %s, assigned only inside the try body" % sorted(set(x.id for x in used)) if used else "except %s" % ",".join(handler_names(h)))
    # unknown component names raise inside the try
    h1 = sd.func("Hydration._hydrate_one", "C11.R5")
    called = [x for x in find_calls(tr.body) if U(x.func) == "self._hydrate_one"]
    rz = [r for r in walk_body(h1.body) if isinstance(r, ast.Raise)]
    ok = bool(called) and bool(rz) and ("key is None", True) in guard_texts(rz[0]) and any(U(a.value) == "dr.get_component_by_name(name)" for a in walk_body(h1.body) if isinstance(a, ast.Assign))
    cx.require(ok, rz[0] if rz else h1, "an unknown component name raises inside the per-entry try", construct=short(rz[0]) if rz else "(none)")
    um = [x for x in find_calls(h1.body, name="unmarshal")]
    ok = bool(um) and U(kwarg(um[0], "ds")) == "key" and U(kwarg(um[0], "root")) == "self.data_root" and U(kwarg(um[0], "ctx")) == "self.ctx" and U(um[0].args[0]) == "doc['results']"
    cx.require(ok, um[0] if um else h1, "results are unmarshalled for the component named in the document, under the archive's data root", construct=short(um[0]) if um else "(none)")
    st = [a for a in walk_body(tr.body) if isinstance(a, ast.Assign) and U(a.targets[0]).startswith("broker[")]
    ok = len(st) == 1 and U(st[0].targets[0]) == "broker[comp]" and U(st[0].value) == "results"
    cx.require(ok, st[0] if st else tr, "the loaded value is stored under the component it was persisted for", construct=short(st[0]) if st else "(none)")


def r6_errors_persisted(cx):
    cx.rule("C11.R6", "a failed component is persisted with its errors", floor=4)
    sd = cx.repo.module(SD)
    fn = sd.func("Hydration.dehydrate", "C11.R6")
    ed = [a for a in walk_body(fn.body) if isinstance(a, ast.Assign) and U(a.targets[0]) == "errors"]
    ok = len(ed) == 1 and U(ed[0].value) == "[broker.tracebacks[e] for e in broker.exceptions.get(comp, [])]"
    cx.require(ok, ed[0] if ed else fn, "errors = the traceback of every exception recorded against the component", construct=short(ed[0]) if ed else "(none)")
    ext = [x for x in find_calls(fn.body, attr="extend") if U(x.func.value) == "errors"]
    cx.require(bool(ext) and "ms_errors" in U(ext[0]), ext[0] if ext else fn, "marshalling errors are added to the persisted errors", construct=short(ext[0], 120) if ext else "(none)")
    docs = [a for a in walk_body(fn.body) if isinstance(a, ast.Assign) and U(a.targets[0]) == "doc" and isinstance(a.value, ast.Dict)]
    ok = False
    if docs:
        d = dict((const_str(k), U(v)) for k, v in zip(docs[0].value.keys, docs[0].value.values))
        ok = d.get("errors") == "errors" and d.get("name") == "name" and d.get("results") in ("results if results else None", "results or None", "results") and "exec_time" in d and "ser_time" in d
    cx.require(ok, docs[0] if docs else fn, "the metadata document carries name, results, errors and timings", construct=short(docs[0], 140) if docs else "(none)")
    dumps = [x for x in find_calls(fn.body) if U(x.func) in ("ser.dump",)]
    ok = False
    if dumps:
        g = set(guard_texts(dumps[0]))
        ok = ("doc['results']", True) not in g and any(t == "doc['results'] or doc['errors']" and p for t, p in g)
    cx.require(ok, dumps[0] if dumps else fn, "the document is written iff it has results or errors (a failed component is not silently omitted)",
               construct="ser.dump guarded by %s" % sorted(guard_texts(dumps[0])) if dumps else "(no ser.dump)")
    nm = [a for a in walk_body(fn.body) if isinstance(a, ast.Assign) and U(a.targets[0]) == "name"]
    cx.require(len(nm) == 1 and U(nm[0].value) == "dr.get_name(comp)", nm[0] if nm else fn, "the document is named after the component (the loader resolves this name back)", construct=short(nm[0]) if nm else "(none)")


def r7_order(cx):
    cx.rule("C11.R7", "multi-output results keep their element order through marshal/unmarshal", floor=3)
    sd = cx.repo.module(SD)
    kinds = Kinds(cx.repo, [sd])
    for q in ("marshal", "unmarshal"):
        fn = sd.func(q, "C11.R7")
        for it in iterations(fn):
            if kinds.unordered(it.iterable, fn):
                cx.bad(it.node, "%s builds its list result from an ordered iteration" % q, construct="%s over %s" % (it.kind, short(it.iterable)))
            else:
                cx.ok(it.node, "%s iterates an ordered expression" % q, construct="%s over %s" % (it.kind, short(it.iterable, 80)))
    # nothing on the way from the persisted list to the broker (or back) re-orders it: no sort / sorted / reversed / set() of the element list
    for q in ("marshal", "unmarshal", "Hydration._hydrate_one", "Hydration.hydrate", "Hydration.dehydrate"):
        fn = sd.func(q, "C11.R7")
        re_ = [x for x in ast.walk(fn) if isinstance(x, ast.Call) and (call_attr(x) in ("sort", "reverse") or call_name(x) in ("sorted", "reversed", "set", "frozenset", "random.shuffle", "shuffle"))
               and not (call_name(x) == "sorted" and "glob" in U(x))]
        cx.require(not re_, re_[0] if re_ else fn, "%s hands the elements on in the order it received them" % q, construct=short(re_[0], 90) if re_ else "no re-ordering call in %s" % q)
    m = sd.func("marshal", "C11.R7")
    def _is_map(x):
        if call_name(x) == "map" or call_attr(x) == "map":
            return True
        if isinstance(x.func, ast.IfExp):
            return all(U(a) == "map" or (isinstance(a, ast.Attribute) and a.attr == "map") for a in (x.func.body, x.func.orelse))
        if isinstance(x.func, ast.Name):
            ds = assigns_to(m, x.func.id)
            alts = []
            for d in ds:
                v = d.value
                alts += [v.body, v.orelse] if isinstance(v, ast.IfExp) else [v]
            return bool(alts) and all(U(a) == "map" or (isinstance(a, ast.Attribute) and a.attr == "map") for a in alts)
        return False
    maps = [x for x in find_calls(m.body) if _is_map(x)]
    def _wrapper(name):
        """is <name> the per-element wrapper  def w(func, value, exc): try: return func(value), None / except: ...; return None, tb  (nested or module level)"""
        cands = [n for n in ast.walk(m) if isinstance(n, FUNC_TYPES) and n.name == name and n is not m]
        if not cands and sd.has(name) and isinstance(sd.get(name), FUNC_TYPES):
            cands = [sd.get(name)]
        if len(cands) != 1:
            return False
        w = cands[0]
        ps = params(w)
        trs = [t for t in w.body if isinstance(t, ast.Try)]
        if len(ps) != 3 or len(trs) != 1:
            return False
        rets = [r for r in trs[0].body if isinstance(r, ast.Return)]
        return len(rets) == 1 and isinstance(rets[0].value, ast.Tuple) and len(rets[0].value.elts) == 2 and U(rets[0].value.elts[0]) == "%s(%s)" % (ps[0], ps[1])

    def _elementwise(x):
        # map(call_serializer, [ser]*n, v, [exc]*n)   |   map(<local one-argument function returning call_serializer(ser, <arg>, exc)>, v)
        if len(x.args) == 4 and U(x.args[2]) == "v" and isinstance(x.args[0], ast.Name) and (x.args[0].id == "call_serializer" or _wrapper(x.args[0].id)):
            return True
        if len(x.args) == 2 and U(x.args[1]) == "v" and not x.keywords:
            f = x.args[0]
            if isinstance(f, ast.Name):
                defs = [n for n in ast.walk(m) if isinstance(n, FUNC_TYPES) and n.name == f.id and n is not m]
                if len(defs) == 1 and not assigns_to(m, f.id):
                    ps = params(defs[0])
                    body = [st for st in defs[0].body if not (isinstance(st, ast.Expr) and isinstance(st.value, ast.Constant))]
                    if len(ps) == 1 and len(body) == 1 and isinstance(body[0], ast.Return) and isinstance(body[0].value, ast.Call):
                        c = body[0].value
                        return (call_name(c) == "call_serializer" or _wrapper(call_name(c) or "")) and len(c.args) == 3 and U(c.args[1]) == ps[0] and not c.keywords
            if isinstance(f, ast.Lambda) and len(f.args.args) == 1 and isinstance(f.body, ast.Call):
                c = f.body
                return call_name(c) == "call_serializer" and len(c.args) == 3 and U(c.args[1]) == f.args.args[0].arg and not c.keywords
        return False
    ok = len(maps) >= 1 and all(_elementwise(x) for x in maps) and all(isinstance(parent(x), ast.Call) and call_name(parent(x)) == "list" for x in maps)
    cx.require(ok, maps[0] if maps else m, "marshal maps the serializer over the value list in order (map / pool.map, both order preserving)",
               construct=" | ".join(short(x, 70) for x in maps) if maps else "(no map)")
    res = [a for a in walk_body(m.body) if isinstance(a, ast.Assign) and U(a.targets[0]) == "results"]
    ok = len(res) == 1 and isinstance(res[0].value, ast.ListComp) and len(res[0].value.generators) == 1
    if ok:
        lc = res[0].value
        g = lc.generators[0]
        first = "%s[0]" % U(g.target) if isinstance(g.target, ast.Name) else (U(g.target.elts[0]) if isinstance(g.target, ast.Tuple) and len(g.target.elts) == 2 else None)
        ok = U(g.iter) == "data" and first is not None and U(lc.elt) == first and [U(i) for i in g.ifs] in ([first], [])
    cx.require(ok, res[0] if res else m, "results are the serialised elements in input order (failed elements omitted)", construct=short(res[0]) if res else "(none)")
    u = sd.func("unmarshal", "C11.R7")
    rets = [r for r in walk_body(u.body) if isinstance(r, ast.Return) and isinstance(r.value, ast.ListComp)]
    ok = bool(rets) and U(rets[0].value.generators[0].iter) == params(u)[0] and not rets[0].value.generators[0].ifs
    cx.require(ok, rets[0] if rets else u, "unmarshal deserialises every element of the list in order", construct=short(rets[0]) if rets else "(none)")


def r9_line_separator(cx):
    """The writer joins lines with '\n' only; the loader must split on exactly that: str.splitlines() also splits on \x0b \x0c \x1c-\x1e \x85 U+2028 U+2029,
    so a persisted line containing one of them would come back as several lines (and every later line would shift)."""
    cx.rule("C11.R9", "the loader splits persisted content on the separator the writer joined it with", floor=2)
    sf = cx.repo.module(SF)
    wr = sf.func("ContentProvider.write", "C11.R9")
    def _whole_cleaned(e_):
        # the cleaned list itself (directly or through a single-assignment local), not a slice or a block of it
        e_ = trace(e_, wr) if isinstance(e_, ast.Name) else e_
        return isinstance(e_, ast.Call) and call_attr(e_) == "_clean_content"
    joins = [x for x in ast.walk(wr) if isinstance(x, ast.Call) and call_attr(x) == "join" and x.args and _whole_cleaned(x.args[0])]
    ok = len(joins) == 1 and const_str(joins[0].func.value) == "\n"
    cx.require(ok, joins[0] if joins else wr, "the writer joins the cleaned lines with a single line feed", construct=short(joins[0]) if joins else "(no join)")
    encs = [x for x in ast.walk(wr) if isinstance(x, ast.Call) and call_attr(x) == "encode"]
    lossy = [x for x in encs if len(x.args) > 1 or any(k.arg == "errors" for k in x.keywords)]
    cx.require(bool(encs) and not lossy, lossy[0] if lossy else wr, "the writer encodes strictly (an unencodable element fails and is persisted as an error; 'replace'/'ignore' would store different lines)",
               construct=short(lossy[0]) if lossy else "; ".join(short(x) for x in encs))
    dh = cx.repo.module(SD).func("Hydration.dehydrate", "C11.R9")
    dumps = [x for x in ast.walk(dh) if isinstance(x, ast.Call) and call_attr(x) == "dump"]
    na = [x for x in dumps if any(k.arg == "ensure_ascii" and U(k.value) != "True" for k in x.keywords)]
    cx.require(bool(dumps) and not na, na[0] if na else dh, "the metadata document is written ASCII-safe (ensure_ascii left on: the file is opened with the locale's encoding)",
               construct=short(na[0]) if na else "; ".join(short(x, 60) for x in dumps))
    ld = sf.func("TextFileProvider.load", "C11.R9")
    wide = [x for x in ast.walk(ld) if isinstance(x, ast.Call) and (call_attr(x) == "splitlines" or (call_attr(x) == "split" and not x.args))]
    per_line = [x for x in ast.walk(ld) if isinstance(x, ast.Call) and call_attr(x) == "rstrip" and [const_str(a) for a in x.args] == ["\n"]] + \
        [x for x in ast.walk(ld) if isinstance(x, ast.Call) and call_attr(x) == "split" and [const_str(a) for a in x.args] == ["\n"]]
    cx.require(not wide and bool(per_line), wide[0] if wide else ld, "the loader takes the file's lines as separated by line feeds only (never str.splitlines(), which knows more separators)",
               construct=short(wide[0]) if wide else "%d line-feed based splits" % len(per_line))


def _codec(x):
    return (x or "").lower().replace("_", "-").replace("utf8", "utf-8")


def r9b_codec_and_location(cx):
    """Same bytes, same place: the loader decodes with the codec the writer encoded with ('utf-8-sig' swallows a leading U+FEFF that 'utf-8' wrote), and the
    location it opens is the recorded relative path with nothing but leading slashes removed (lstrip takes a *character set*: './' also eats the dot of '.config')."""
    cx.rule("C11.R9", "the loader splits persisted content on the separator the writer joined it with", floor=2)
    sf = cx.repo.module(SF)
    wr = sf.func("ContentProvider.write", "C11.R9")
    encs = [x for x in ast.walk(wr) if isinstance(x, ast.Call) and call_attr(x) == "encode"]
    wcodec = None
    for x in encs:
        a0 = x.args[0] if x.args else kwarg(x, "encoding")
        wcodec = const_str(feat.resolve_const(sf, wr, a0)) if a0 is not None else "utf-8"
    enc = None
    for st in sf.tree.body:
        if isinstance(st, ast.Assign) and isinstance(st.targets[0], ast.Tuple) and "encoding" in [U(e) for e in st.targets[0].elts]:
            i = [U(e) for e in st.targets[0].elts].index("encoding")
            v = st.value.body if isinstance(st.value, ast.IfExp) else st.value
            if isinstance(v, ast.Tuple) and len(v.elts) > i:
                enc = (st, const_str(v.elts[i]))
        elif isinstance(st, ast.Assign) and any(U(t) == "encoding" for t in st.targets):
            v = st.value.body if isinstance(st.value, ast.IfExp) else st.value
            enc = (st, const_str(v))
    if enc is None or wcodec is None:
        cx.unknown(wr, "cannot read the writer's codec / the module-level 'encoding' the loaders open files with")
    else:
        cx.require(_codec(enc[1]) == _codec(wcodec), enc[0], "files are read back with the codec they were written with", construct="write: encode(%r); read: encoding=%r" % (wcodec, enc[1]))
    n = 0
    for c in [x for x in sf.tree.body if isinstance(x, ast.ClassDef)]:
        for a in [y for y in ast.walk(c) if isinstance(y, ast.Assign) and any(U(t) == "self.relative_path" for t in y.targets)]:
            for call in [z for z in ast.walk(a.value) if isinstance(z, ast.Call) and call_attr(z) in ("lstrip", "strip", "rstrip")]:
                n += 1
                arg = const_str(feat.resolve_const(sf, enclosing_function(a), call.args[0])) if call.args else None
                cx.require(arg == "/" and call_attr(call) == "lstrip", a, "%s: the relative path keeps every character but leading slashes (the loader looks where the writer stored)" % c.name, construct=short(a, 80))
    if n == 0:
        cx.unknown(sf.tree.body[0], "no provider normalises its relative path any more")


def r8_no_recollect(cx):
    cx.rule("C11.R8", "specs loaded from the archive are not collected again", floor=3)
    dr = cx.repo.module("insights.core.dr")
    fn = dr.func("run", "C11.R8")
    pops = [x for x in find_calls(fn.body, attr="pop") if U(x.func.value) == "components"]
    ok = False
    if pops:
        g = set(guard_texts(pops[0]))
        lp = enclosing(pops[0], ast.For)
        ok = ("broker.get(SerializedArchiveContext) is None", False) in g and ("comp in broker", True) in g and lp is not None and U(lp.iter) == "components[comp]" and U(pops[0].args[0]) == U(lp.target)
    cx.require(ok, pops[0] if pops else fn, "under a serialized archive, the dependencies of an already loaded component are pruned from the graph", construct=short(pops[0]) if pops else "(no pruning block)")
    cx.borrow(c01.r1_run_guard, "C01.R1", "C11.R8", "specs loaded from the archive are not collected again")
    hy = cx.repo.module("insights.core.hydration")
    ib = hy.func("initialize_broker", "C11.R8")
    h = [x for x in find_calls(ib.body, attr="hydrate")]
    ok = bool(h) and ("isinstance(ctx, SerializedArchiveContext)", True) in guard_texts(h[0]) and U(kwarg(h[0], "broker")) == "broker"
    ctor = [x for x in find_calls(ib.body) if call_name(x) == "Hydration"]
    ok = ok and bool(ctor) and U(kwarg(ctor[0], "root")) == "ctx.root" and U(kwarg(ctor[0], "ctx")) == "ctx"
    cx.require(ok, h[0] if h else ib, "a serialized archive seeds the broker through Hydration(root=ctx.root, ctx=ctx).hydrate(broker)", construct=short(h[0]) if h else "(none)")


def r6b_attribution_memo(cx):
    """A failure is persisted with the registry point only if the exception was attributed to it: the look-up of registry points must not answer from a
    memo that later registrations (or a different search direction) invalidate - C03.R3 re-checked under this property."""
    from . import c03
    cx.borrow(c03.r3b_registry_points_not_memoised_partially, "C03.R3", "C11.R6", "a failed component is persisted with its errors")


def run(cx):
    repo = cx.repo
    cx.extra["explanation"] = ("C11: pairing/exhaustiveness of (de)serializers over every instantiable provider kind, key and field agreement of each pair, same-rel rule, "
                               "per-entry isolation in hydrate, error persistence in dehydrate, order-preserving marshal/unmarshal, no re-collection of loaded specs.")
    cx.undecided = ["equality of lines for all contents (encoding, trailing blank lines)", "corruption patterns beyond 'raises inside the per-entry try'"]
    anchor = [repo.module(SF), repo.module(SD), repo.module("insights.core.hydration"), repo.module("insights.core.dr")]
    if cx.tier == "thorough":
        mods = repo.all_modules()
    else:
        mods = anchor + [repo.module(n) for n in repo.module_names("insights.specs.datasources")] + [repo.module(n) for n in repo.module_names("insights.specs") if n.count(".") == 2]
        seen = set()
        mods = [m for m in mods if not (m.name in seen or seen.add(m.name))]
    sers = registry(cx, mods, "serializer")
    desers = registry(cx, mods, "deserializer")
    cx.guard(r1_pairing, mods, sers, desers)
    cx.guard(r2_r3_r4, sers, desers)
    cx.guard(r5_isolation)
    cx.guard(r6_errors_persisted)
    cx.guard(r6b_attribution_memo)
    cx.guard(r7_order)
    cx.guard(r8_no_recollect)
    cx.guard(r9_line_separator)
    cx.guard(r9b_codec_and_location)
    # the loader runs the allow-list post-filter over what it reads: its match budgets live in a table shared through the filter cache, so consuming
    # them in place makes a second load (the next element of a multi-output spec, the next archive) lose persisted lines (C07.R7 re-checked)
    from . import c07
    cx.borrow(c07.r7_copy_before_mutation, "C07.R7", "C11.R10", "loading never consumes the shared filter budgets (C07.R7)", [])
