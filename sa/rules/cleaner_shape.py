"""Shape extraction for Cleaner.clean_content shared by C08 and C10: the facts the rules need, in whatever of the
equivalent forms the function is written (append loop or extend(generator), nested helper or method taking the stage
list, in-place reverse or reversed copy)."""
import ast

from ..model import FUNC_TYPES, U, call_attr, call_name, enclosing, guard_texts, parent, walk_body, _flatten_atom
from ..util import assigns_to, find_calls, params, trace


def stage_list_name(cc):
    """The local list the stages are collected in (bound exactly once to a fresh empty list in this call)."""
    cands = []
    for a in cc.body:
        if isinstance(a, ast.Assign) and len(a.targets) == 1 and isinstance(a.targets[0], ast.Name) and U(a.value) in ("list()", "[]"):
            nm = a.targets[0].id
            if len(assigns_to(cc, nm)) == 1 and [x for x in find_calls(cc.body, attr=("append", "extend")) if U(x.func.value) == nm]:
                cands.append((nm, a))
    # the stage list is the one that receives parser objects
    for nm, a in cands:
        if any("self.redact" in U(x) or "self.obfuscate" in U(x) for x in find_calls(cc.body, attr=("append", "extend")) if U(x.func.value) == nm):
            return nm, a
    return None, None


def obfuscator_entries(cc, plist):
    """(node, iterable expr, set of filter atoms, element expr, loop variable) for the entries built from self.obfuscate, or None.

    forms:  for n in IT: if C: plist.append(E)          plist.extend(E for n in IT if C)          plist += [E for n in IT if C]"""
    for lp in [s for s in cc.body if isinstance(s, ast.For)]:
        ap = [x for x in find_calls(lp.body, attr="append") if U(x.func.value) == plist]
        if ap and "self.obfuscate" in U(lp) and len(ap) == 1:
            exits = [x for x in walk_body(lp.body) if isinstance(x, (ast.Break, ast.Return))]
            atoms = set(guard_texts(ap[0], stop=lp))
            it = lp.iter
            # for p in [self.obfuscate[n] for n in NAMES if self.obfuscate[n]]: plist.append((p, ...))
            if isinstance(it, (ast.ListComp, ast.GeneratorExp)) and len(it.generators) == 1:
                g = it.generators[0]
                sub = {U(lp.target): U(it.elt)}
                extra = []
                for t in g.ifs:
                    _flatten_atom(t, True, extra)
                atoms |= set((U(e), p) for e, p in extra)
                elt = U(ap[0].args[0])
                for k, v in sub.items():
                    elt = elt.replace("(%s," % k, "(%s," % v)
                return ap[0], g.iter, atoms, elt, U(g.target), bool(exits)
            # for name, obf in sorted(self.obfuscate.items()):  obf is self.obfuscate[name] (neither rebound in the body)
            if isinstance(lp.target, ast.Tuple) and len(lp.target.elts) == 2 and all(isinstance(e, ast.Name) for e in lp.target.elts) and _items_of_obfuscate(it):
                import re
                kv, vv = [e.id for e in lp.target.elts]
                if not assigns_to(lp.body, kv) and not assigns_to(lp.body, vv):
                    rx = re.compile(r"(?<![\w.])%s(?!\w)" % re.escape(vv))
                    rep = "self.obfuscate[%s]" % kv
                    atoms = set((rx.sub(rep, t), p) for t, p in atoms)
                    return ap[0], it, atoms, rx.sub(rep, U(ap[0].args[0])), kv, bool(exits)
            return ap[0], it, atoms, U(ap[0].args[0]), U(lp.target), bool(exits)
    for x in find_calls(cc.body, attr="extend"):
        if U(x.func.value) == plist and x.args and isinstance(x.args[0], (ast.GeneratorExp, ast.ListComp)) and "self.obfuscate" in U(x):
            comp = x.args[0]
            if len(comp.generators) != 1:
                return None
            g = comp.generators[0]
            atoms = []
            for t in g.ifs:
                _flatten_atom(t, True, atoms)
            return x, g.iter, set((U(e), p) for e, p in atoms) | set(guard_texts(x)), U(comp.elt), U(g.target), False
    return None


def _items_of_obfuscate(it):
    """self.obfuscate.items() possibly wrapped in sorted()/list(): pairs (name, self.obfuscate[name])."""
    e = it
    while isinstance(e, ast.Call) and call_name(e) in ("sorted", "list") and len(e.args) == 1 and not e.keywords:
        e = e.args[0]
    return U(e) == "self.obfuscate.items()"


def name_set_meaning(expr, cc, loopvar, atoms):
    """What the iteration ranges over: (ordered?, over all keys of self.obfuscate?, minus no_obfuscate?) from the iterable and the filter atoms."""
    t = U(expr)
    ordered = isinstance(expr, ast.Call) and call_name(expr) == "sorted" and not expr.keywords
    inner = U(expr.args[0]) if ordered and expr.args else t
    over_all = any(k in inner for k in ("self.obfuscate.keys()", "set(self.obfuscate)", "self.obfuscate)")) or inner in ("self.obfuscate", "self.obfuscate.items()")
    minus = "no_obfuscate" in inner and " - " in inner or ".difference(" in inner and "no_obfuscate" in inner
    rest = set(atoms)
    for a in list(rest):
        txt, pol = a
        if not pol and txt.startswith("%s in " % loopvar):
            coll = txt[len("%s in " % loopvar):]
            src = coll
            if coll.isidentifier():
                d = assigns_to(cc, coll)
                src = U(d[0].value) if len(d) == 1 else coll
            if "no_obfuscate" in src and all(k not in src for k in ("DEFAULT_OBFUSCATIONS",)):
                minus = True
                rest.discard(a)
    return ordered, over_all and "DEFAULT_OBFUSCATIONS" not in inner, minus, rest


def clean_line_helper(cm, cc, plist):
    """(helper function, call nodes in clean_content, ok?) for the per-line helper: a nested function reading the local stage list,
    or a (static)method that is handed the local stage list as an argument."""
    nested = [n for n in cc.body if isinstance(n, FUNC_TYPES) and n.name == "_clean_line"]
    if nested:
        f = nested[0]
        calls = [x for x in ast.walk(cc) if isinstance(x, ast.Call) and isinstance(x.func, ast.Name) and x.func.id == "_clean_line"]
        return f, calls, plist, all(len(c.args) == 1 for c in calls)
    q = getattr(cc, "_qual", "Cleaner.clean_content").rsplit(".", 1)[0]
    for nm in ("_clean_line",):
        if cm.has("%s.%s" % (q, nm)):
            f = cm.get("%s.%s" % (q, nm))
            calls = [x for x in ast.walk(cc) if isinstance(x, ast.Call) and isinstance(x.func, ast.Attribute) and x.func.attr == nm and U(x.func.value) in ("self", q, "cls")]
            ps = [a.arg for a in f.args.args]
            static = any(U(d) == "staticmethod" for d in f.decorator_list)
            if not static:
                ps = ps[1:]
            # the stage list must travel as an argument: the local list of this call, never shared state of the instance
            ok = len(ps) == 2 and bool(calls) and all(len(c.args) == 2 and U(c.args[1]) == plist for c in calls)
            return f, calls, (ps[1] if len(ps) == 2 else None), ok
    return None, [], None, False


def reversal(cc, result):
    """How the collected lines are put back in order on the returning path: ('inplace', node) | ('copy', return node) | (None, None)."""
    revs = [x for x in find_calls(cc.body, attr="reverse") if U(x.func.value) == result]
    if len(revs) == 1:
        return "inplace", revs[0]
    for r in walk_body(cc.body):
        if isinstance(r, ast.Return) and r.value is not None and U(r.value) in ("%s[::-1]" % result, "list(reversed(%s))" % result):
            return "copy", r
    return None, None


def ensure_line_loop(cc, lines):
    """View: when clean_content has no ``for`` over the lines but builds its result with a list comprehension (possibly fed by a
    one-use generator over the lines), read the comprehension as the loop it abbreviates.  Idempotent."""
    from ..util import line_loop
    from ..normal import desugar_list_comprehension
    if getattr(cc, "_line_loop_view", False):
        return
    cc._line_loop_view = True
    if [s for s in cc.body if isinstance(s, ast.For) and line_loop(s, lines)[0] is not None]:
        return
    for st in list(cc.body):
        if isinstance(st, ast.Assign) and isinstance(st.value, ast.ListComp) and len(st.targets) == 1 and isinstance(st.targets[0], ast.Name):
            if desugar_list_comprehension(cc, st):
                break
