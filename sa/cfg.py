"""Statement-level control-flow graph for one function, with exceptional edges.

Nodes are small integers; ``g.ast[n]`` is the statement (or the compound
statement whose *head* the node stands for: ``if`` test, loop header, ``with``
items, ``except`` entry).  Three synthetic nodes: ENTRY, EXIT (normal return /
fall off), RAISE (exception leaves the function).

The graph over-approximates the feasible paths (every statement that contains
a call, subscript, attribute load, binary operation, raise or assert may raise;
a raising statement inside ``try`` may reach *every* handler of that ``try``
and, unless one handler is a catch-all, the enclosing handlers as well;
``finally`` bodies are built once and continue both normally and
exceptionally).  Dominance and must-pass-through computed on an
over-approximation are conservative: they never claim an ordering that some
real path violates.
"""
import ast

from .model import FUNC_TYPES, call_name, walk_local

ENTRY, EXIT, RAISE = 0, 1, 2

CATCH_ALL = ("Exception", "BaseException")


def may_raise(node):
    for n in walk_local(node):
        if isinstance(n, (ast.Call, ast.Subscript, ast.Raise, ast.Assert, ast.BinOp, ast.Await, ast.Yield, ast.YieldFrom)):
            return True
        if isinstance(n, ast.Attribute) and isinstance(n.ctx, ast.Load):
            return True
        if isinstance(n, (ast.Import, ast.ImportFrom)):
            return True
    return False


def handler_names(h):
    if h.type is None:
        return ["BaseException"]
    t = h.type
    elts = t.elts if isinstance(t, ast.Tuple) else [t]
    out = []
    for e in elts:
        if isinstance(e, ast.Attribute):
            out.append(e.attr)
        elif isinstance(e, ast.Name):
            out.append(e.id)
        else:
            out.append("?")
    return out


def is_catch_all(h):
    return any(n in CATCH_ALL for n in handler_names(h))


class CFG(object):
    def __init__(self, fn, may_raise_fn=may_raise, nonempty_iter=None):
        self.fn = fn
        self._nonempty = nonempty_iter or (lambda e: False)
        self.ast = {ENTRY: None, EXIT: None, RAISE: None}
        self.kind = {ENTRY: "entry", EXIT: "exit", RAISE: "raise"}
        self.succ = {ENTRY: set(), EXIT: set(), RAISE: set()}
        self.exc_succ = {}          # node -> set of nodes reached exceptionally
        self._n = 3
        self._may_raise = may_raise_fn
        self.node_of = {}           # id(ast stmt) -> node (head node for compounds)
        body = fn.body if isinstance(fn.body, list) else [ast.Expr(value=fn.body)]
        ends = self._block(body, [ENTRY], _Ctx(None, [], [RAISE], None, None))
        for e in ends:
            self._edge(e, EXIT)
        self.pred = dict((n, set()) for n in self.succ)
        for a, bs in self.succ.items():
            for b in bs:
                self.pred[b].add(a)
        self._dom = None

    # ---- construction ---------------------------------------------------
    def _new(self, node, kind):
        n = self._n
        self._n += 1
        self.ast[n] = node
        self.kind[n] = kind
        self.succ[n] = set()
        if node is not None and id(node) not in self.node_of:
            self.node_of[id(node)] = n
        return n

    def _edge(self, a, b):
        self.succ[a].add(b)

    def _link(self, preds, n):
        for p in preds:
            self._edge(p, n)

    def _exc(self, n, ctx):
        for t in ctx.exc_targets:
            self._edge(n, t)
            self.exc_succ.setdefault(n, set()).add(t)

    def _block(self, stmts, preds, ctx):
        cur = list(preds)
        for s in stmts:
            cur = self._stmt(s, cur, ctx)
        return cur

    def _stmt(self, s, preds, ctx):
        if isinstance(s, FUNC_TYPES + (ast.ClassDef,)):
            n = self._new(s, "def")
            self._link(preds, n)
            return [n]
        if isinstance(s, ast.If):
            n = self._new(s, "if")
            self._link(preds, n)
            if self._may_raise(s.test):
                self._exc(n, ctx)
            b = self._block(s.body, [n], ctx)
            o = self._block(s.orelse, [n], ctx) if s.orelse else [n]
            return b + o
        if isinstance(s, (ast.For, ast.AsyncFor, ast.While)):
            n = self._new(s, "loop")
            self._link(preds, n)
            head = s.iter if not isinstance(s, ast.While) else s.test
            if self._may_raise(head) or not isinstance(s, ast.While):
                self._exc(n, ctx)
            brk = []
            if not isinstance(s, ast.While) and self._nonempty(s.iter):
                # provably non-empty iterable: the first entry always runs the body;
                # only the re-entry node may leave the loop
                again = self._new(None, "loop-again")
                self.ast[again] = s
                lctx = ctx.loop(again, brk)
                b = self._block(s.body, [n, again], lctx)
                self._link(b, again)
                out = [again]
                if s.orelse:
                    out = self._block(s.orelse, out, ctx)
                return out + brk
            lctx = ctx.loop(n, brk)
            b = self._block(s.body, [n], lctx)
            self._link(b, n)
            infinite = isinstance(s, ast.While) and isinstance(s.test, ast.Constant) and bool(s.test.value)
            out = [] if infinite else [n]
            if s.orelse:
                out = self._block(s.orelse, out, ctx)
            return out + brk
        if isinstance(s, (ast.With, ast.AsyncWith)):
            n = self._new(s, "with")
            self._link(preds, n)
            self._exc(n, ctx)
            return self._block(s.body, [n], ctx)
        if isinstance(s, ast.Try) or s.__class__.__name__ == "TryStar":
            return self._try(s, preds, ctx)
        if isinstance(s, ast.Return):
            n = self._new(s, "return")
            self._link(preds, n)
            if s.value is not None and self._may_raise(s.value):
                self._exc(n, ctx)
            self._jump(n, ctx, "return")
            return []
        if isinstance(s, ast.Raise):
            n = self._new(s, "raise")
            self._link(preds, n)
            self._exc(n, ctx)
            return []
        if isinstance(s, ast.Break):
            n = self._new(s, "break")
            self._link(preds, n)
            self._jump(n, ctx, "break")
            return []
        if isinstance(s, ast.Continue):
            n = self._new(s, "continue")
            self._link(preds, n)
            self._jump(n, ctx, "continue")
            return []
        if s.__class__.__name__ == "Match":
            n = self._new(s, "match")
            self._link(preds, n)
            self._exc(n, ctx)
            outs = [n]
            for case in s.cases:
                outs += self._block(case.body, [n], ctx)
            return outs
        n = self._new(s, "stmt")
        self._link(preds, n)
        if self._may_raise(s):
            self._exc(n, ctx)
        if isinstance(s, ast.Expr) and isinstance(s.value, ast.Call) and call_name(s.value) in ("sys.exit", "os._exit", "exit"):
            return []
        return [n]

    def _jump(self, n, ctx, what):
        """return/break/continue: run enclosing finally blocks first."""
        # finally blocks between here and the target
        fins = ctx.finallies_until(what)
        cur = n
        for f_entry, f_exits_holder in fins:
            self._edge(cur, f_entry)
            # the finally block's ends continue to the jump target: register
            item = what if what == "return" else (what, ctx.loop_target(what))
            if item not in f_exits_holder:
                f_exits_holder.append(item)
            cur = None
            break  # outer finallies are chained by the finally's own context
        if cur is None:
            return
        if what == "return":
            self._edge(n, EXIT)
        elif what == "break":
            ctx.brk.append(n)
        elif what == "continue":
            self._edge(n, ctx.loop_head)

    def _try(self, s, preds, ctx):
        t = self._new(s, "try")
        self._link(preds, t)
        after = []
        # finally context
        fin_entry = None
        pending = []  # jump kinds that pass through finally
        if s.finalbody:
            fin_entry = self._new(s, "finally")
        # handler entries
        hnodes = []
        for h in s.handlers:
            hn = self._new(h, "except")
            hnodes.append(hn)
        caught_all = any(is_catch_all(h) for h in s.handlers)
        # exception targets for the try body
        body_targets = list(hnodes)
        if not caught_all:
            body_targets += ([fin_entry] if fin_entry is not None else ctx.exc_targets)
        bctx = ctx.nested(body_targets, fin_entry, pending)
        b = self._block(s.body, [t], bctx)
        # orelse and handlers raise past this try's handlers
        outer_targets = [fin_entry] if fin_entry is not None else ctx.exc_targets
        octx = ctx.nested(outer_targets, fin_entry, pending)
        if s.orelse:
            b = self._block(s.orelse, b, octx)
        ends = list(b)
        for h, hn in zip(s.handlers, hnodes):
            ends += self._block(h.body, [hn], octx)
        if fin_entry is None:
            return ends
        self._link(ends, fin_entry)
        f = self._block(s.finalbody, [fin_entry], ctx)
        # finally continues: normally, exceptionally outward, and to pending jumps
        reached_exc = any(fin_entry in self.succ[n] and n not in ends for n in list(self.succ)) or True
        if reached_exc:
            for x in f:
                for tgt in ctx.exc_targets:
                    self._edge(x, tgt)
                    self.exc_succ.setdefault(x, set()).add(tgt)
        for p in pending:
            for x in f:
                if p == "return":
                    fake = self._new(None, "return-after-finally")
                    self._edge(x, fake)
                    self._jump(fake, ctx, "return")
                else:
                    kind, target = p
                    fake = self._new(None, "%s-after-finally" % kind)
                    self._edge(x, fake)
                    self._jump(fake, ctx, kind)
        return f

    # ---- queries --------------------------------------------------------
    def nodes(self):
        return list(self.succ)

    def node(self, stmt):
        return self.node_of.get(id(stmt))

    def stmt_node_containing(self, sub):
        """CFG node of the innermost statement/head that lexically contains ``sub``."""
        from .model import parent
        n = sub
        while n is not None:
            if id(n) in self.node_of:
                cn = self.node_of[id(n)]
                # compound head only if ``sub`` is in the head expression
                a = self.ast[cn]
                if isinstance(a, (ast.If, ast.While)):
                    if _contains(a.test, sub) or a is sub:
                        return cn
                elif isinstance(a, (ast.For, ast.AsyncFor)):
                    if _contains(a.iter, sub) or _contains(a.target, sub) or a is sub:
                        return cn
                elif isinstance(a, (ast.With, ast.AsyncWith)):
                    if any(_contains(i, sub) for i in a.items) or a is sub:
                        return cn
                elif isinstance(a, ast.Try):
                    if a is sub:
                        return cn
                elif isinstance(a, ast.ExceptHandler):
                    if a is sub or (a.type is not None and _contains(a.type, sub)):
                        return cn
                else:
                    return cn
            n = parent(n)
        return None

    def reachable(self, src, avoid=(), follow_exc=True):
        avoid = set(avoid)
        seen = set()
        stack = [src]
        while stack:
            n = stack.pop()
            if n in seen or (n in avoid and n != src):
                continue
            seen.add(n)
            for m in self.succ[n]:
                if not follow_exc and m in self.exc_succ.get(n, ()):
                    continue
                if m not in seen and m not in avoid:
                    stack.append(m)
        return seen

    def must_pass(self, src, dst, through, follow_exc=True):
        """Every path src -> dst goes through a node of ``through``."""
        through = set(through)
        if src in through or dst in through:
            return True
        return dst not in self.reachable(src, avoid=through, follow_exc=follow_exc)

    def dominators(self):
        if self._dom is not None:
            return self._dom
        nodes = self.reachable(ENTRY)
        dom = dict((n, set(nodes)) for n in nodes)
        dom[ENTRY] = set([ENTRY])
        changed = True
        order = sorted(nodes)
        while changed:
            changed = False
            for n in order:
                if n == ENTRY:
                    continue
                ps = [p for p in self.pred[n] if p in nodes]
                new = set.intersection(*[dom[p] for p in ps]) if ps else set()
                new = new | set([n])
                if new != dom[n]:
                    dom[n] = new
                    changed = True
        self._dom = dom
        return dom

    def dominates(self, a, b):
        d = self.dominators()
        return b in d and a in d[b]


def _contains(root, sub):
    if root is None:
        return False
    for n in ast.walk(root):
        if n is sub:
            return True
    return False


class _Ctx(object):
    """Construction context: where exceptions / jumps go."""

    def __init__(self, loop_head, brk, exc_targets, fin_entry, pending, parent=None, is_loop=False):
        self.loop_head = loop_head
        self.brk = brk
        self.exc_targets = exc_targets
        self.fin_entry = fin_entry
        self.pending = pending
        self.parent = parent
        self.is_loop = is_loop

    def loop(self, head, brk):
        return _Ctx(head, brk, self.exc_targets, None, None, self, True)

    def nested(self, exc_targets, fin_entry, pending):
        return _Ctx(self.loop_head, self.brk, [t for t in exc_targets if t is not None], fin_entry, pending, self, False)

    def loop_target(self, what):
        return self.loop_head

    def finallies_until(self, what):
        """Innermost enclosing finally (if any) before the jump target."""
        c = self
        while c is not None:
            if c.fin_entry is not None:
                return [(c.fin_entry, c.pending)]
            if c.is_loop and what in ("break", "continue"):
                return []
            c = c.parent
        return []
