"""A small priority-faithful backtracking interpreter for the regular-expression *constants* found
in the analysed source.  Only the parser of ``re`` is used (to obtain the syntax tree of the
constant); the program's regex engine is never invoked.  The interpreter follows Python's
matching semantics for the subset it supports (ordered alternation, greedy/lazy repeats with
backtracking, groups, back-references, word boundaries, fixed-width look-behind, look-ahead),
so "what would findall return on this line" can be decided for concrete reference words.
"""
try:
    import re._parser as sre_parse
    import re._constants as sre_c
except ImportError:  # pragma: no cover
    import sre_parse
    import sre_constants as sre_c

MAXREPEAT = sre_c.MAXREPEAT


class Unsupported(Exception):
    pass


def _is_word(ch):
    return ch.isalnum() or ch == "_"


def _category(cat, ch):
    name = str(cat)
    if name.endswith("CATEGORY_DIGIT"):
        return ch.isdigit()
    if name.endswith("CATEGORY_NOT_DIGIT"):
        return not ch.isdigit()
    if name.endswith("CATEGORY_WORD"):
        return _is_word(ch)
    if name.endswith("CATEGORY_NOT_WORD"):
        return not _is_word(ch)
    if name.endswith("CATEGORY_SPACE"):
        return ch.isspace()
    if name.endswith("CATEGORY_NOT_SPACE"):
        return not ch.isspace()
    raise Unsupported("category %s" % name)


class Regex(object):
    def __init__(self, pattern, ignorecase=False):
        self.pattern = pattern
        self.ic = ignorecase
        self.tree = sre_parse.parse(pattern)
        self.ngroups = self.tree.state.groups - 1
        self.ops = set()
        self.m = self._seq(list(self.tree))

    # ---- compilation to closures ---------------------------------------------------
    def _seq(self, items):
        ms = [self._node(op, av) for op, av in items]
        n = len(ms)

        def run(s, i, g, k, idx=0):
            if idx == n:
                return k(i, g)
            return ms[idx](s, i, g, lambda j, g2: run(s, j, g2, k, idx + 1))
        return run

    def _charset(self, items):
        neg = False
        tests = []
        for op, av in items:
            name = str(op)
            if name == "NEGATE":
                neg = True
            elif name == "LITERAL":
                tests.append(("lit", chr(av)))
            elif name == "RANGE":
                tests.append(("range", chr(av[0]), chr(av[1])))
            elif name == "CATEGORY":
                tests.append(("cat", av))
            else:
                raise Unsupported("set item %s" % name)
        ic = self.ic

        def member(ch):
            cands = (ch, ch.lower(), ch.upper()) if ic else (ch,)
            hit = False
            for c in cands:
                for t in tests:
                    if t[0] == "lit" and c == t[1]:
                        hit = True
                    elif t[0] == "range" and t[1] <= c <= t[2]:
                        hit = True
                    elif t[0] == "cat" and _category(t[1], c):
                        hit = True
            return hit != neg
        return member

    def _node(self, op, av):
        name = str(op)
        self.ops.add(name)
        ic = self.ic
        if name == "LITERAL":
            c = chr(av)

            def lit(s, i, g, k):
                if i < len(s) and (s[i] == c or (ic and s[i].lower() == c.lower())):
                    return k(i + 1, g)
                return None
            return lit
        if name == "NOT_LITERAL":
            c = chr(av)

            def nlit(s, i, g, k):
                if i < len(s) and not (s[i] == c or (ic and s[i].lower() == c.lower())):
                    return k(i + 1, g)
                return None
            return nlit
        if name == "ANY":
            def anyc(s, i, g, k):
                if i < len(s) and s[i] != "\n":
                    return k(i + 1, g)
                return None
            return anyc
        if name == "IN":
            member = self._charset(av)

            def inset(s, i, g, k):
                if i < len(s) and member(s[i]):
                    return k(i + 1, g)
                return None
            return inset
        if name == "BRANCH":
            alts = [self._seq(list(a)) for a in av[1]]

            def branch(s, i, g, k):
                for a in alts:
                    r = a(s, i, g, k)
                    if r is not None:
                        return r
                return None
            return branch
        if name == "SUBPATTERN":
            gid, add_flags, del_flags, p = av
            if add_flags or del_flags:
                raise Unsupported("inline flags")
            inner = self._seq(list(p))
            if gid is None:
                return inner

            def group(s, i, g, k):
                def after(j, g2):
                    g3 = dict(g2)
                    g3[gid] = (i, j)
                    return k(j, g3)
                return inner(s, i, g, after)
            return group
        if name in ("MAX_REPEAT", "MIN_REPEAT"):
            lo, hi, p = av
            inner = self._seq(list(p))
            greedy = name == "MAX_REPEAT"

            def rep(s, i, g, k, count=0):
                def more():
                    if hi != MAXREPEAT and count >= hi:
                        return None
                    return inner(s, i, g, lambda j, g2: rep(s, j, g2, k, count + 1) if (j > i or count < lo) else None)
                if greedy:
                    r = more()
                    if r is not None:
                        return r
                    if count >= lo:
                        return k(i, g)
                    return None
                if count >= lo:
                    r = k(i, g)
                    if r is not None:
                        return r
                return more()
            return rep
        if name == "AT":
            where = str(av)

            def at(s, i, g, k):
                if where.endswith("AT_BOUNDARY") or where.endswith("AT_NON_BOUNDARY"):
                    a = i > 0 and _is_word(s[i - 1])
                    b = i < len(s) and _is_word(s[i])
                    ok = (a != b)
                    if where.endswith("AT_NON_BOUNDARY"):
                        ok = not ok
                elif where.endswith("AT_BEGINNING") or where.endswith("AT_BEGINNING_STRING"):
                    ok = i == 0
                elif where.endswith("AT_END") or where.endswith("AT_END_STRING"):
                    ok = i == len(s) or (where.endswith("AT_END") and i == len(s) - 1 and s[i] == "\n")
                else:
                    raise Unsupported("anchor %s" % where)
                return k(i, g) if ok else None
            return at
        if name in ("ASSERT", "ASSERT_NOT"):
            direction, p = av
            inner = self._seq(list(p))
            positive = name == "ASSERT"
            if direction < 0:
                lo, hi = p.getwidth()
                if lo != hi:
                    raise Unsupported("variable-width look-behind")
                w = lo
            else:
                w = 0

            def look(s, i, g, k):
                if direction < 0:
                    if i - w < 0:
                        hit = False
                    else:
                        hit = inner(s, i - w, g, lambda j, g2: True if j == i else None) is not None
                else:
                    hit = inner(s, i, g, lambda j, g2: True) is not None
                return k(i, g) if hit == positive else None
            return look
        if name == "GROUPREF":
            gid = av

            def ref(s, i, g, k):
                if gid not in g:
                    return None
                a, b = g[gid]
                t = s[a:b]
                seg = s[i:i + len(t)]
                if seg == t or (ic and seg.lower() == t.lower()):
                    return k(i + len(t), g)
                return None
            return ref
        raise Unsupported("regex operator %s" % name)

    # ---- matching API -----------------------------------------------------------------
    def match_at(self, s, i):
        return self.m(s, i, {}, lambda j, g: (j, g))

    def search(self, s, start=0):
        for i in range(start, len(s) + 1):
            r = self.match_at(s, i)
            if r is not None:
                return (i, r[0], r[1])
        return None

    def fullmatch(self, s):
        return self.m(s, 0, {}, lambda j, g: (j, g) if j == len(s) else None) is not None

    def group_text(self, s, m, gid):
        if gid == 0:
            return s[m[0]:m[1]]
        if gid in m[2]:
            a, b = m[2][gid]
            return s[a:b]
        return None

    def findall(self, s):
        """List of tuples of group texts (like re.findall for patterns with several groups)."""
        out = []
        i = 0
        while i <= len(s):
            m = self.search(s, i)
            if m is None:
                break
            if self.ngroups == 0:
                out.append(s[m[0]:m[1]])
            elif self.ngroups == 1:
                out.append(self.group_text(s, m, 1) or "")
            else:
                out.append(tuple(self.group_text(s, m, k) or "" for k in range(1, self.ngroups + 1)))
            i = m[1] if m[1] > m[0] else m[1] + 1
        return out

    def sub_first_groups(self, s):
        """First match (start, end, {gid: text}) or None - enough to rebuild a substitution template."""
        m = self.search(s)
        if m is None:
            return None
        return m[0], m[1], dict((k, s[a:b]) for k, (a, b) in m[2].items())

    def sub(self, template_groups, s):
        """Emulate re.sub(pattern, template, s) for templates that are a sequence of group numbers / literal strings."""
        out = []
        i = 0
        while i <= len(s):
            m = self.search(s, i)
            if m is None:
                break
            out.append(s[i:m[0]])
            for part in template_groups:
                if isinstance(part, int):
                    out.append(self.group_text(s, m, part) or "")
                else:
                    out.append(part)
            if m[1] > m[0]:
                i = m[1]
            else:
                if m[0] < len(s):
                    out.append(s[m[0]])
                i = m[0] + 1
        out.append(s[i:] if i <= len(s) else "")
        return "".join(out)


def finite_language(pattern, limit=64):
    """Enumerate the language of a regex built only from literals, fixed repeats, groups and branches
    (anchors ignored).  Raises Unsupported otherwise."""
    tree = sre_parse.parse(pattern)

    def seq(items):
        words = [""]
        for op, av in items:
            nxt = node(op, av)
            words = [a + b for a in words for b in nxt]
            if len(words) > limit:
                raise Unsupported("language too large")
        return words

    def node(op, av):
        name = str(op)
        if name == "LITERAL":
            return [chr(av)]
        if name == "AT":
            return [""]
        if name == "SUBPATTERN":
            return seq(list(av[3]))
        if name == "BRANCH":
            out = []
            for a in av[1]:
                out.extend(seq(list(a)))
            return out
        if name == "MAX_REPEAT":
            lo, hi, p = av
            if lo != hi:
                raise Unsupported("variable repeat")
            base = seq(list(p))
            words = [""]
            for _ in range(lo):
                words = [a + b for a in words for b in base]
            return words
        raise Unsupported("operator %s in a finite-language pattern" % name)
    return sorted(set(seq(list(tree))))


def template_parts(template):
    r"""Split a replacement template such as r"\1\2********" into [1, 2, '********']."""
    parts = []
    i = 0
    buf = ""
    while i < len(template):
        ch = template[i]
        if ch == "\\" and i + 1 < len(template) and template[i + 1].isdigit():
            if buf:
                parts.append(buf)
                buf = ""
            parts.append(int(template[i + 1]))
            i += 2
        else:
            buf += ch
            i += 1
    if buf:
        parts.append(buf)
    return parts
