"""Liveness self-test: every rule must fire on a variant with one instance broken,
and stay silent on behaviour-preserving twins.

Variants are *in-memory overlays* of single files of the tree under analysis
(the source text of the function is edited, the module is re-parsed and the
property's rules are re-run on the overlaid program).  Nothing is written to
/repo, /verif or /tmp.  A mutant whose anchor text is not present in the
current tree (because the tree was edited) is skipped, never an alarm.
"""
import importlib
import os
import sys
from concurrent.futures import ProcessPoolExecutor

from .model import Repo
from .report import Check


HERE = os.path.dirname(os.path.dirname(os.path.abspath(__file__)))
SEEDED = os.path.join(HERE, "seeded")


def _load(pid):
    try:
        mod = importlib.import_module("sa.mutants.%s" % pid.lower())
        out = list(mod.MUTANTS)
    except ImportError:
        out = []
    # independently seeded changes (section 12 of DESIGN.md): every confirmed breaking seed of this property must be reported,
    # every behaviour-preserving twin must leave the property's check silent
    import glob as _glob
    for d in sorted(_glob.glob(os.path.join(SEEDED, "%s-[A-Z]" % pid.upper(), "patch.diff"))):
        x = os.path.basename(os.path.dirname(d))[-1]
        if os.path.isfile(d):
            ent = {"id": "seed-%s-%s" % (pid.upper(), x), "rule": None, "diff": d, "tier": _seed_tier(os.path.dirname(d)), "what": "independently seeded breaking change (seeded/%s-%s)" % (pid.upper(), x)}
            if _expected_undetected(os.path.dirname(d)):
                ent["kind"] = "gap"       # a confirmed breaking change that the structural rules do not decide (recorded, never counted as detected)
            out.append(ent)
    for k in range(1, 61):
        d = os.path.join(SEEDED, "twins", "%s-T%d.diff" % (pid.upper(), k))
        if os.path.isfile(d):
            out.append({"id": "twin-%s-T%d" % (pid.upper(), k), "kind": "twin", "diff": d, "what": "independently written behaviour-preserving edit (seeded/twins)"})
    # additions outside the anchor functions (a new parser, datasource, response type, provider, factory ...): what the sweeps must / must not report
    import glob
    for d in sorted(glob.glob(os.path.join(SEEDED, "sweeps", "%s-break-*.diff" % pid.upper()))):
        out.append({"id": "sweep-" + os.path.basename(d)[:-5], "rule": None, "diff": d, "what": "breaking addition outside the anchor functions (seeded/sweeps)"})
    for d in sorted(glob.glob(os.path.join(SEEDED, "sweeps", "%s-twin-*.diff" % pid.upper()))):
        out.append({"id": "sweep-" + os.path.basename(d)[:-5], "kind": "twin", "diff": d, "what": "benign addition outside the anchor functions (seeded/sweeps)"})
    return out


def _expected_undetected(d):
    try:
        import json
        return bool(json.load(open(os.path.join(d, "meta.json"))).get("expected_undetected"))
    except (OSError, ValueError):
        return False


def _seed_tier(d):
    try:
        import json
        return json.load(open(os.path.join(d, "meta.json"))).get("checks", {}).get("tier_needed", "quick")
    except (OSError, ValueError):
        return "quick"


def apply_diff(root, path):
    """Apply a unified diff to the files of ``root`` in memory.  Returns {rel: new text} or None when it does not apply exactly."""
    try:
        with open(path, encoding="utf-8", errors="replace") as fh:
            lines = fh.read().split("\n")
    except OSError:
        return None
    overlay = {}
    i = 0
    cur, src, out, pos = None, None, None, 0

    def flush():
        if cur is not None:
            out.extend(src[pos:])
            overlay[cur] = "\n".join(out)
    while i < len(lines):
        ln = lines[i]
        if ln.startswith("--- "):
            flush()
            cur = None
            old = ln[4:].split("\t")[0].strip()
            new = lines[i + 1][4:].split("\t")[0].strip() if i + 1 < len(lines) and lines[i + 1].startswith("+++ ") else None
            if new is None or old == "/dev/null" or new == "/dev/null":
                return None
            rel = new[2:] if new.startswith("b/") else new
            try:
                with open(os.path.join(root, rel), "rb") as fh:
                    src = fh.read().decode("utf-8", "replace").split("\n")
            except OSError:
                return None
            cur, out, pos = rel, [], 0
            i += 2
            continue
        if ln.startswith("@@") and cur is not None:
            try:
                a = ln.split(" ")[1]
                start = int(a[1:].split(",")[0])
            except (IndexError, ValueError):
                return None
            start = max(start - 1, 0)
            if start < pos:
                return None
            out.extend(src[pos:start])
            pos = start
            i += 1
            while i < len(lines) and not lines[i].startswith("@@") and not lines[i].startswith("--- ") and not lines[i].startswith("diff "):
                h = lines[i]
                if h.startswith("\\"):
                    i += 1
                    continue
                if h == "" and i == len(lines) - 1:
                    break
                tag, txt = (h[0], h[1:]) if h else (" ", "")
                if tag == " ":
                    if pos >= len(src) or src[pos] != txt:
                        return None
                    out.append(txt)
                    pos += 1
                elif tag == "-":
                    if pos >= len(src) or src[pos] != txt:
                        return None
                    pos += 1
                elif tag == "+":
                    out.append(txt)
                else:
                    break
                i += 1
            continue
        i += 1
    flush()
    return overlay or None


def apply_mutant(root, mu):
    """Return overlay dict or None when the anchor text is absent/ambiguous."""
    if mu.get("diff"):
        return apply_diff(root, mu["diff"])
    overlay = {}
    edits = mu.get("edits") or [mu]
    for e in edits:
        rel = e["file"]
        path = os.path.join(root, rel)
        if rel in overlay:
            src = overlay[rel]
        else:
            try:
                with open(path, "rb") as fh:
                    src = fh.read().decode("utf-8", "replace")
            except OSError:
                return None
        old, new = e["old"], e["new"]
        cnt = src.count(old)
        want = e.get("count", 1)
        if cnt != want:
            return None
        overlay[rel] = src.replace(old, new)
    return overlay


def _run_one(args):
    pid, root, tier, mu = args
    overlay = apply_mutant(root, mu)
    if overlay is None:
        return (mu["id"], "skipped", [], [])
    repo = Repo(root, overlay=overlay)
    cx = Check(pid, tier, repo, quiet=True)
    try:
        mod = importlib.import_module("sa.rules.%s" % pid.lower())
        mod.run(cx)
    except Exception as e:  # pragma: no cover
        cx.error("internal error %r" % (e,), "engine")
    code = cx.finish(write_evidence=False)
    rules = sorted(set(v.rule for v in cx.new_violations))
    known = sorted(set(v.key for v in cx.known_hits))
    errs = ["%s: %s" % e for e in cx.errors]
    return (mu["id"], code, rules, errs, known)


def run_mutants(pid, root, mutants, jobs=None):
    jobs = jobs or min(16, os.cpu_count() or 4)
    work = [(pid, root, mu.get("tier", "quick"), mu) for mu in mutants]
    if not work:
        return []
    if jobs == 1 or len(work) == 1:
        return [_run_one(w) for w in work]
    with ProcessPoolExecutor(max_workers=jobs) as ex:
        return list(ex.map(_run_one, work))


def evaluate(pid, root, base_known=()):
    mutants = _load(pid)
    res = run_mutants(pid, root, mutants)
    summary = {"mutants": 0, "detected": 0, "twins": 0, "twins_silent": 0, "skipped": 0, "missed": [], "noisy_twins": [], "known_gaps": [], "details": []}
    for mu, r in zip(mutants, res):
        mid, code, rules, errs = r[0], r[1], r[2], r[3]
        kind = mu.get("kind", "break")
        if code == "skipped":
            summary["skipped"] += 1
            summary["details"].append({"id": mid, "kind": kind, "result": "skipped (anchor text not present in this tree)"})
            continue
        if kind == "gap":
            summary["known_gaps"].append({"id": mid, "exit": code, "fired": rules, "what": mu.get("what", "")})
            summary["details"].append({"id": mid, "kind": kind, "exit": code, "fired": rules, "what": mu.get("what", "")})
            continue
        if kind == "break":
            summary["mutants"] += 1
            want = mu.get("rule")
            accept_err = mu.get("accept_error", False)
            hit = (code == 1 and (want is None or want in rules)) or (accept_err and code == 2)
            if hit:
                summary["detected"] += 1
            else:
                summary["missed"].append({"id": mid, "expected_rule": want, "exit": code, "fired": rules, "errors": errs[:3]})
            summary["details"].append({"id": mid, "kind": kind, "expected_rule": want, "exit": code, "fired": rules, "what": mu.get("what", "")})
        else:
            summary["twins"] += 1
            if code == 0:
                summary["twins_silent"] += 1
            else:
                summary["noisy_twins"].append({"id": mid, "exit": code, "fired": rules, "errors": errs[:3]})
            summary["details"].append({"id": mid, "kind": kind, "exit": code, "fired": rules, "what": mu.get("what", "")})
    return summary


def run_for_property(cx):
    """Called from the thorough tier: record the self-test in the evidence."""
    # only meaningful when the base tree is clean for this property
    summary = evaluate(cx.pid, cx.repo.root)
    cx.extra["selftest"] = summary
    strict = os.environ.get("VERIF_SELFTEST_STRICT") == "1"
    if strict and not cx.violations:
        for m in summary["missed"]:
            cx.error("self-test mutant %s not detected (expected %s, exit %s, fired %s)" % (m["id"], m["expected_rule"], m["exit"], m["fired"]), "selftest")
        for m in summary["noisy_twins"]:
            cx.error("behaviour-preserving twin %s raised an alarm (exit %s, fired %s, errors %s)" % (m["id"], m["exit"], m["fired"], m["errors"]), "selftest")


if __name__ == "__main__":
    import json
    sys.path.insert(0, os.path.dirname(os.path.dirname(os.path.abspath(__file__))))
    pids = sys.argv[1:] or ["C%02d" % i for i in range(1, 21)]
    rc = 0
    for pid in pids:
        s = evaluate(pid.upper(), os.environ.get("VERIF_ROOT", "/repo"))
        print("%s: %d/%d mutants detected, %d/%d twins silent, %d skipped%s" % (pid, s["detected"], s["mutants"], s["twins_silent"], s["twins"], s["skipped"],
                                                                                   ", %d known gap(s): %s" % (len(s["known_gaps"]), [g["id"] for g in s["known_gaps"]]) if s["known_gaps"] else ""))
        for m in s["missed"]:
            print("   MISSED", json.dumps(m))
            rc = 2
        for m in s["noisy_twins"]:
            print("   NOISY-TWIN", json.dumps(m))
            rc = 2
    sys.exit(rc)
