"""Liveness self-test: every rule must fire on a variant with one instance broken,
and stay silent on behaviour-preserving twins.

Variants are *in-memory overlays* of single files of the tree under analysis
(the source text of the function is edited, the module is re-parsed and the
property's rules are re-run on the overlaid program).  Nothing is written to
/repo, /verif or /tmp.  A mutant whose anchor text is not present in the
current tree (because the tree was edited) is skipped, never an alarm.
"""
import importlib
import os
import sys
from concurrent.futures import ProcessPoolExecutor

from .model import Repo
from .report import Check


def _load(pid):
    try:
        mod = importlib.import_module("sa.mutants.%s" % pid.lower())
    except ImportError:
        return []
    return list(mod.MUTANTS)


def apply_mutant(root, mu):
    """Return overlay dict or None when the anchor text is absent/ambiguous."""
    overlay = {}
    edits = mu.get("edits") or [mu]
    for e in edits:
        rel = e["file"]
        path = os.path.join(root, rel)
        if rel in overlay:
            src = overlay[rel]
        else:
            try:
                with open(path, "rb") as fh:
                    src = fh.read().decode("utf-8", "replace")
            except OSError:
                return None
        old, new = e["old"], e["new"]
        cnt = src.count(old)
        want = e.get("count", 1)
        if cnt != want:
            return None
        overlay[rel] = src.replace(old, new)
    return overlay


def _run_one(args):
    pid, root, tier, mu = args
    overlay = apply_mutant(root, mu)
    if overlay is None:
        return (mu["id"], "skipped", [], [])
    repo = Repo(root, overlay=overlay)
    cx = Check(pid, tier, repo, quiet=True)
    try:
        mod = importlib.import_module("sa.rules.%s" % pid.lower())
        mod.run(cx)
    except Exception as e:  # pragma: no cover
        cx.error("internal error %r" % (e,), "engine")
    code = cx.finish(write_evidence=False)
    rules = sorted(set(v.rule for v in cx.new_violations))
    known = sorted(set(v.key for v in cx.known_hits))
    errs = ["%s: %s" % e for e in cx.errors]
    return (mu["id"], code, rules, errs, known)


def run_mutants(pid, root, mutants, jobs=None):
    jobs = jobs or min(16, os.cpu_count() or 4)
    work = [(pid, root, mu.get("tier", "quick"), mu) for mu in mutants]
    if not work:
        return []
    if jobs == 1 or len(work) == 1:
        return [_run_one(w) for w in work]
    with ProcessPoolExecutor(max_workers=jobs) as ex:
        return list(ex.map(_run_one, work))


def evaluate(pid, root, base_known=()):
    mutants = _load(pid)
    res = run_mutants(pid, root, mutants)
    summary = {"mutants": 0, "detected": 0, "twins": 0, "twins_silent": 0, "skipped": 0, "missed": [], "noisy_twins": [], "details": []}
    for mu, r in zip(mutants, res):
        mid, code, rules, errs = r[0], r[1], r[2], r[3]
        kind = mu.get("kind", "break")
        if code == "skipped":
            summary["skipped"] += 1
            summary["details"].append({"id": mid, "kind": kind, "result": "skipped (anchor text not present in this tree)"})
            continue
        if kind == "break":
            summary["mutants"] += 1
            want = mu.get("rule")
            accept_err = mu.get("accept_error", False)
            hit = (code == 1 and (want is None or want in rules)) or (accept_err and code == 2)
            if hit:
                summary["detected"] += 1
            else:
                summary["missed"].append({"id": mid, "expected_rule": want, "exit": code, "fired": rules, "errors": errs[:3]})
            summary["details"].append({"id": mid, "kind": kind, "expected_rule": want, "exit": code, "fired": rules, "what": mu.get("what", "")})
        else:
            summary["twins"] += 1
            if code == 0:
                summary["twins_silent"] += 1
            else:
                summary["noisy_twins"].append({"id": mid, "exit": code, "fired": rules, "errors": errs[:3]})
            summary["details"].append({"id": mid, "kind": kind, "exit": code, "fired": rules, "what": mu.get("what", "")})
    return summary


def run_for_property(cx):
    """Called from the thorough tier: record the self-test in the evidence."""
    # only meaningful when the base tree is clean for this property
    summary = evaluate(cx.pid, cx.repo.root)
    cx.extra["selftest"] = summary
    strict = os.environ.get("VERIF_SELFTEST_STRICT") == "1"
    if strict and not cx.violations:
        for m in summary["missed"]:
            cx.error("self-test mutant %s not detected (expected %s, exit %s, fired %s)" % (m["id"], m["expected_rule"], m["exit"], m["fired"]), "selftest")
        for m in summary["noisy_twins"]:
            cx.error("behaviour-preserving twin %s raised an alarm (exit %s, fired %s, errors %s)" % (m["id"], m["exit"], m["fired"], m["errors"]), "selftest")


if __name__ == "__main__":
    import json
    sys.path.insert(0, os.path.dirname(os.path.dirname(os.path.abspath(__file__))))
    pids = sys.argv[1:] or ["C%02d" % i for i in range(1, 21)]
    rc = 0
    for pid in pids:
        s = evaluate(pid.upper(), os.environ.get("VERIF_ROOT", "/repo"))
        print("%s: %d/%d mutants detected, %d/%d twins silent, %d skipped" % (pid, s["detected"], s["mutants"], s["twins_silent"], s["twins"], s["skipped"]))
        for m in s["missed"]:
            print("   MISSED", json.dumps(m))
            rc = 2
        for m in s["noisy_twins"]:
            print("   NOISY-TWIN", json.dumps(m))
            rc = 2
    sys.exit(rc)
