"""Path-sensitive abstract interpretation over the truthiness lattice {T, F, U}.

Used for C16: the composition ``_imply_options ; _validate_options`` of the client
configuration is interpreted for *all* values of the unassumed options at once.

* a state maps attribute names of ``self`` (and locals) to T / F / U(nknown) and
  records the polarity chosen for every opaque test (``atoms``);
* an ``if`` whose test is U splits the state and refines the attributes named in
  the test on each side; contradictory refinements prune the path;
* ``raise`` ends a path as *rejected*; falling off the last function ends it as
  *completed*;
* loops are over-approximated (zero iterations, or one iteration after which
  everything assigned in the body is U; ``return``/``raise`` inside may fire);
* unknown statement kinds raise ``Unsupported`` (analysis error, never a verdict).
"""
import ast

from .model import FUNC_TYPES, U as UNPARSE, call_name, walk_body, short

T, F, UNK = "T", "F", "U"


class Unsupported(Exception):
    pass


def neg(v):
    return {T: F, F: T, UNK: UNK}[v]


def k_and(a, b):
    if a == F or b == F:
        return F
    if a == T and b == T:
        return T
    return UNK


def k_or(a, b):
    if a == T or b == T:
        return T
    if a == F and b == F:
        return F
    return UNK


TRUTH_PRESERVING_CALLS = ("os.path.abspath", "os.path.realpath", "os.path.normpath", "os.path.expanduser", "str")


class State(object):
    __slots__ = ("attrs", "atoms", "trace", "status", "locals")

    def __init__(self, attrs=None, atoms=None, trace=None, locals_=None):
        self.attrs = dict(attrs or {})
        self.atoms = dict(atoms or {})
        self.trace = list(trace or [])
        self.locals = dict(locals_ or {})
        self.status = "running"

    def copy(self):
        s = State(self.attrs, self.atoms, self.trace, self.locals)
        s.status = self.status
        return s

    def key(self):
        return (self.status, tuple(sorted(self.attrs.items())), tuple(sorted(self.atoms.items())), tuple(sorted(self.locals.items())))


class _ConstAttr(ast.NodeTransformer):
    """getattr(<name>, '<const>') -> <name>.<const> ;  statement setattr(<name>, '<const>', v) -> <name>.<const> = v"""

    def visit_Call(self, node):
        self.generic_visit(node)
        if isinstance(node.func, ast.Name) and node.func.id == "getattr" and len(node.args) == 2 and isinstance(node.args[0], ast.Name) \
                and isinstance(node.args[1], ast.Constant) and isinstance(node.args[1].value, str) and node.args[1].value.isidentifier():
            return ast.copy_location(ast.Attribute(value=node.args[0], attr=node.args[1].value, ctx=ast.Load()), node)
        return node

    def visit_Expr(self, node):
        self.generic_visit(node)
        c = node.value
        if isinstance(c, ast.Call) and isinstance(c.func, ast.Name) and c.func.id == "setattr" and len(c.args) == 3 and not c.keywords and isinstance(c.args[0], ast.Name) \
                and isinstance(c.args[1], ast.Constant) and isinstance(c.args[1].value, str) and c.args[1].value.isidentifier():
            tgt = ast.Attribute(value=c.args[0], attr=c.args[1].value, ctx=ast.Store())
            return ast.copy_location(ast.Assign(targets=[ast.copy_location(tgt, c)], value=c.args[2]), node)
        return node


class _GetattrSelf(ast.NodeTransformer):
    """getattr(self, '<const>'[, <falsy default>]) -> self.<const>"""

    def visit_Call(self, node):
        self.generic_visit(node)
        if isinstance(node.func, ast.Name) and node.func.id == "getattr" and len(node.args) in (2, 3) and isinstance(node.args[0], ast.Name) and node.args[0].id == "self" \
                and isinstance(node.args[1], ast.Constant) and isinstance(node.args[1].value, str) and node.args[1].value.isidentifier():
            if len(node.args) == 3 and not (isinstance(node.args[2], ast.Constant) and not node.args[2].value):
                return node
            return ast.copy_location(ast.Attribute(value=node.args[0], attr=node.args[1].value, ctx=ast.Load()), node)
        return node


def _local_const_dict(name, host):
    """[(key Constant, value expr)] of a local bound exactly once to a dict display with constant string keys and call-free values,
    never modified or rebound afterwards; else None."""
    stores = [x for x in ast.walk(host) if isinstance(x, ast.Name) and x.id == name and isinstance(x.ctx, (ast.Store, ast.Del))]
    if len(stores) != 1:
        return None
    defs = [a for a in ast.walk(host) if isinstance(a, ast.Assign) and len(a.targets) == 1 and a.targets[0] is stores[0]]
    if not defs or not isinstance(defs[0].value, ast.Dict):
        return None
    v = defs[0].value
    if len(v.keys) > 64 or any(k is None or not (isinstance(k, ast.Constant) and isinstance(k.value, str)) for k in v.keys):
        return None
    if any(isinstance(x, (ast.Call, ast.Yield, ast.YieldFrom, ast.Await, ast.NamedExpr, ast.Lambda)) for e in v.values for x in ast.walk(e)):
        return None
    for x in ast.walk(host):
        if isinstance(x, ast.Subscript) and isinstance(x.ctx, (ast.Store, ast.Del)) and isinstance(x.value, ast.Name) and x.value.id == name:
            return None
        if isinstance(x, ast.Call) and isinstance(x.func, ast.Attribute) and isinstance(x.func.value, ast.Name) and x.func.value.id == name \
                and x.func.attr in ("update", "pop", "setdefault", "clear", "popitem", "__setitem__", "__delitem__"):
            return None
    # the names the values read must not be rebound between the display and the end of the function (values are substituted at the use)
    read = set(x.id for e in v.values for x in ast.walk(e) if isinstance(x, ast.Name))
    for x in ast.walk(host):
        if isinstance(x, ast.Name) and isinstance(x.ctx, (ast.Store, ast.Del)) and x.id in read and getattr(x, "lineno", 0) >= defs[0].lineno:
            return None
    return list(zip(v.keys, v.values))


def _literal_table(it, host, consts=None):
    """The literal table a ``for`` iterates (inline, a local bound exactly once to a literal, or a module-level constant), or None.
    ``D.items()`` / ``D`` / ``D.keys()`` of a local dict display with constant keys that is bound once and never modified gives rows
    [key, value expression] / key (value expressions without calls only: substituting them is behaviour-preserving for the view)."""
    if isinstance(it, ast.Call) and isinstance(it.func, ast.Attribute) and it.func.attr in ("items", "keys") and not it.args and isinstance(it.func.value, ast.Name):
        d = _local_const_dict(it.func.value.id, host)
        if d is None:
            return None
        if it.func.attr == "keys":
            return [k for k, _ in d]
        return [[k, v] for k, v in d]
    if isinstance(it, ast.Name):
        d = _local_const_dict(it.id, host)
        if d is not None:
            return [k for k, _ in d]
    if isinstance(it, ast.Name):
        stores = [x for x in ast.walk(host) if isinstance(x, ast.Name) and x.id == it.id and isinstance(x.ctx, (ast.Store, ast.Del))]
        if not stores and consts is not None and consts.get(it.id) is not None:
            it = consts.get(it.id)
        else:
            if len(stores) != 1:
                return None
            defs = [a for a in ast.walk(host) if isinstance(a, ast.Assign) and len(a.targets) == 1 and a.targets[0] is stores[0]]
            if not defs:
                return None
            it = defs[0].value
    if not isinstance(it, (ast.Tuple, ast.List)):
        return None

    def leaf(e):
        return isinstance(e, ast.Constant) or (isinstance(e, ast.Name) and e.id in ("int", "float", "str", "bool"))
    table = []
    for row in it.elts:
        if leaf(row):
            table.append(row)
        elif isinstance(row, (ast.Tuple, ast.List)) and all(leaf(e) for e in row.elts):
            table.append(list(row.elts))
        else:
            return None
    return table if len(table) <= 64 else None


def _guard_continue_normal_form(body):
    """[..., if c: continue, rest...] -> [..., if not c: rest...] (same behaviour inside a loop body)."""
    for i, st in enumerate(body):
        if isinstance(st, ast.If) and len(st.body) == 1 and isinstance(st.body[0], ast.Continue) and not st.orelse:
            rest = _guard_continue_normal_form(body[i + 1:])
            if not rest:
                return body[:i]
            new = ast.If(test=ast.UnaryOp(op=ast.Not(), operand=st.test), body=rest, orelse=[])
            ast.copy_location(new, st)
            return body[:i] + [new]
    return body


def desugar_quantifiers(fn):
    """View transformation: any((a, b, c)) / any([a, b, c]) over a literal display used as a *condition* is  a or b or c ; all(...) is  a and b and c
    (same truth value; only conditions are rewritten, where nothing but the truth value is observed).  max(x, <positive literal>) used as an assigned
    value is left alone."""
    n = 0
    for node in list(ast.walk(fn)):
        tests = []
        if isinstance(node, (ast.If, ast.While, ast.IfExp, ast.Assert)):
            tests.append((node, "test"))
        if isinstance(node, ast.UnaryOp) and isinstance(node.op, ast.Not):
            tests.append((node, "operand"))
        for holder, fld in tests:
            e = getattr(holder, fld)
            if isinstance(e, ast.Call) and isinstance(e.func, ast.Name) and e.func.id in ("any", "all") and len(e.args) == 1 and not e.keywords \
                    and isinstance(e.args[0], (ast.Tuple, ast.List)) and len(e.args[0].elts) >= 2 and not any(isinstance(x, ast.Starred) for x in e.args[0].elts):
                b = ast.BoolOp(op=ast.Or() if e.func.id == "any" else ast.And(), values=list(e.args[0].elts))
                ast.copy_location(b, e)
                setattr(holder, fld, b)
                n += 1
        if isinstance(node, ast.BoolOp):
            for i, e in enumerate(node.values):
                if isinstance(e, ast.Call) and isinstance(e.func, ast.Name) and e.func.id in ("any", "all") and len(e.args) == 1 and not e.keywords \
                        and isinstance(e.args[0], (ast.Tuple, ast.List)) and len(e.args[0].elts) >= 2:
                    holder_is_cond = True
                    b = ast.BoolOp(op=ast.Or() if e.func.id == "any" else ast.And(), values=list(e.args[0].elts))
                    ast.copy_location(b, e)
                    node.values[i] = b
                    n += 1
    if n:
        from .model import set_parents
        ast.fix_missing_locations(fn)
        set_parents(fn)
    return n


def unroll_literal_loops(fn, consts=None):
    """View transformation: a ``for`` over a literal table of constants whose body has no break/continue (after the
    guard-continue normal form) is replaced by one copy of the body per element, loop variables substituted and
    getattr(self, '<name>') read as self.<name>.  Returns the number of loops unrolled."""
    from .normal import _clone_stmts, _Subst
    from .model import set_parents
    count = 0
    changed = True
    while changed:
        changed = False
        for holder in ast.walk(fn):
            for field in ("body", "orelse", "finalbody"):
                lst = getattr(holder, field, None)
                if not isinstance(lst, list):
                    continue
                for i, node in enumerate(lst):
                    if not isinstance(node, ast.For) or node.orelse:
                        continue
                    table = _literal_table(node.iter, fn, consts)
                    if table is None:
                        continue
                    body = _guard_continue_normal_form(list(node.body))
                    if any(isinstance(x, (ast.Break, ast.Continue)) for st in body for x in ast.walk(st)):
                        continue
                    tg = node.target
                    out, ok = [], True
                    for row in table:
                        if isinstance(tg, ast.Name) and not isinstance(row, list):
                            mapping = {tg.id: row}
                        elif isinstance(tg, (ast.Tuple, ast.List)) and isinstance(row, list) and len(row) == len(tg.elts) and all(isinstance(e, ast.Name) for e in tg.elts):
                            mapping = dict((e.id, v) for e, v in zip(tg.elts, row))
                        else:
                            ok = False
                            break
                        if any(isinstance(x, ast.Name) and isinstance(x.ctx, ast.Store) and x.id in mapping for st in body for x in ast.walk(st)):
                            ok = False
                            break
                        mod = ast.Module(body=_clone_stmts(body), type_ignores=[])
                        _Subst(mapping).visit(mod)
                        _GetattrSelf().visit(mod)
                        _ConstAttr().visit(mod)
                        for st1 in mod.body:
                            for x in ast.walk(st1):
                                if hasattr(x, "lineno"):
                                    x.lineno = node.lineno
                                    x.end_lineno = node.lineno
                        out.extend(mod.body)
                    if not ok:
                        continue
                    lst[i:i + 1] = out or [ast.copy_location(ast.Pass(), node)]
                    ast.fix_missing_locations(fn)
                    count += 1
                    changed = True
                    break
                if changed:
                    break
            if changed:
                break
    if count:
        set_parents(fn)
    return count


class Interp(object):
    def __init__(self, cls_node, max_states=60000, inline_depth=3, relevant=None):
        self.cls = cls_node
        self.relevant = relevant      # None = track everything; else only these attributes of self
        self.methods = dict((st.name, st) for st in cls_node.body if isinstance(st, FUNC_TYPES))
        self.max_states = max_states
        self.inline_depth = inline_depth
        self.peak = 0
        self.steps = 0
        self._ucache = {}
        self._acache = {}
        self._rcache = {}
        self._unroll = {}
        self._keep = []

    # ---- expressions ------------------------------------------------------
    def ev(self, e, st):
        if isinstance(e, ast.Constant):
            return T if e.value else F
        if isinstance(e, ast.Attribute) and isinstance(e.value, ast.Name) and e.value.id == "self":
            return st.attrs.get(e.attr, UNK)
        if isinstance(e, ast.Name):
            if e.id in ("True",):
                return T
            if e.id in ("False", "None"):
                return F
            return st.locals.get(e.id, UNK)
        if isinstance(e, ast.UnaryOp) and isinstance(e.op, ast.Not):
            return neg(self.ev(e.operand, st))
        if isinstance(e, ast.BoolOp):
            vals = [self.ev(v, st) for v in e.values]
            r = vals[0]
            for v in vals[1:]:
                r = k_and(r, v) if isinstance(e.op, ast.And) else k_or(r, v)
            return r
        if isinstance(e, ast.IfExp):
            t = self.ev(e.test, st)
            if t == T:
                return self.ev(e.body, st)
            if t == F:
                return self.ev(e.orelse, st)
            a, b = self.ev(e.body, st), self.ev(e.orelse, st)
            return a if a == b else UNK
        if isinstance(e, ast.Call):
            n = call_name(e)
            if n in TRUTH_PRESERVING_CALLS and len(e.args) == 1:
                return self.ev(e.args[0], st)
            return self.atom_value(e, st)
        if isinstance(e, ast.BinOp) and isinstance(e.op, ast.Add):
            l, r = self.ev(e.left, st), self.ev(e.right, st)
            return T if T in (l, r) else UNK
        if isinstance(e, ast.Compare) and len(e.ops) == 1:
            l = self.ev(e.left, st)
            r = e.comparators[0]
            op = e.ops[0]
            # X == '' / X is False / X is None with X truthy -> False
            if isinstance(r, ast.Constant) and not r.value and isinstance(op, (ast.Eq, ast.Is)):
                if l == T:
                    return F
            if isinstance(r, ast.Constant) and not r.value and isinstance(op, (ast.NotEq, ast.IsNot)):
                if l == T:
                    return T
            return self.atom_value(e, st)
        if isinstance(e, (ast.List, ast.Tuple, ast.Set)):
            return T if e.elts else F
        if isinstance(e, ast.Dict):
            return T if e.keys else F
        return self.atom_value(e, st)

    def atom_value(self, e, st):
        # an opaque test mentioning self attributes is only reusable while those attributes are unchanged;
        # we key the atom by its text plus the current abstract values of the attributes it reads
        k = self.atom_key(e, st)
        if k in st.atoms:
            return T if st.atoms[k] else F
        return UNK

    def attrs_of(self, e):
        k = id(e)
        c = self._acache.get(k)
        if c is None:
            c = self._acache[k] = set(n.attr for n in ast.walk(e) if isinstance(n, ast.Attribute) and isinstance(n.value, ast.Name) and n.value.id == "self")
        return c

    def atom_key(self, e, st):
        k = id(e)
        c = self._ucache.get(k)
        if c is None:
            c = self._ucache[k] = UNPARSE(e)
        return c

    # ---- refinement -------------------------------------------------------
    def refine(self, e, pol, st):
        """Return list of states in which ``e`` has truthiness ``pol``."""
        v = self.ev(e, st)
        if v != UNK:
            return [st] if (v == T) == pol else []
        if isinstance(e, ast.UnaryOp) and isinstance(e.op, ast.Not):
            return self.refine(e.operand, not pol, st)
        if isinstance(e, ast.Attribute) and isinstance(e.value, ast.Name) and e.value.id == "self":
            if self.relevant is not None and e.attr not in self.relevant:
                return [st]     # outside the cone of influence: both branches continue with the same abstract state
            s = st.copy()
            s.attrs[e.attr] = T if pol else F
            s.trace.append("%s=%s" % (e.attr, "truthy" if pol else "falsy"))
            return [s]
        if isinstance(e, ast.Name):
            if self.relevant is not None:
                return [st]
            s = st.copy()
            s.locals[e.id] = T if pol else F
            return [s]
        if isinstance(e, ast.BoolOp):
            conj = isinstance(e.op, ast.And)
            if conj == pol:
                # all conjuncts true / all disjuncts false
                states = [st]
                for v in e.values:
                    nxt = []
                    for s in states:
                        nxt.extend(self.refine(v, pol, s))
                    states = nxt
                return states
            # some conjunct false / some disjunct true: first k-1 have the "continue" polarity, k-th decides
            out = []
            prefix = [st]
            for v in e.values:
                for s in prefix:
                    out.extend(self.refine(v, pol, s))
                nxt = []
                for s in prefix:
                    nxt.extend(self.refine(v, not pol, s))
                prefix = nxt
            return out
        if isinstance(e, ast.Call) and call_name(e) in TRUTH_PRESERVING_CALLS and len(e.args) == 1:
            return self.refine(e.args[0], pol, st)
        if isinstance(e, ast.Compare) and len(e.ops) == 1 and isinstance(e.comparators[0], ast.Constant) and not e.comparators[0].value \
                and isinstance(e.ops[0], (ast.Eq, ast.Is)) and pol:
            # X == '' true  =>  X falsy
            out = []
            for s in self.refine(e.left, False, st):
                s2 = s.copy()
                s2.atoms[self.atom_key(e, s2)] = True
                out.append(s2)
            return out
        if self.relevant is not None and not (self.attrs_of(e) & self.relevant):
            return [st]
        s = st.copy()
        k = self.atom_key(e, s)
        if k in s.atoms and s.atoms[k] != pol:
            return []
        s.atoms[k] = pol
        s.trace.append("%s is %s" % (k[:70], pol))
        return [s]

    # ---- statements -------------------------------------------------------
    def reads_of(self, node, _seen=None):
        """Attributes of self read (or opaque-tested) inside ``node``, following calls to own methods."""
        k = id(node)
        if k in self._rcache:
            return self._rcache[k]
        seen = _seen or set()
        out = set()
        for n in ast.walk(node):
            if isinstance(n, ast.Attribute) and isinstance(n.value, ast.Name) and n.value.id == "self":
                if isinstance(n.ctx, ast.Load):
                    out.add(n.attr)
                    if n.attr in self.methods and n.attr not in seen:
                        seen.add(n.attr)
                        out |= self.reads_of(self.methods[n.attr], seen)
        self._rcache[k] = out
        return out

    def prune(self, states, live):
        if live is None:
            return states
        out = []
        for s in states:
            dead = [a for a in s.attrs if a not in live]
            dead_atoms = [k for k in s.atoms if not any(("self.%s" % a) in k for a in live)]
            if dead or dead_atoms or s.locals:
                s = s.copy()
                for a in dead:
                    del s.attrs[a]
                for k in dead_atoms:
                    del s.atoms[k]
            out.append(s)
        return out

    def run_method(self, name, states, depth=0, live_after=None):
        if name not in self.methods:
            raise Unsupported("method %s not found" % name)
        fn = self.methods[name]
        out = self.block(fn.body, states, depth, live_after)
        res = []
        for s in out:
            if s.status == "returned":
                s = s.copy()
                s.status = "running"
            res.append(s)
        return self.dedup(res)

    def dedup(self, states):
        seen = {}
        for s in states:
            k = s.key()
            if k not in seen:
                seen[k] = s
        out = list(seen.values())
        self.peak = max(self.peak, len(out))
        if len(out) > self.max_states:
            raise Unsupported("state explosion: %d states" % len(out))
        return out

    def block(self, stmts, states, depth, live_after=None):
        cur = states
        # live sets: attributes read by the remaining statements of this block, plus what is live after it
        lives = [None] * len(stmts)
        if live_after is not None:
            acc = set(live_after)
            for i in range(len(stmts) - 1, -1, -1):
                lives[i] = set(acc)
                acc |= self.reads_of(stmts[i])
        for i, st in enumerate(stmts):
            running = [s for s in cur if s.status == "running"]
            done = [s for s in cur if s.status != "running"]
            if not running:
                return cur
            nxt = self.stmt(st, running, depth, lives[i])
            nxt = [s if s.status != "running" else s for s in nxt]
            run2 = self.prune([s for s in nxt if s.status == "running"], lives[i])
            cur = self.dedup(done + [s for s in nxt if s.status != "running"] + run2)
        return cur

    def unrolled(self, node):
        """A ``for`` over a literal table of constants (inline, or a local bound once to such a literal) as a list of bodies,
        one per element, with the loop variables replaced by the constants and getattr(self, '<name>') read as self.<name>."""
        k = id(node)
        if k in self._unroll:
            return self._unroll[k]
        self._unroll[k] = None
        it = node.iter
        if isinstance(it, ast.Name):
            host = None
            for m in self.methods.values():
                if any(n is node for n in ast.walk(m)):
                    host = m
            if host is None:
                return None
            defs = [a for a in ast.walk(host) if isinstance(a, (ast.Assign, ast.AugAssign, ast.For, ast.comprehension, ast.With))
                    and any(isinstance(x, ast.Name) and x.id == it.id and isinstance(x.ctx, ast.Store) for x in ast.walk(a) if not isinstance(a, ast.For) or x is a.target or any(x is y for y in ast.walk(a.target)))]
            defs = [a for a in defs if not (isinstance(a, ast.For) and not any(isinstance(x, ast.Name) and x.id == it.id for x in ast.walk(a.target)))]
            if len(defs) != 1 or not isinstance(defs[0], ast.Assign) or len(defs[0].targets) != 1 or not isinstance(defs[0].targets[0], ast.Name):
                return None
            it = defs[0].value
        if not isinstance(it, (ast.Tuple, ast.List)):
            return None
        try:
            table = ast.literal_eval(it)
        except (ValueError, SyntaxError):
            return None
        if len(table) > 64:
            return None
        from .normal import _clone_stmts, _Subst
        tg = node.target
        bodies = []
        for row in table:
            if isinstance(tg, ast.Name):
                mapping = {tg.id: ast.Constant(value=row)}
            elif isinstance(tg, (ast.Tuple, ast.List)) and isinstance(row, (tuple, list)) and len(row) == len(tg.elts) and all(isinstance(e, ast.Name) for e in tg.elts):
                mapping = dict((e.id, ast.Constant(value=v)) for e, v in zip(tg.elts, row))
            else:
                return None
            if any(isinstance(x, ast.Name) and isinstance(x.ctx, ast.Store) and x.id in mapping for st in node.body for x in ast.walk(st)):
                return None
            body = _clone_stmts(node.body)
            mod = ast.Module(body=body, type_ignores=[])
            _Subst(mapping).visit(mod)
            _GetattrSelf().visit(mod)
            ast.fix_missing_locations(mod)
            for st0, st1 in zip(node.body, mod.body):
                ast.copy_location(st1, st0)
            bodies.append(mod.body)
            self._keep.append(mod)
        self._unroll[k] = bodies
        return bodies

    def invalidate(self, s, attr):
        """Drop opaque facts that mention an attribute being reassigned."""
        for k in list(s.atoms):
            if "self.%s" % attr in k:
                del s.atoms[k]

    def stmt(self, node, states, depth, live=None):
        self.steps += 1
        out = []
        if isinstance(node, ast.Expr):
            v = node.value
            if isinstance(v, ast.Constant):
                return states
            if isinstance(v, ast.Call) and isinstance(v.func, ast.Attribute) and isinstance(v.func.value, ast.Name) and v.func.value.id == "self" and v.func.attr in self.methods:
                if depth >= self.inline_depth:
                    raise Unsupported("inlining too deep at %s" % v.func.attr)
                return self.run_method(v.func.attr, states, depth + 1, live)
            if isinstance(v, ast.IfExp):
                return self.stmt(ast.If(test=v.test, body=[ast.Expr(value=v.body)], orelse=[ast.Expr(value=v.orelse)]), states, depth, live)
            return states    # other calls (logging, writes to stdout) do not touch the options
        if isinstance(node, ast.Assign):
            for s in states:
                s = s.copy()
                val = self.ev(node.value, s)
                for t in node.targets:
                    if isinstance(t, ast.Attribute) and isinstance(t.value, ast.Name) and t.value.id == "self":
                        self.invalidate(s, t.attr)
                        if self.relevant is None or t.attr in self.relevant:
                            s.attrs[t.attr] = val
                    elif isinstance(t, ast.Name):
                        if self.relevant is None:
                            s.locals[t.id] = val
                    elif isinstance(t, (ast.Tuple, ast.List)):
                        for x in t.elts:
                            if isinstance(x, ast.Name):
                                s.locals[x.id] = UNK
                            elif isinstance(x, ast.Attribute) and UNPARSE(x.value) == "self":
                                self.invalidate(s, x.attr)
                                s.attrs[x.attr] = UNK
                    elif isinstance(t, ast.Subscript):
                        pass
                    else:
                        raise Unsupported("assignment target %s" % UNPARSE(t))
                out.append(s)
            return out
        if isinstance(node, ast.AugAssign):
            for s in states:
                s = s.copy()
                t = node.target
                if isinstance(t, ast.Attribute) and UNPARSE(t.value) == "self":
                    self.invalidate(s, t.attr)
                    s.attrs[t.attr] = UNK
                elif isinstance(t, ast.Name):
                    s.locals[t.id] = UNK
                out.append(s)
            return out
        if isinstance(node, ast.If):
            for s in states:
                v = self.ev(node.test, s)
                if v == T:
                    out.extend(self.block(node.body, [s], depth, live))
                elif v == F:
                    out.extend(self.block(node.orelse, [s], depth, live) if node.orelse else [s])
                else:
                    ts = self.refine(node.test, True, s)
                    fs = self.refine(node.test, False, s)
                    if ts:
                        out.extend(self.block(node.body, ts, depth, live))
                    if fs:
                        out.extend(self.block(node.orelse, fs, depth, live) if node.orelse else fs)
            return out
        if isinstance(node, ast.Raise):
            for s in states:
                r = State(trace=s.trace + ["raise at line %s" % getattr(node, "lineno", "?")])
                r.status = "rejected"
                out.append(r)
            return out
        if isinstance(node, ast.Return):
            for s in states:
                s = s.copy()
                s.status = "returned"
                out.append(s)
            return out
        if isinstance(node, ast.For) and not node.orelse:
            un = self.unrolled(node)
            if un is not None:
                cur, after = states, []
                for body in un:
                    res = self.block(body, cur, depth, (set(live) | self.reads_of(node)) if live is not None else None)
                    cur = []
                    for b in res:
                        if b.status == "loopbreak":
                            b = b.copy()
                            b.status = "running"
                            after.append(b)
                        elif b.status == "loopcont":
                            b = b.copy()
                            b.status = "running"
                            cur.append(b)
                        elif b.status == "running":
                            cur.append(b)
                        else:
                            after.append(b)
                    cur = self.dedup(cur)
                return self.dedup(after + cur)
        if isinstance(node, (ast.For, ast.While)):
            assigned_attrs = set()
            assigned_locals = set()
            for n in walk_body(node.body):
                if isinstance(n, (ast.Assign, ast.AugAssign)):
                    tg = n.targets if isinstance(n, ast.Assign) else [n.target]
                    for t in tg:
                        if isinstance(t, ast.Attribute) and UNPARSE(t.value) == "self":
                            assigned_attrs.add(t.attr)
                        elif isinstance(t, ast.Name):
                            assigned_locals.add(t.id)
            if isinstance(node, ast.For):
                for x in ast.walk(node.target):
                    if isinstance(x, ast.Name):
                        assigned_locals.add(x.id)
            for s in states:
                out.append(s)                       # zero iterations
                h = s.copy()
                for a in assigned_attrs:
                    self.invalidate(h, a)
                    h.attrs[a] = UNK
                for a in assigned_locals:
                    h.locals[a] = UNK
                body_out = self.block(node.body, [h], depth, (set(live) | self.reads_of(node)) if live is not None else None)
                for b in body_out:
                    b2 = b.copy()
                    for a in assigned_attrs:
                        self.invalidate(b2, a)
                        b2.attrs[a] = UNK
                    for a in assigned_locals:
                        b2.locals[a] = UNK
                    if b2.status in ("loopbreak", "loopcont"):
                        b2.status = "running"
                    out.append(b2)
            return out
        if isinstance(node, (ast.Break, ast.Continue)):
            for s in states:
                s = s.copy()
                s.status = "loopbreak" if isinstance(node, ast.Break) else "loopcont"
                out.append(s)
            return out
        if isinstance(node, ast.Pass):
            return states
        if isinstance(node, ast.Assert):
            # over-approximation of the accepted paths: with -O the statement does not exist, without it it can only remove paths
            # (AssertionError is neither an accepted configuration nor the documented rejection)
            return states
        if isinstance(node, FUNC_TYPES):
            return states
        raise Unsupported("statement kind %s: %s" % (type(node).__name__, short(node, 60)))
