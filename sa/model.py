"""Resolved program model over the *source text* of the repository.

Nothing here imports or executes ``insights``; every fact is derived from
``ast.parse`` of the files of the current working tree.
"""
import ast
import os
import sys


class AnalysisError(Exception):
    """An anchor vanished / idiom unknown: the analysis cannot give a verdict."""

    def __init__(self, rule, reason):
        Exception.__init__(self, "%s: %s" % (rule, reason))
        self.rule = rule
        self.reason = reason


FUNC_TYPES = (ast.FunctionDef, ast.AsyncFunctionDef)
SCOPE_TYPES = FUNC_TYPES + (ast.ClassDef, ast.Lambda)


def U(node):
    """Normalised text of a construct (never line based)."""
    if node is None:
        return "None"
    if isinstance(node, str):
        return node
    try:
        return ast.unparse(node)
    except Exception:  # pragma: no cover
        return ast.dump(node)


def short(node, n=160):
    s = " ".join(U(node).split())
    return s if len(s) <= n else s[: n - 3] + "..."


def set_parents(tree):
    for node in ast.walk(tree):
        for ch in ast.iter_child_nodes(node):
            ch._parent = node
    tree._parent = None


def parent(node):
    return getattr(node, "_parent", None)


def ancestors(node):
    p = parent(node)
    while p is not None:
        yield p
        p = parent(p)


def enclosing(node, types):
    for a in ancestors(node):
        if isinstance(a, types):
            return a
    return None


def enclosing_function(node):
    return enclosing(node, FUNC_TYPES)


def walk_local(node, include_lambda=True):
    """Walk ``node`` without descending into nested def/class bodies."""
    stack = [node]
    first = True
    while stack:
        n = stack.pop()
        if not first and isinstance(n, FUNC_TYPES + (ast.ClassDef,)):
            continue
        if not first and not include_lambda and isinstance(n, ast.Lambda):
            continue
        first = False
        yield n
        stack.extend(reversed(list(ast.iter_child_nodes(n))))


def walk_body(stmts, include_lambda=True):
    for s in stmts:
        if isinstance(s, FUNC_TYPES + (ast.ClassDef,)):
            continue
        for n in walk_local(s, include_lambda):
            yield n


def dotted(node):
    """``a.b.c`` for Name/Attribute chains, else None."""
    parts = []
    while isinstance(node, ast.Attribute):
        parts.append(node.attr)
        node = node.value
    if isinstance(node, ast.Name):
        parts.append(node.id)
        return ".".join(reversed(parts))
    return None


def call_name(call):
    if isinstance(call, ast.Call):
        return dotted(call.func)
    return None


def call_attr(call):
    """Last attribute / name of the called expression."""
    if not isinstance(call, ast.Call):
        return None
    f = call.func
    if isinstance(f, ast.Attribute):
        return f.attr
    if isinstance(f, ast.Name):
        return f.id
    return None


def calls_in(node, local=True):
    it = walk_local(node) if local else ast.walk(node)
    return [n for n in it if isinstance(n, ast.Call)]


def names_in(node):
    return set(n.id for n in ast.walk(node) if isinstance(n, ast.Name))


def is_const(node, value=None):
    if not isinstance(node, ast.Constant):
        return False
    return value is None or node.value == value


def const_str(node):
    if isinstance(node, ast.Constant) and isinstance(node.value, str):
        return node.value
    return None


def kwarg(call, name):
    for k in call.keywords:
        if k.arg == name:
            return k.value
    # **kw where kw is a local bound exactly once to a dict display / dict(k=v, ...) call (keyword arguments computed once, e.g. before a loop)
    for k in call.keywords:
        if k.arg is None and isinstance(k.value, ast.Name):
            fn = enclosing_function(call)
            if fn is None:
                continue
            stores = [x for x in ast.walk(fn) if isinstance(x, ast.Name) and x.id == k.value.id and isinstance(x.ctx, (ast.Store, ast.Del))]
            if len(stores) != 1:
                continue
            a = parent(stores[0])
            if not (isinstance(a, ast.Assign) and len(a.targets) == 1 and a.targets[0] is stores[0]):
                continue
            # the dict must not be modified after its creation
            touched = [x for x in ast.walk(fn) if (isinstance(x, ast.Subscript) and isinstance(x.ctx, (ast.Store, ast.Del)) and isinstance(x.value, ast.Name) and x.value.id == k.value.id)
                       or (isinstance(x, ast.Call) and isinstance(x.func, ast.Attribute) and isinstance(x.func.value, ast.Name) and x.func.value.id == k.value.id
                           and x.func.attr in ("update", "pop", "setdefault", "clear", "popitem"))]
            if touched:
                continue
            v = a.value
            if isinstance(v, ast.Dict):
                for kk, vv in zip(v.keys, v.values):
                    if kk is not None and isinstance(kk, ast.Constant) and kk.value == name:
                        return vv
            elif isinstance(v, ast.Call) and isinstance(v.func, ast.Name) and v.func.id == "dict" and not v.args:
                for kk in v.keywords:
                    if kk.arg == name:
                        return kk.value
    return None


def arg_or_kw(call, pos, name):
    if pos is not None and len(call.args) > pos and not any(isinstance(a, ast.Starred) for a in call.args[: pos + 1]):
        return call.args[pos]
    return kwarg(call, name)


def terminates(stmts):
    """True when control cannot fall off the end of the statement list."""
    if not stmts:
        return False
    last = stmts[-1]
    if isinstance(last, (ast.Return, ast.Raise, ast.Continue, ast.Break)):
        return True
    if isinstance(last, ast.Expr) and isinstance(last.value, ast.Call):
        n = call_name(last.value)
        if n in ("sys.exit", "exit", "os._exit"):
            return True
    if isinstance(last, ast.If):
        return bool(last.orelse) and terminates(last.body) and terminates(last.orelse)
    if isinstance(last, ast.With):
        return terminates(last.body)
    if isinstance(last, ast.Try):
        if last.finalbody and terminates(last.finalbody):
            return True
        body_ok = terminates(last.orelse) if last.orelse else terminates(last.body)
        return body_ok and all(terminates(h.body) for h in last.handlers)
    return False


# --------------------------------------------------------------------------
# guards
# --------------------------------------------------------------------------

def _flatten_atom(expr, pol, out):
    """Split a condition known to be ``pol`` into atoms known to hold."""
    if isinstance(expr, ast.Call) and isinstance(expr.func, ast.Name) and expr.func.id == "bool" and len(expr.args) == 1 and not expr.keywords:
        _flatten_atom(expr.args[0], pol, out)        # bool(x) as a condition is x
        return
    if isinstance(expr, ast.UnaryOp) and isinstance(expr.op, ast.Not):
        _flatten_atom(expr.operand, not pol, out)
        return
    if isinstance(expr, ast.BoolOp):
        if isinstance(expr.op, ast.And) and pol:
            for v in expr.values:
                _flatten_atom(v, True, out)
            return
        if isinstance(expr.op, ast.Or) and not pol:
            for v in expr.values:
                _flatten_atom(v, False, out)
            return
        out.append((expr, pol))
        return
    if isinstance(expr, ast.Compare) and len(expr.ops) == 1:
        op = expr.ops[0]
        flip = {ast.NotIn: ast.In, ast.IsNot: ast.Is, ast.NotEq: ast.Eq}
        for neg, posi in flip.items():
            if isinstance(op, neg):
                e2 = ast.Compare(left=expr.left, ops=[posi()], comparators=expr.comparators)
                out.append((e2, not pol))
                return
        # len(x) == 0  ==  not x ;  len(x) > 0 / != 0 == x
        l, r = expr.left, expr.comparators[0]
        if isinstance(l, ast.Call) and call_name(l) == "len" and len(l.args) == 1 and is_const(r) and r.value == 0:
            if isinstance(op, ast.Eq):
                out.append((l.args[0], not pol))
                return
            if isinstance(op, (ast.Gt,)):
                out.append((l.args[0], pol))
                return
    out.append((expr, pol))


def guards(node, stop=None):
    """Conditions that hold on every (normal) path to ``node``.

    Returns a list of ``(ast expr, polarity)`` atoms, from lexical nesting
    (if/while/ifexp/boolop/comprehension filters) and from early exits
    (``if c: return|raise|continue|break`` earlier in an enclosing block).
    ``stop`` is the scope node at which to stop (default: enclosing function).
    """
    out = []
    child = node
    for a in ancestors(node):
        if a is stop:
            pass    # the stop node's own condition is not a guard *within* it
        elif isinstance(a, ast.If) or isinstance(a, ast.While):
            if any(child is s for s in a.body):
                _flatten_atom(a.test, True, out)
            elif any(child is s for s in a.orelse) and isinstance(a, ast.If):
                _flatten_atom(a.test, False, out)
        elif isinstance(a, ast.IfExp):
            if child is a.body:
                _flatten_atom(a.test, True, out)
            elif child is a.orelse:
                _flatten_atom(a.test, False, out)
        elif isinstance(a, ast.BoolOp):
            idx = [i for i, v in enumerate(a.values) if v is child]
            if idx:
                for v in a.values[: idx[0]]:
                    _flatten_atom(v, isinstance(a.op, ast.And), out)
        elif isinstance(a, (ast.ListComp, ast.SetComp, ast.GeneratorExp, ast.DictComp)):
            in_elt = child is getattr(a, "elt", None) or child is getattr(a, "key", None) or child is getattr(a, "value", None)
            if in_elt:
                for g in a.generators:
                    for c in g.ifs:
                        _flatten_atom(c, True, out)
        # early exits in the statement list that contains ``child``
        for field in ("body", "orelse", "finalbody"):
            lst = getattr(a, field, None)
            if isinstance(lst, list) and any(child is s for s in lst):
                for s in lst:
                    if s is child:
                        break
                    if isinstance(s, ast.If):
                        if terminates(s.body) and not terminates(s.orelse):
                            _flatten_atom(s.test, False, out)
                        elif s.orelse and terminates(s.orelse) and not terminates(s.body):
                            _flatten_atom(s.test, True, out)
        if a is stop or (stop is None and isinstance(a, FUNC_TYPES)):
            break
        child = a
    return out


def _exit_kind(stmts):
    last = stmts[-1]
    if isinstance(last, ast.Raise):
        return "raise"
    if isinstance(last, ast.Return):
        return "return"
    if isinstance(last, (ast.Continue, ast.Break)):
        return "jump"
    return "other"


def guards_ex(node, stop=None):
    """Like guards() but each atom carries its origin:
    'nest' (lexical nesting), 'exit-raise', 'exit-return', 'exit-jump', 'exit-other'."""
    out = []
    child = node
    for a in ancestors(node):
        tmp = []
        if a is stop:
            pass
        elif isinstance(a, ast.If) or isinstance(a, ast.While):
            if any(child is s for s in a.body):
                _flatten_atom(a.test, True, tmp)
            elif any(child is s for s in a.orelse) and isinstance(a, ast.If):
                _flatten_atom(a.test, False, tmp)
        elif isinstance(a, ast.IfExp):
            if child is a.body:
                _flatten_atom(a.test, True, tmp)
            elif child is a.orelse:
                _flatten_atom(a.test, False, tmp)
        elif isinstance(a, ast.BoolOp):
            idx = [i for i, v in enumerate(a.values) if v is child]
            if idx:
                for v in a.values[: idx[0]]:
                    _flatten_atom(v, isinstance(a.op, ast.And), tmp)
        out.extend((e, p, "nest") for e, p in tmp)
        for field in ("body", "orelse", "finalbody"):
            lst = getattr(a, field, None)
            if isinstance(lst, list) and any(child is s for s in lst):
                for s in lst:
                    if s is child:
                        break
                    if isinstance(s, ast.If):
                        tmp = []
                        if terminates(s.body) and not terminates(s.orelse):
                            _flatten_atom(s.test, False, tmp)
                            kind = _exit_kind(s.body)
                        elif s.orelse and terminates(s.orelse) and not terminates(s.body):
                            _flatten_atom(s.test, True, tmp)
                            kind = _exit_kind(s.orelse)
                        else:
                            continue
                        out.extend((e, p, "exit-" + kind) for e, p in tmp)
        if a is stop or (stop is None and isinstance(a, FUNC_TYPES)):
            break
        child = a
    return out


def guard_texts(node, stop=None):
    return set((U(e), p) for e, p in guards(node, stop))


def has_guard(node, text, pol, stop=None):
    return (text, pol) in guard_texts(node, stop)


# --------------------------------------------------------------------------
# modules
# --------------------------------------------------------------------------

class Mod(object):
    def __init__(self, repo, name, path):
        self.repo = repo
        self.name = name
        self.path = path
        self.rel = os.path.relpath(path, repo.root)
        if self.rel in repo.overlay:
            self.src = repo.overlay[self.rel]
        else:
            with open(path, "rb") as fh:
                data = fh.read()
            self.src = data.decode("utf-8", "replace")
        self.tree = ast.parse(self.src, filename=path)
        set_parents(self.tree)
        self.name = name
        for n in ast.walk(self.tree):
            n._mod = self
        self.defs = {}
        self._index(self.tree, "")
        self.imports = {}
        self._imports()
        self.normal = {"inlined": 0, "propagated": 0, "renamed": 0}
        self.const_lookup = getattr(repo, "new_constants_of", None)
        if getattr(repo, "normalise", True):
            try:
                from . import normal
                self.normal = normal.normalise(self)
            except Exception:      # normalisation is an aid, never a reason to fail
                pass
            try:
                from . import normal
                self.normal["canonical"] = normal.canonical_control(self)
            except Exception:
                pass
            if any(self.normal.values()):
                ast.fix_missing_locations(self.tree)
                set_parents(self.tree)
                self.reindex()
        self.top = {}
        for st in self.tree.body:
            if isinstance(st, ast.Assign):
                for t in st.targets:
                    if isinstance(t, ast.Name):
                        self.top[t.id] = st.value
            elif isinstance(st, ast.AnnAssign) and isinstance(st.target, ast.Name) and st.value is not None:
                self.top[st.target.id] = st.value

    def reindex(self):
        """Rebuild the definition index and node links after the view was normalised."""
        for n in ast.walk(self.tree):
            n._mod = self
        self.defs = {}
        self._index(self.tree, "")
        _LOCAL_CACHE.clear()

    def _index(self, node, prefix):
        for ch in ast.iter_child_nodes(node):
            if isinstance(ch, FUNC_TYPES + (ast.ClassDef,)):
                q = prefix + ch.name
                # keep the *last* definition, like the interpreter; but record all
                self.defs.setdefault(q, []).append(ch)
                ch._qual = q
                self._index(ch, q + ".")
            elif isinstance(ch, (ast.If, ast.Try, ast.With, ast.For, ast.While)):
                self._index(ch, prefix)
            elif isinstance(ch, ast.ExceptHandler):
                self._index(ch, prefix)

    def _imports(self):
        pkg = self.name.rsplit(".", 1)[0] if not self.path.endswith("__init__.py") else self.name
        for n in ast.walk(self.tree):
            if isinstance(n, ast.Import):
                for a in n.names:
                    if a.asname:
                        self.imports[a.asname] = a.name
                    else:
                        self.imports[a.name.split(".")[0]] = a.name.split(".")[0]
            elif isinstance(n, ast.ImportFrom):
                base = n.module or ""
                if n.level:
                    parts = pkg.split(".")
                    if n.level > 1:
                        parts = parts[: -(n.level - 1)]
                    base = ".".join(parts + ([n.module] if n.module else []))
                for a in n.names:
                    self.imports[a.asname or a.name] = base + "." + a.name

    # ---- look-ups -------------------------------------------------------
    def has(self, qual):
        return qual in self.defs

    def get(self, qual, rule="anchor"):
        if qual not in self.defs:
            raise AnalysisError(rule, "anchor %s.%s not found in %s" % (self.name, qual, self.rel))
        return self.defs[qual][-1]

    def func(self, qual, rule="anchor"):
        n = self.get(qual, rule)
        if not isinstance(n, FUNC_TYPES):
            raise AnalysisError(rule, "anchor %s.%s is not a function" % (self.name, qual))
        return n

    def cls(self, qual, rule="anchor"):
        n = self.get(qual, rule)
        if not isinstance(n, ast.ClassDef):
            raise AnalysisError(rule, "anchor %s.%s is not a class" % (self.name, qual))
        return n

    def functions(self):
        for q, lst in self.defs.items():
            for n in lst:
                if isinstance(n, FUNC_TYPES):
                    yield q, n

    def classes(self):
        for q, lst in self.defs.items():
            for n in lst:
                if isinstance(n, ast.ClassDef):
                    yield q, n

    def loc(self, node):
        return "%s:%s" % (self.rel, getattr(node, "lineno", 0))


def qual_of(node):
    """Qualified ``module:Class.func`` name of the scope holding ``node``."""
    m = getattr(node, "_mod", None)
    f = node if isinstance(node, FUNC_TYPES + (ast.ClassDef,)) else enclosing(node, FUNC_TYPES + (ast.ClassDef,))
    q = getattr(f, "_qual", "<module>") if f is not None else "<module>"
    return "%s:%s" % (m.name if m else "?", q)


def loc_of(node):
    m = getattr(node, "_mod", None)
    return "%s:%s" % (m.rel if m else "?", getattr(node, "lineno", 0))


class Repo(object):
    SKIP_DIRS = ("tests",)

    def __init__(self, root, overlay=None):
        self.root = os.path.abspath(root)
        self.overlay = dict(overlay or {})   # relpath -> source text (self-test mutants, never written to disk)
        self.normalise = True                # rename locals to the pinned names (sa/alpha.py)
        self._mods = {}
        self._all = None
        self._classes = None
        self.parse_failures = []

    def path_of(self, name):
        base = os.path.join(self.root, *name.split("."))
        if os.path.isfile(base + ".py"):
            return base + ".py"
        if os.path.isfile(os.path.join(base, "__init__.py")):
            return os.path.join(base, "__init__.py")
        return None

    def module(self, name, rule="anchor"):
        if name in self._mods:
            return self._mods[name]
        p = self.path_of(name)
        if p is None:
            raise AnalysisError(rule, "anchor module %s not found under %s" % (name, self.root))
        try:
            m = Mod(self, name, p)
        except SyntaxError as e:
            raise AnalysisError(rule, "module %s does not parse: %s" % (name, e))
        self._mods[name] = m
        return m

    def new_constants_of(self, name):
        """name -> value expression of the module-level constants of module ``name`` that are new with respect to the pinned tree (view layer, D)."""
        cache = self.__dict__.setdefault("_newconst", {})
        if name in cache:
            return cache[name]
        cache[name] = None
        p = self.path_of(name)
        if p is None:
            return None
        try:
            from . import normal, alpha
            import hashlib
            pinned = alpha.table().get(name)
            rel = os.path.relpath(p, self.root)
            if rel in self.overlay:
                src = self.overlay[rel]
            else:
                with open(p, "rb") as fh:
                    src = fh.read().decode("utf-8", "replace")
            if not pinned or pinned.get("__digest__") == hashlib.sha1(src.encode("utf-8")).hexdigest():
                return None

            class _Lite(object):
                pass
            lite = _Lite()
            lite.tree = ast.parse(src)
            cache[name] = normal.new_module_constants(lite, pinned) or None
        except Exception:
            cache[name] = None
        return cache[name]

    def try_module(self, name):
        try:
            return self.module(name)
        except AnalysisError:
            return None

    def module_names(self, sub="insights"):
        out = []
        top = os.path.join(self.root, *sub.split("."))
        for dp, dns, fns in os.walk(top):
            dns[:] = sorted(d for d in dns if d not in self.SKIP_DIRS and d != "__pycache__")
            for fn in sorted(fns):
                if not fn.endswith(".py"):
                    continue
                full = os.path.join(dp, fn)
                rel = os.path.relpath(full, self.root)[:-3].replace(os.sep, ".")
                if rel.endswith(".__init__"):
                    rel = rel[: -len(".__init__")]
                out.append(rel)
        return out

    def all_modules(self, sub="insights"):
        mods = []
        for n in self.module_names(sub):
            try:
                mods.append(self.module(n))
            except AnalysisError as e:
                self.parse_failures.append((n, e.reason))
        return mods

    @property
    def loaded(self):
        return list(self._mods.values())

    # ---- symbol resolution ------------------------------------------------
    def resolve_dotted(self, mod, name, depth=0):
        """Resolve a dotted name used in ``mod`` to ('module', Mod) /
        ('def', Mod, qual, node) / ('const', Mod, name, node) / ('ext', text)."""
        if depth > 8:
            return ("ext", name)
        parts = name.split(".")
        head = parts[0]
        # local definition or constant
        if head in mod.defs and not isinstance(parent(mod.defs[head][-1]), FUNC_TYPES + (ast.ClassDef,)):
            return self._descend(("def", mod, head, mod.defs[head][-1]), parts[1:], depth)
        if head in mod.top:
            v = mod.top[head]
            if len(parts) == 1:
                # alias of another symbol?
                d = dotted(v)
                if d and d != name:
                    r = self.resolve_dotted(mod, d, depth + 1)
                    if r[0] != "ext":
                        return r
                return ("const", mod, head, v)
            d = dotted(v)
            if d:
                return self.resolve_dotted(mod, d + "." + ".".join(parts[1:]), depth + 1)
            return ("ext", name)
        if head in mod.imports:
            target = mod.imports[head]
            return self._resolve_abs(target, parts[1:], depth)
        return ("ext", name)

    def _resolve_abs(self, target, rest, depth):
        # longest module prefix
        tparts = target.split(".")
        for i in range(len(tparts), 0, -1):
            mname = ".".join(tparts[:i])
            if self.path_of(mname):
                m = self.try_module(mname)
                if m is None:
                    return ("ext", target)
                remaining = tparts[i:] + list(rest)
                if not remaining:
                    return ("module", m)
                # a submodule?
                sub = mname + "." + remaining[0]
                if self.path_of(sub) and remaining[0] not in m.defs and remaining[0] not in m.top:
                    return self._resolve_abs(sub, remaining[1:], depth)
                return self.resolve_dotted(m, ".".join(remaining), depth + 1)
        return ("ext", ".".join([target] + list(rest)))

    def _descend(self, res, rest, depth):
        if not rest:
            return res
        kind, mod, qual, node = res
        if isinstance(node, ast.ClassDef):
            q = qual + "." + rest[0]
            if q in mod.defs:
                return self._descend(("def", mod, q, mod.defs[q][-1]), rest[1:], depth)
            # class attribute constant
            for st in node.body:
                if isinstance(st, ast.Assign):
                    for t in st.targets:
                        if isinstance(t, ast.Name) and t.id == rest[0]:
                            if len(rest) == 1:
                                return ("const", mod, q, st.value)
            # inherited
            for b in node.bases:
                bd = dotted(b)
                if bd:
                    r = self.resolve_dotted(mod, bd, depth + 1)
                    if r[0] == "def" and isinstance(r[3], ast.ClassDef):
                        rr = self._descend(r, rest, depth + 1)
                        if rr[0] != "ext":
                            return rr
        return ("ext", qual + "." + ".".join(rest))

    def resolve(self, node, depth=0):
        """Resolve an expression node (Name/Attribute chain) in its module."""
        d = dotted(node)
        mod = getattr(node, "_mod", None)
        if d is None or mod is None:
            return ("ext", U(node))
        # a local/parameter shadows module symbols
        head = d.split(".")[0]
        for sc in scopes_of(node):
            if isinstance(sc, FUNC_TYPES + (ast.Lambda,)):
                if head in local_names(sc):
                    return ("local", d)
            elif isinstance(sc, ast.ClassDef) and sc is scopes_of(node)[0]:
                # class-body scope is visible only to code directly in the class body
                q = sc._qual + "." + head
                if q in mod.defs or any(isinstance(st, ast.Assign) and any(isinstance(t, ast.Name) and t.id == head for t in st.targets) for st in sc.body):
                    return self.resolve_dotted(mod, sc._qual + "." + d, depth)
        return self.resolve_dotted(mod, d, depth)

    def resolved_id(self, node):
        """Canonical text for the symbol ``node`` refers to (for set compare)."""
        r = self.resolve(node)
        if r[0] == "def":
            return "%s:%s" % (r[1].name, r[2])
        if r[0] == "const":
            return "%s:%s" % (r[1].name, r[2])
        if r[0] == "module":
            return r[1].name
        if r[0] == "local":
            return "local:" + r[1]
        return "ext:" + r[1]

    # ---- class hierarchy --------------------------------------------------
    def class_table(self, mods=None):
        """{ 'mod:Qual': ClassInfo } over the given (default: all loaded) modules."""
        tbl = {}
        for m in (mods if mods is not None else self.loaded):
            for q, n in m.classes():
                tbl["%s:%s" % (m.name, q)] = n
        return tbl

    def bases_of(self, cnode):
        out = []
        mod = cnode._mod
        for b in cnode.bases:
            if isinstance(b, ast.Call) and call_name(b) in ("six.with_metaclass", "with_metaclass"):
                bs = b.args[1:]
            else:
                bs = [b]
            for bb in bs:
                d = dotted(bb)
                if not d:
                    continue
                r = self.resolve_dotted(mod, d)
                if r[0] == "def" and isinstance(r[3], ast.ClassDef):
                    out.append(r[3])
                else:
                    out.append(d)
        return out

    def mro(self, cnode, _seen=None):
        """Linearisation good enough for single inheritance + mixins (C3-ish DFS, dedup keep last)."""
        seen = _seen or set()
        if id(cnode) in seen:
            return []
        seen.add(id(cnode))
        order = [cnode]
        for b in self.bases_of(cnode):
            if isinstance(b, ast.ClassDef):
                for c in self.mro(b, seen):
                    if c in order:
                        order.remove(c)
                    order.append(c)
        return order

    def is_subclass(self, cnode, base_id):
        """base_id = 'module:Qual'."""
        for c in self.mro(cnode):
            if "%s:%s" % (c._mod.name, c._qual) == base_id:
                return True
        return False

    def lookup_method(self, cnode, name, after=None):
        """Find the defining class of ``name`` in the MRO (after ``after`` for super())."""
        m = self.mro(cnode)
        if after is not None and after in m:
            m = m[m.index(after) + 1:]
        for c in m:
            for st in c.body:
                if isinstance(st, FUNC_TYPES) and st.name == name:
                    return c, st
        return None, None


_LOCAL_CACHE = {}


def scopes_of(node):
    """Enclosing scopes (innermost first).  Decorators, default values and base
    classes are evaluated in the scope *outside* the def they belong to."""
    out = []
    child = node
    for a in ancestors(node):
        if isinstance(a, FUNC_TYPES):
            in_header = any(child is d for d in a.decorator_list) or child is a.args or child is a.returns
            if not in_header:
                out.append(a)
        elif isinstance(a, ast.Lambda):
            if child is a.body:
                out.append(a)
        elif isinstance(a, ast.ClassDef):
            in_header = any(child is d for d in a.decorator_list) or any(child is b for b in a.bases) or any(child is k for k in a.keywords)
            if not in_header:
                out.append(a)
        child = a
    return out


def local_names(fn):
    """Names bound in the function scope (params, assignments, loops, with, except, imports)."""
    k = id(fn)
    if k in _LOCAL_CACHE:
        return _LOCAL_CACHE[k]
    names = set()
    a = fn.args
    if isinstance(fn, ast.Lambda):
        names = set(x.arg for x in a.posonlyargs + a.args + a.kwonlyargs)
        if a.vararg:
            names.add(a.vararg.arg)
        if a.kwarg:
            names.add(a.kwarg.arg)
        _LOCAL_CACHE[k] = names
        return names
    for x in a.posonlyargs + a.args + a.kwonlyargs:
        names.add(x.arg)
    if a.vararg:
        names.add(a.vararg.arg)
    if a.kwarg:
        names.add(a.kwarg.arg)
    globs = set()
    body = fn.body if isinstance(fn.body, list) else [fn.body]
    for n in walk_body(body):
        if isinstance(n, ast.Global):
            globs.update(n.names)
        elif isinstance(n, ast.Name) and isinstance(n.ctx, (ast.Store, ast.Del)):
            # comprehension targets are their own scope, but shadowing is harmless here
            names.add(n.id)
        elif isinstance(n, ast.ExceptHandler) and n.name:
            names.add(n.name)
        elif isinstance(n, (ast.Import, ast.ImportFrom)):
            # function-level imports are resolved through the module's import map
            pass
    for st in body:
        if isinstance(st, FUNC_TYPES + (ast.ClassDef,)):
            names.add(st.name)
    for n in walk_body(body):
        pass
    # nested defs anywhere at statement level
    for n in ast.walk(fn):
        if n is not fn and isinstance(n, FUNC_TYPES + (ast.ClassDef,)) and enclosing(n, FUNC_TYPES) is fn:
            names.add(n.name)
    names -= globs
    _LOCAL_CACHE[k] = names
    return names


def literal(repo, node, depth=0):
    """Constant-fold a literal expression through module/class constants.

    Returns the Python value, or raises ValueError."""
    if depth > 6:
        raise ValueError("depth")
    try:
        return ast.literal_eval(node)
    except Exception:
        pass
    if isinstance(node, (ast.List, ast.Tuple, ast.Set)):
        vals = [literal(repo, e, depth + 1) for e in node.elts]
        return vals if isinstance(node, ast.List) else tuple(vals) if isinstance(node, ast.Tuple) else set(vals)
    if isinstance(node, ast.Dict):
        return dict((literal(repo, k, depth + 1), literal(repo, v, depth + 1)) for k, v in zip(node.keys, node.values))
    if isinstance(node, ast.BinOp) and isinstance(node.op, ast.Add):
        return literal(repo, node.left, depth + 1) + literal(repo, node.right, depth + 1)
    if isinstance(node, (ast.Name, ast.Attribute)):
        r = repo.resolve(node)
        if r[0] == "const":
            return literal(repo, r[3], depth + 1)
        # self.X / cls.X inside a class
        d = dotted(node)
        if d and d.split(".")[0] in ("self", "cls") and d.count(".") == 1:
            c = enclosing(node, ast.ClassDef)
            if c is not None:
                for cc in repo.mro(c):
                    for st in cc.body:
                        if isinstance(st, ast.Assign):
                            for t in st.targets:
                                if isinstance(t, ast.Name) and t.id == d.split(".")[1]:
                                    return literal(repo, st.value, depth + 1)
    raise ValueError("not a literal: %s" % short(node))
