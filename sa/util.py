"""Small shared helpers for the rule modules."""
import ast

from .model import (FUNC_TYPES, U, ancestors, call_attr, call_name, dotted, enclosing, enclosing_function, guard_texts,
                    parent, short, walk_body, walk_local)


def params(fn):
    return [a.arg for a in fn.args.posonlyargs + fn.args.args]


def stmts_of(fn):
    """All statements of a function (not nested defs), in source order."""
    out = [n for n in walk_body(fn.body) if isinstance(n, ast.stmt)]
    out.sort(key=lambda n: (n.lineno, n.col_offset))
    return out


def find_calls(node_or_body, attr=None, name=None, pred=None):
    body = node_or_body if isinstance(node_or_body, list) else None
    it = walk_body(body) if body is not None else walk_local(node_or_body)
    out = []
    for n in it:
        if not isinstance(n, ast.Call):
            continue
        if attr is not None and call_attr(n) not in ((attr,) if isinstance(attr, str) else attr):
            continue
        if name is not None and call_name(n) not in ((name,) if isinstance(name, str) else name):
            continue
        if pred is not None and not pred(n):
            continue
        out.append(n)
    out.sort(key=lambda n: (n.lineno, n.col_offset))
    return out


def assigns_to(fn_or_body, name):
    """Assignments (Assign/AugAssign/AnnAssign/for/with targets) binding the simple name."""
    body = fn_or_body if isinstance(fn_or_body, list) else fn_or_body.body
    out = []
    for n in walk_body(body):
        if isinstance(n, ast.Assign):
            for t in n.targets:
                for tt in ast.walk(t):
                    if isinstance(tt, ast.Name) and tt.id == name and isinstance(tt.ctx, ast.Store):
                        out.append(n)
        elif isinstance(n, (ast.AugAssign, ast.AnnAssign)):
            if isinstance(n.target, ast.Name) and n.target.id == name:
                out.append(n)
    out.sort(key=lambda n: (n.lineno, n.col_offset))
    return out


def single_def(fn, name, before=None):
    ds = assigns_to(fn, name)
    if before is not None:
        ds = [d for d in ds if d.lineno <= before.lineno]
    if len(ds) == 1 and isinstance(ds[0], ast.Assign):
        return ds[0]
    return None


def trace(expr, fn, depth=4):
    """Follow a simple name to its unique defining expression inside ``fn``."""
    while depth > 0 and isinstance(expr, ast.Name) and fn is not None:
        d = single_def(fn, expr.id)
        if d is None or not (len(d.targets) == 1 and isinstance(d.targets[0], ast.Name)):
            break
        expr = d.value
        depth -= 1
    return expr


def stmt_of(node):
    n = node
    while n is not None and not isinstance(n, ast.stmt):
        n = parent(n)
    return n


def block_of(stmt):
    """(list, index) of the statement list containing ``stmt``."""
    p = parent(stmt)
    for field in ("body", "orelse", "finalbody", "handlers"):
        lst = getattr(p, field, None)
        if isinstance(lst, list):
            for i, s in enumerate(lst):
                if s is stmt:
                    return lst, i
    return None, None


def lexically_before(a, b):
    return (a.lineno, a.col_offset) < (b.lineno, b.col_offset)


def syn_dominates(a_stmt, b_node):
    """Syntactic dominance: ``a_stmt`` is a statement of a block that encloses
    ``b_node`` (or is the same block) and comes earlier in that block, and is
    not itself inside a conditional relative to that block."""
    lst, i = block_of(a_stmt)
    if lst is None:
        return False
    n = b_node
    while n is not None:
        for j, s in enumerate(lst):
            if s is n:
                return i < j
        n = parent(n)
    return False


def has_exit(body, kinds=(ast.Break, ast.Continue, ast.Return)):
    return any(isinstance(x, kinds) for x in walk_body(body))


def except_handlers(fn):
    out = []
    for n in walk_body(fn.body):
        if isinstance(n, ast.Try):
            out.append(n)
    return out


def handler_var_bound_by(node):
    """The ExceptHandler whose body contains ``node`` (innermost)."""
    return enclosing(node, ast.ExceptHandler)


def str_consts(node):
    return [n.value for n in ast.walk(node) if isinstance(n, ast.Constant) and isinstance(n.value, str)]


def is_self_attr(node, attr=None):
    return isinstance(node, ast.Attribute) and isinstance(node.value, ast.Name) and node.value.id == "self" and (attr is None or node.attr == attr)


def line_loop(loop, lines):
    """Classify ``for ... in ...`` over the list ``lines``: (order, text of the expression denoting the current line)."""
    it = U(loop.iter)
    tv = U(loop.target)
    if it in ("range(len(%s) - 1, -1, -1)" % lines, "reversed(range(len(%s)))" % lines):
        return "desc", "%s[%s]" % (lines, tv)
    if it in ("reversed(%s)" % lines, "%s[::-1]" % lines):
        return "desc", tv
    if it == "range(len(%s))" % lines:
        return "asc", "%s[%s]" % (lines, tv)
    if it == lines:
        return "asc", tv
    if it == "enumerate(%s)" % lines and isinstance(loop.target, ast.Tuple) and len(loop.target.elts) == 2:
        return "asc", U(loop.target.elts[1])
    return None, None


def some_truthy(atoms, name):
    """Do the guard atoms say 'some element of <name> is truthy'?  Returns True / False (says none is) / None."""
    for t, p in atoms:
        if t in ("any((l for l in %s))" % name, "any(%s)" % name, "any((line for line in %s))" % name, "any((x for x in %s))" % name, "any((bool(l) for l in %s))" % name):
            return p
    return None
